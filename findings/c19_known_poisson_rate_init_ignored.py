"""C19 (known): on the --poisson path of `torchtree-cli advi` the requested `--rate_init` never reaches the clock rate: create_poisson_tree_likelihood calls
create_branch_model() without its `rate_init` argument, so the emitted initial value is the builder's default 0.001 (part of the unfinished --poisson path, see
c19_known_poisson_without_tree_prior.py).
Run: PYTHONPATH=/repo /venv/bin/python findings/c19_known_poisson_rate_init_ignored.py   (exit 1 = defect present)"""
import io, sys, json, math, contextlib
from torchtree.cli.cli import main

requested = 0.01
sys.argv = ['torchtree-cli', 'advi', '-t', '/repo/data/fluA.tree', '--poisson', '--clock', 'strict', '--coalescent', 'constant', '--rate_init', str(requested)]
buf = io.StringIO()
with contextlib.redirect_stdout(buf):
    main()
spec = json.loads(buf.getvalue())


def find(o, id_):
    if isinstance(o, dict):
        if o.get('id') == id_:
            return o
        for v in o.values():
            r = find(v, id_)
            if r is not None:
                return r
    elif isinstance(o, list):
        for v in o:
            r = find(v, id_)
            if r is not None:
                return r
    return None


unres = find(spec, 'branchmodel.rate.unres')
plain = find(spec, 'branchmodel.rate')
if unres is not None:
    value = math.exp(unres['tensor'][0])
else:
    value = plain['tensor'][0]
if abs(value - requested) > 1e-9 * requested + 1e-12:
    print(f"DEFECT: --rate_init {requested} requested, the emitted clock rate starts at {value:.6g}")
    sys.exit(1)
print('OK'); sys.exit(0)
