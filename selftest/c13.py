from sa.selftest import Mut

UT = 'torchtree/core/utils.py'
SER = 'torchtree/core/serializable.py'
MAIN = 'torchtree/torchtree.py'
PAR = 'torchtree/core/parameter.py'
TL = 'torchtree/evolution/tree_likelihood.py'
FLEX = 'torchtree/evolution/tree_model_flexible.py'
COAL = 'torchtree/evolution/coalescent.py'
BM = 'torchtree/evolution/branch_model.py'
DIST = 'torchtree/distributions/distributions.py'
JOINT = 'torchtree/distributions/joint_distribution.py'

CORPUS = [
    Mut('c13-no-duplicate-check', UT, 'process_object', "if id_ in dic:…", 'pass', expect=[('C13.P', 'duplicate-check-dominates')]),
    Mut('c13-duplicate-check-after', UT, 'process_object', "obj = klass.from_json_safe(data, dic)",
        "obj = klass.from_json_safe(data, dic)\nif id_ in dic:\n    raise JSONParseError('dup')", nth=0,
        expect=[]),  # placeholder replaced below
    Mut('c13-construct-unsafe', UT, 'process_object', "obj = klass.from_json_safe(data, dic)", "obj = klass.from_json(data, dic)",
        expect=[('C13.P', 'constructs-through-from_json_safe')]),
    Mut('c13-no-registration', UT, 'process_object', "dic[id_] = obj", 'pass', expect=[('C13.P', 'registration-postdominates')]),
    Mut('c13-register-conditionally', UT, 'process_object', "dic[id_] = obj", "if id_ is not None:\n    dic[id_] = obj",
        expect=[('C13.P', 'registration-postdominates')]),
    Mut('c13-register-by-type', UT, 'process_object', "dic[id_] = obj", "dic[data['type']] = obj", expect=[('C13.P', 'registration-postdominates')]),
    Mut('c13-lookup-unguarded', UT, 'process_object', "except KeyError:…", "except ValueError:\n    raise JSONParseError('x') from None",
        mode='stmt', expect=[]),
    Mut('c13-accept-anything', UT, 'process_object', "else:\n    raise JSONParseError('Object is not valid (should be str or object)\\nProvided: {}'.format(data))",
        "else:\n    obj = data", expect=[]),
    Mut('c13-safe-keyerror-swallowed', SER, 'JSONSerializable.from_json_safe', "except KeyError as e:…", "except KeyError as e:\n    return None", expect=[]),
    Mut('c13-main-no-comments', MAIN, 'main', 'remove_comments(data)', 'pass', expect=[('C13.M', 'remove_comments-before-construction')]),
    Mut('c13-main-plates-late', MAIN, 'main', 'expand_plates(data)', 'pass', expect=[('C13.M', 'expand_plates-before-construction')]),
    Mut('c13-main-registry-per-element', MAIN, 'main', 'obj = process_objects(element, dic)', 'dic = {}\nobj = process_objects(element, dic)',
        expect=[('C13.M', 'registry-created-once')]),
    Mut('c13-main-swallow-all', MAIN, 'main', 'except JSONParseError as error:…', 'except Exception as error:\n    logging.error(error)', expect=[]),
    Mut('c13-fresh-registry', TL, 'TreeLikelihoodModel.from_json', "tree_model = process_object(data[TreeModel.tag], dic)",
        "tree_model = process_object(data[TreeModel.tag], {})", expect=[('C13.D', 'TreeLikelihoodModel')]),
    Mut('c13-copied-registry', COAL, 'process_data_coalesent', 'pass', 'pass', benign=True),
    Mut('c13-direct-from_json', BM, 'StrictClockModel.from_json', "rate = process_object(data['rate'], dic)",
        "rate = Parameter.from_json(data['rate'], dic)", expect=[('C13.W', 'StrictClockModel::rate')]),
    Mut('c13-silent-lookup', DIST, 'Distribution.from_json', "params[arg] = dic[data_dist[arg]]", "params[arg] = dic.get(data_dist[arg])",
        expect=[('C13.W', 'Distribution::dic.get')]),
    Mut('c13-flexible-unguarded-store', FLEX, 'FlexibleTimeTreeModel.from_json', "if id_ in dic:…", 'pass',
        expect=[('C13.W', 'FlexibleTimeTreeModel::self-registration')]),
    Mut('c13-factory-key-renamed', PAR, 'ViewParameter.json_factory', "return {'id': id_, 'type': 'ViewParameter', 'parameter': x, 'indices': indices}",
        "return {'id': id_, 'type': 'ViewParameter', 'x': x, 'indices': indices}", expect=[('C13.F', 'ViewParameter')]),
    Mut('c13-factory-type-typo', BM, 'SimpleClockModel.json_factory', "return {'id': id_, 'type': 'SimpleClockModel', TreeModel.tag: tree_model, 'rate': rate}",
        "return {'id': id_, 'type': 'SimpleClock', TreeModel.tag: tree_model, 'rate': rate}", expect=[('C13.F', 'SimpleClockModel::type=SimpleClock')]),
    Mut('c13-reader-needs-more', BM, 'SimpleClockModel.from_json', "rate = process_object(data['rate'], dic)",
        "rate = process_object(data['rates'], dic)", expect=[('C13.F', 'SimpleClockModel')]),
    # benign
    Mut('c13-benign-guard-form', UT, 'process_object', "if id_ in dic:…",
        "if id_ in dic:\n    message = f\"Object with ID `{id_}' already exists\"\n    raise JSONParseError(message)", benign=True),
    Mut('c13-benign-optional-key', BM, 'SimpleClockModel.from_json', "rate = process_object(data['rate'], dic)",
        "rate = process_object(data['rate'], dic)\nextra = data.get('note', None)", benign=True),
    Mut('c13-from-json-swallows-parse-error', 'torchtree/evolution/alignment.py', '', "        taxa = process_object(data['taxa'], dic)\n", "        try:\n            taxa = process_object(data['taxa'], dic)\n        except Exception:\n            taxa = None\n", expect=[('C13.W', 'Alignment::parse-errors-of-nested-specifications-propagate')], mode='text'),
    Mut('c13-benign-from-json-reraises', 'torchtree/evolution/alignment.py', '', "        taxa = process_object(data['taxa'], dic)\n", "        try:\n            taxa = process_object(data['taxa'], dic)\n        except KeyError as e:\n            raise ValueError('taxa') from e\n", benign=True, mode='text'),
    Mut('c13-registration-without-second-duplicate-test', 'torchtree/core/utils.py', '', "        if id_ in dic:\n            # an object nested in this one was registered with the same ID\n            raise JSONParseError(f\"Object with ID `{id_}' already exists\")\n        dic[id_] = obj", "        dic[id_] = obj",
        expect=[('C13.P', 'process_object::id-still-free-when-registered')], mode='text'),
    Mut('c13-plates-expanded-under-forward-enumeration', 'torchtree/core/utils.py', '', "        for i in reversed(range(len(obj))):\n            expand_plates(obj[i], obj, i)", "        for i, element in enumerate(obj):\n            expand_plates(element, obj, i)",
        expect=[('C13.M', 'expand_plates::no-list-surgery-under-forward-enumeration')], mode='text'),
    Mut('c13-benign-plates-reverse-range', 'torchtree/core/utils.py', '', "        for i in reversed(range(len(obj))):\n            expand_plates(obj[i], obj, i)", "        for i in range(len(obj) - 1, -1, -1):\n            expand_plates(obj[i], obj, i)", benign=True, mode='text'),
    Mut('c13-full-path-classes-registered-under-their-short-name', 'torchtree/core/utils.py', '', "    klass = getattr(module, class_name)\n    return klass\n", "    klass = getattr(module, class_name)\n    if isinstance(klass, type):\n        register_class(klass, class_name)\n    return klass\n",
        expect=[('C13.G', 'register_class-call')], mode='text'),
    Mut('c13-view-update-notifies-the-view-only', 'torchtree/core/parameter.py', 'ViewParameter', 'self.parameter.fire_parameter_changed()', 'self.fire_parameter_changed()', expect=[('C13.U', 'in-place::')]),
    Mut('c13-branch-lengths-share-the-heights-flag', 'torchtree/evolution/tree_model.py', '', "        if self.branch_lengths_need_update:\n            heights = self.node_heights\n", "        if self.heights_need_update or self.branch_lengths_need_update:\n            heights = self.node_heights\n",
        expect=[], benign=True, mode='text'),
]
for m in CORPUS:
    if m.id == 'c13-duplicate-check-after':
        m.expect = [('C13.P', 'duplicate-check-dominates')]
        m.old = "if id_ in dic:…"
        m.new = 'pass'
        m.id = 'c13-no-duplicate-check-2'
    if m.id == 'c13-lookup-unguarded':
        m.expect = [('C13.P', 'dangling-reference-is-parse-error')]
        m.mode = 'text'
        m.old = "        except KeyError:\n            raise JSONParseError("
        m.new = "        except ValueError:\n            raise JSONParseError("
    if m.id == 'c13-accept-anything':
        m.expect = [('C13.P', 'no-other-way-to-return')]
        m.mode = 'text'
        m.old = "    else:\n        raise JSONParseError(\n            \"Object is not valid"
        m.new = "    elif data is None:\n        raise JSONParseError(\n            \"Object is not valid"
    if m.id == 'c13-safe-keyerror-swallowed':
        m.expect = [('C13.P', 'from_json_safe::KeyError-becomes-parse-error')]
        m.mode = 'text'
        m.old = "        except KeyError as e:\n            type_ = cls.__name__"
        m.new = "        except KeyError as e:\n            return None\n            type_ = cls.__name__"
    if m.id == 'c13-main-swallow-all':
        m.expect = [('C13.M', 'only-parse-errors-swallowed')]
        m.mode = 'text'
        m.old = "    except JSONParseError as error:"
        m.new = "    except Exception as error:"
CORPUS = [m for m in CORPUS if m.id != 'c13-copied-registry']
CORPUS += [
    Mut('c13-callable-model-forwards-only-the-first-event', 'torchtree/core/model.py', 'CallableModel.handle_model_changed', 'self.lp_needs_update = True', 'if self.lp_needs_update:\n    return\nself.lp_needs_update = True',
        expect=[('C13.U', 'handlers::torchtree.core.model.CallableModel::handle_model_changed::forwards-every-event')]),
    Mut('c13-benign-callable-model-handlers-share-a-helper', 'torchtree/core/model.py', '', "    def handle_model_changed(self, model, obj, index) -> None:\n        self.lp_needs_update = True\n        self.fire_model_changed(self)\n",
        "    def handle_model_changed(self, model, obj, index) -> None:\n        self._invalidate()\n\n    def _invalidate(self) -> None:\n        self.lp_needs_update = True\n        self.fire_model_changed(self)\n", benign=True, mode='text'),
]
CORPUS += [
    Mut('c13-plate-objects-inserted-at-a-fixed-position', 'torchtree/core/utils.py', 'expand_plates', 'objects.append(clone)', 'objects.append(clone)\nparent.insert(idx, clone)',
        expect=[('C13.M', 'expand_plates::objects-of-a-plate-keep-the-order-of-its-range')]),
    Mut('c13-benign-plate-objects-inserted-at-a-moving-position', 'torchtree/core/utils.py', 'expand_plates', 'objects.append(clone)', 'objects.append(clone)\nparent.insert(idx + len(objects), clone)\ndel parent[idx + len(objects)]',
        benign=True),
    Mut('c13-factory-full-loses-its-fill-value', 'torchtree/core/parameter.py', '', "            parameter['full'] = kwargs['full']\n            parameter['tensor'] = kwargs['tensor']\n", "            parameter['full'] = kwargs['full']\n",
        mode='text', expect=[('C13.F', "Parameter::'full'-is-written-together-with-['tensor']")]),
]
CORPUS += [
    Mut('c13-json-default-differs-from-the-constructor-default', 'torchtree/evolution/tree_likelihood.py', 'TreeLikelihoodModel.from_json', "use_tip_states = data.get('use_tip_states', False)",
        "use_tip_states = data.get('use_tip_states', True)", expect=[('C13.F', 'TreeLikelihoodModel.from_json::default-of-use_tip_states')]),
]
CORPUS += [
    Mut('c13-ill-formed-elements-skipped', 'torchtree/torchtree.py', '', "            obj = process_objects(element, dic)\n            # now we update",
        "            try:\n                obj = process_objects(element, dic)\n            except JSONParseError as error:\n                logging.error(error)\n                continue\n            # now we update",
        mode='text', expect=[('C13.M', 'main::nothing-is-built-or-run-after-a-parse-error')]),
    Mut('c13-benign-parse-error-reported-with-the-file-name', 'torchtree/torchtree.py', '', "    except JSONParseError as error:\n        logging.error(error)\n",
        "    except JSONParseError as error:\n        logging.error(error)\n        logging.error('the specification was rejected')\n", mode='text', benign=True),
    Mut('c13-template-of-a-like-parameter-built-on-the-spot', 'torchtree/core/parameter.py', '', "    @classmethod\n    def from_json(cls, data: dict[str, Any], dic: dict[str, Identifiable]) -> Parameter:\n",
        "    @staticmethod\n    def _spot(data, dic):\n        return Parameter.from_json_safe(data, dic) if isinstance(data, dict) else process_object(data, dic)\n\n"
        "    @classmethod\n    def from_json(cls, data: dict[str, Any], dic: dict[str, Identifiable]) -> Parameter:\n", mode='text', expect=[('C13.W', 'core.parameter::Parameter._spot::')]),
]
CORPUS += [
    Mut('c13-clock-factory-hoisted-with-a-fixed-type', 'torchtree/evolution/branch_model.py', '', "    def _sample_shape(self) -> torch.Size:\n        return self._rates.shape[:-1]\n",
        "    def _sample_shape(self) -> torch.Size:\n        return self._rates.shape[:-1]\n\n    @staticmethod\n    def json_factory(id_: str, tree_model, rate):\n        return {'id': id_, 'type': 'SimpleClockModel', TreeModel.tag: tree_model, 'rate': rate}\n",
        mode='text', expect=[('C13.F', 'torchtree.evolution.branch_model.StrictClockModel::inherited-factory-type=SimpleClockModel')]),
    Mut('c13-rejected-proposal-restored-in-place', 'torchtree/inference/mcmc/operator.py', '', "            parameter.tensor = saved_tensor\n", "            parameter.tensor.copy_(saved_tensor)\n", mode='text',
        expect=[('C13.U', 'operators::')]),
]
CORPUS += [
    Mut('c13-benign-template-helper-through-process-object', 'torchtree/core/parameter.py', '', "    @classmethod\n    def from_json(cls, data: dict[str, Any], dic: dict[str, Identifiable]) -> Parameter:\n",
        "    @staticmethod\n    def _spot(data, dic):\n        return process_object(data, dic)\n\n"
        "    @classmethod\n    def from_json(cls, data: dict[str, Any], dic: dict[str, Identifiable]) -> Parameter:\n", mode='text', benign=True),
    Mut('c13-benign-clock-factory-hoisted-with-the-class-name', 'torchtree/evolution/branch_model.py', '', "    def _sample_shape(self) -> torch.Size:\n        return self._rates.shape[:-1]\n",
        "    def _sample_shape(self) -> torch.Size:\n        return self._rates.shape[:-1]\n\n    @classmethod\n    def make_spec(cls, id_: str, tree_model, rate):\n        return {'id': id_, 'type': cls.__name__, TreeModel.tag: tree_model, 'rate': rate}\n",
        mode='text', benign=True),
]
CORPUS += [
    Mut('c13-range-reference-resolved-by-its-last-id', 'torchtree/core/utils.py', '', "                for i in range(int(start), int(stop)):\n                    obj = dic[stem + str(i)]\n",
        "                obj = dic[stem + str(int(stop) - 1)]\n", mode='text', expect=[('C13.P', 'process_object::range-reference-looks-every-member-up')]),
    Mut('c13-repeated-objects-registered-once', 'torchtree/core/container.py', '', "            setattr(self, self._unique_id(obj), obj)\n",
        "            if not any(obj is other for other in self._parameters.values()):\n                setattr(self, self._unique_id(obj), obj)\n", mode='text',
        expect=[('C13.U', 'holders::Container.__init__::every-listed-object-is-registered')]),
]
