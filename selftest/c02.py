from sa.selftest import Mut

DT = 'torchtree/evolution/datatype.py'
SP = 'torchtree/evolution/site_pattern.py'
TL = 'torchtree/evolution/tree_likelihood.py'
TM = 'torchtree/evolution/tree_model.py'
AL = 'torchtree/evolution/alignment.py'

def T(id, file, old, new, expect=None, benign=False):
    return Mut(id, file, '', old, new, expect=expect, benign=benign, mode='text')

CORPUS = [
    T('c02-literal-misses-U', DT, "string not in 'ACGTUacgtu'", "string not in 'ACGTacgt'", expect=[('C02.M', 'NucleotideDataType::definite-symbol-literal'), ('C02.M', 'NucleotideDataType::all-128-symbols-agree')]),
    T('c02-literal-has-N', DT, "string not in 'ACGTUacgtu'", "string not in 'ACGTUNacgtun'", expect=[('C02.M', 'NucleotideDataType::definite-symbol-literal')]),
    T('c02-missing-not-ones', DT, "            return (1.0,) * 4", "            return (0.25,) * 4", expect=[('C02.M', 'NucleotideDataType::missing-is-all-ones')]),
    T('c02-aa-literal', DT, "'ACDEFGHIKLMNPQRSTVWYacdefghiklmnpqrstvwy'", "'ACDEFGHIKLMNPQRSTVWYBacdefghiklmnpqrstvwyb'", expect=[('C02.M', 'AminoAcidDataType::definite-symbol-literal')]),
    T('c02-no-clamp', SP, "                max=alignment.data_type.state_count,", "                max=alignment.data_type.state_count + 1,", expect=[('C02.M', 'compress_alignment_states')]),
    T('c02-two-columns', TL, "            torch.ones(mats[..., :tip_count, :, :, :].shape[:-1] + (1,)),\n        ),\n        -1,\n    )\n\n    for node, left, right in post_indexing:",
      "            torch.ones(mats[..., :tip_count, :, :, :].shape[:-1] + (2,)),\n        ),\n        -1,\n    )\n\n    for node, left, right in post_indexing:",
      expect=[('C02.M', 'calculate_treelikelihood_tip_states_discrete::unknown-state-column')]),
    T('c02-zeros-column', TL, "            torch.ones(mats[..., :tip_count, :, :, :].shape[:-1] + (1,)),\n        ),\n        -1,\n    )\n\n    scalers = []",
      "            torch.zeros(mats[..., :tip_count, :, :, :].shape[:-1] + (1,)),\n        ),\n        -1,\n    )\n\n    scalers = []",
      expect=[('C02.M', 'calculate_treelikelihood_tip_states_discrete_rescaled::unknown-state-column')]),
    T('c02-definite-by-upper-in-states', DT, "string not in 'ACGTUacgtu'", "string.upper() not in self.states", expect=[('C02.M', 'NucleotideDataType::definite-symbol-literal')]),
    T('c02-gather-row-transposed', TL, "            p_left = mat_tips[..., left, :, :, partials[left]]\n        else:\n            p_left = mats[..., left, :, :, :] @ partials[left]\n\n        if right < tip_count:\n            p_right = mat_tips[..., right, :, :, partials[right]]\n        else:\n            p_right = mats[..., right, :, :, :] @ partials[right]\n\n        partials[node] = p_left * p_right\n",
      "            p_left = mat_tips[..., left, :, partials[left], :].transpose(-1, -2)\n        else:\n            p_left = mats[..., left, :, :, :] @ partials[left]\n\n        if right < tip_count:\n            p_right = mat_tips[..., right, :, :, partials[right]]\n        else:\n            p_right = mats[..., right, :, :, :] @ partials[right]\n\n        partials[node] = p_left * p_right\n",
      expect=[('C02.M', 'calculate_treelikelihood_tip_states_discrete::unknown-state-column')]),
    T('c02-benign-definite-by-encoding', DT, "string not in 'ACGTUacgtu'", "self.encoding(string) >= 4", benign=True),
    T('c02-benign-literal-order', DT, "string not in 'ACGTUacgtu'", "string not in 'acgtuACGTU'", benign=True),
    T('c02-general-partial-ignores-flag', DT, "        if string in self.codes and (use_ambiguities or string in self._encoding):", "        if string in self.codes:", expect=[('C02.M', 'GeneralDataType::partial-with-ambiguities-off')]),
    T('c02-general-partial-flag-inverted', DT, "        if string in self.codes and (use_ambiguities or string in self._encoding):", "        if string in self.codes and (not use_ambiguities or string in self._encoding):", expect=[('C02.M', 'GeneralDataType::partial-with-ambiguities-off')]),
    T('c02-benign-general-partial-encoding-first', DT, "        if string in self.codes and (use_ambiguities or string in self._encoding):", "        if string in self._encoding or (use_ambiguities and string in self.codes):", benign=True),
    T('c02-polytomies-only-at-root', TM, "    tree.resolve_polytomies(update_bipartitions=True)\n", "    if len(tree.seed_node.child_nodes()) > 2:\n        tree.resolve_polytomies(update_bipartitions=True)\n", expect=[('C02.N', 'parse_tree::polytomies-resolved')]),
    T('c02-benign-polytomies-no-bipartitions', TM, "    tree.resolve_polytomies(update_bipartitions=True)\n", "    tree.resolve_polytomies(update_bipartitions=False)\n    tree.update_bipartitions()\n", benign=True),
    T('c02-root-branch-one-sided', TM, "            blens[child_1.index] += child_2.edge_length\n            blens[child_2.index] += child_1.edge_length\n", "            blens[child_1.index] += child_2.edge_length\n", expect=[('C02.N', 'UnRootedTreeModel.from_json::both-root-branches')]),
    T('c02-root-branch-self-added', TM, "            blens[child_2.index] += child_1.edge_length\n", "            blens[child_2.index] += child_2.edge_length\n", expect=[('C02.N', 'UnRootedTreeModel.from_json::both-root-branches')]),
    T('c02-leaf-index-by-enumeration-order', TM, "    taxa_dict = {taxon.label: idx for idx, taxon in enumerate(tree.taxon_namespace)}", "    taxa_dict = {node.taxon.label: idx for idx, node in enumerate(tree.leaf_node_iter())}", expect=[('C02.N', 'setup_indexes::leaf-index')]),
    T('c02-sequences-not-sorted-by-name', AL, "        sequences.sort(key=lambda x: indexing[x.taxon])\n", "        pass\n", expect=[('C02.N', 'Alignment.__init__::sequences-sorted')]),
    T('c02-tips-in-pattern-order', SP, "    for taxon in alignment.taxa:\n        partials.append(\n            torch.tensor(", "    for taxon_id in patterns:\n        partials.append(\n            torch.tensor(", expect=[('C02.N', 'compress_alignment::tips-emitted')]),
    Mut('c02-memo-ignores-use-ambiguities', SP, '', "    def compute_tips_partials(self, use_ambiguities=False):\n        return compress_alignment(self.alignment, self.indices, use_ambiguities)",
        "    def compute_tips_partials(self, use_ambiguities=False):\n        if self._cache is None:\n            self._cache = compress_alignment(self.alignment, self.indices, use_ambiguities)\n        return self._cache", expect=[('C02.N', 'memo::')], mode='text',
        more=[dict(scope='', old="        self.indices = indices\n", new="        self.indices = indices\n        self._cache = None\n", mode='text')]),
    Mut('c02-scalers-escape-the-pattern-weights', 'torchtree/evolution/tree_likelihood.py', '', "    return torch.sum(\n        (\n            torch.log(freqs @ torch.sum(props * partials[post_indexing[-1][0]], dim=-3))\n            + torch.cat(scalers, -2).log().sum(dim=-2).unsqueeze(-2)\n        )\n        * weights,\n        dim=-1,\n    )\n", "    site_log_p = torch.log(freqs @ torch.sum(props * partials[post_indexing[-1][0]], dim=-3))\n    log_scalers = torch.cat(scalers, -2).log().sum(dim=-2).unsqueeze(-2)\n    return torch.sum(site_log_p * weights + log_scalers, dim=-1)\n", expect=[('C02.W', 'weights-multiply-the-whole-site-term')], mode='text', nth=1),
    Mut('c02-benign-return-through-locals', 'torchtree/evolution/tree_likelihood.py', '', "    return torch.sum(\n        (\n            torch.log(freqs @ torch.sum(props * partials[post_indexing[-1][0]], dim=-3))\n            + torch.cat(scalers, -2).log().sum(dim=-2).unsqueeze(-2)\n        )\n        * weights,\n        dim=-1,\n    )\n", "    site_log_p = torch.log(freqs @ torch.sum(props * partials[post_indexing[-1][0]], dim=-3))\n    log_scalers = torch.cat(scalers, -2).log().sum(dim=-2).unsqueeze(-2)\n    return torch.sum((site_log_p + log_scalers) * weights, dim=-1)\n", benign=True, mode='text', nth=1),
    T('c02-heights-from-the-first-child-only', TM, "            heights[node.index] = max(\n                [\n                    heights[c.index] + max(eps, c.edge_length)\n                    for c in node.child_node_iter()\n                ]\n            )\n",
      "            child = next(node.child_node_iter())\n            heights[node.index] = heights[child.index] + max(eps, child.edge_length)\n",
      expect=[('C02.N', 'heights_from_branch_lengths::children-selected-one-at-a-time-are-all-selected')]),
    T('c02-heights-from-child-zero', TM, "            heights[node.index] = max(\n                [\n                    heights[c.index] + max(eps, c.edge_length)\n                    for c in node.child_node_iter()\n                ]\n            )\n",
      "            kids = node.child_nodes()\n            heights[node.index] = heights[kids[0].index] + max(eps, kids[0].edge_length)\n",
      expect=[('C02.N', 'heights_from_branch_lengths::children-selected-one-at-a-time-are-all-selected')]),
    T('c02-benign-heights-from-both-children-by-index', TM, "            heights[node.index] = max(\n                [\n                    heights[c.index] + max(eps, c.edge_length)\n                    for c in node.child_node_iter()\n                ]\n            )\n",
      "            kids = node.child_nodes()\n            heights[node.index] = max(\n                heights[kids[0].index] + max(eps, kids[0].edge_length),\n                heights[kids[1].index] + max(eps, kids[1].edge_length),\n            )\n", benign=True),
    T('c02-patterns-keyed-by-the-encoded-column', SP, "        count_dict = Counter(list(zip(*sequences)))\n", "        count_dict = Counter(tuple(map(alignment.data_type.encoding, column)) for column in zip(*sequences))\n",
      expect=[('C02.N', 'compress::patterns-are-the-distinct-raw-columns')]),
    T('c02-patterns-counted-incrementally-by-a-folded-key', SP, "        count_dict = Counter(list(zip(*sequences)))\n", "        count_dict = Counter()\n        for column in zip(*sequences):\n            count_dict[tuple(c.upper() for c in column)] += 1\n",
      expect=[('C02.N', 'compress::patterns-are-the-distinct-raw-columns')]),
    T('c02-benign-patterns-counted-incrementally', SP, "        count_dict = Counter(list(zip(*sequences)))\n", "        count_dict = Counter()\n        for column in zip(*sequences):\n            count_dict[column] += 1\n", benign=True),
    T('c02-leaf-labels-read-as-positions', TM, "    tree.resolve_polytomies(update_bipartitions=True)\n", "    for taxon in tree.taxon_namespace:\n        if taxon.label.isdigit():\n            taxon.label = taxa[int(taxon.label) - 1].id\n    tree.resolve_polytomies(update_bipartitions=True)\n",
      expect=[('C02.N', 'leaf-labels-are-taxon-names-never-positions')]),
]
CORPUS += [
    T('c02-kept-lengths-floored', TM, "                float(node.edge_length)\n", "                max(1.0e-6, float(node.edge_length))\n", expect=[('C02.N', 'UnRootedTreeModel.from_json::kept-lengths-are-the-newick-lengths')]),
    T('c02-short-sequences-padded-to-the-first-listed-length', 'torchtree/evolution/alignment.py', "        indexing = {taxon.id: idx for idx, taxon in enumerate(taxa)}\n",
      "        for idx, sequence in enumerate(sequences):\n            if len(sequence.sequence) < self._sequence_size:\n                sequences[idx] = Sequence(sequence.taxon, sequence.sequence.ljust(self._sequence_size, '-'))\n        indexing = {taxon.id: idx for idx, taxon in enumerate(taxa)}\n",
      expect=[('C02.N', 'Alignment.__init__::stored-sequences-do-not-depend-on-list-order')]),
    T('c02-benign-short-sequences-padded-to-the-longest', 'torchtree/evolution/alignment.py', "        indexing = {taxon.id: idx for idx, taxon in enumerate(taxa)}\n",
      "        longest = max(len(s.sequence) for s in sequences)\n        for idx, sequence in enumerate(sequences):\n            if len(sequence.sequence) < longest:\n                sequences[idx] = Sequence(sequence.taxon, sequence.sequence.ljust(longest, '-'))\n        indexing = {taxon.id: idx for idx, taxon in enumerate(taxa)}\n",
      benign=True),
    Mut('c02-one-scaler-per-rate-category', 'torchtree/evolution/tree_likelihood.py', 'calculate_treelikelihood_discrete_rescaled', 'scaler, _ = torch.max(…',
        'scaler, _ = torch.max(partial.view(*partial.shape[:-2], -1, *partial.shape[-1:]), -2, keepdim=True)', expect=[('C02.W', 'scalers::calculate_treelikelihood_discrete_rescaled::one-scaler-per-site-over-category-and-state')]),
]
CORPUS += [
    T('c02-slice-rebuilt-from-its-indices-triple', SP, "string_to_list_index(index_str) for index_str in indices.split(',')",
      "(lambda s: slice(*s.indices(alignment.sequence_size)) if isinstance(s, slice) else s)(string_to_list_index(index_str)) for index_str in indices.split(',')",
      expect=[('C02.N', 'evolution::column-selections-resolved-by-python-slicing')]),
    T('c02-slice-bounds-into-range-by-hand', SP, "                sequences_new[idx] += sequence[index]\n",
      "                if isinstance(index, slice):\n                    sequences_new[idx] += ''.join(sequence[i] for i in range(index.start or 0, index.stop or len(sequence), index.step or 1))\n"
      "                else:\n                    sequences_new[idx] += sequence[index]\n",
      expect=[('C02.N', 'evolution::column-selections-resolved-by-python-slicing')]),
    T('c02-benign-slice-resolved-through-indices-and-range', SP, "                sequences_new[idx] += sequence[index]\n",
      "                if isinstance(index, slice):\n                    sequences_new[idx] += ''.join(sequence[i] for i in range(*index.indices(len(sequence))))\n"
      "                else:\n                    sequences_new[idx] += sequence[index]\n", benign=True),
    T('c02-tree-ladderized-before-indexing', TM, "    tree.resolve_polytomies(update_bipartitions=True)\n    use_postorder_indices",
      "    tree.resolve_polytomies(update_bipartitions=True)\n    tree.ladderize(ascending=True)\n    use_postorder_indices", expect=[('C02.N', 'evolution::the-tree-indexed-is-the-tree-written')]),
    T('c02-read-tree-rerooted-at-midpoint', 'torchtree/evolution/io.py', "    tree.resolve_polytomies(update_bipartitions=True)\n\n    setup_indexes(tree)",
      "    tree.resolve_polytomies(update_bipartitions=True)\n    tree.reroot_at_midpoint(update_bipartitions=True)\n\n    setup_indexes(tree)", expect=[('C02.N', 'evolution::the-tree-indexed-is-the-tree-written')]),
    T('c02-benign-bipartitions-encoded-before-indexing', TM, "    tree.resolve_polytomies(update_bipartitions=True)\n    use_postorder_indices",
      "    tree.resolve_polytomies(update_bipartitions=False)\n    tree.encode_bipartitions()\n    use_postorder_indices", benign=True),
    T('c02-root-recognised-by-missing-length', TM, "lambda node: node.parent_node is not None", "lambda node: node.edge_length is not None",
      expect=[('C02.N', 'evolution::branches-are-the-nodes-with-a-parent')]),
    T('c02-benign-root-recognised-as-seed-node', TM, "lambda node: node.parent_node is not None", "lambda node: node is not tree.seed_node", benign=True),
]
CORPUS += [
    T('c02-benign-patterns-built-by-a-comprehension', SP, "    patterns = dict(zip(taxa, patterns_list))\n", "    patterns = {name: row for name, row in zip(taxa, patterns_list)}\n", benign=True),
    T('c02-benign-patterns-filled-in-a-loop', SP, "    patterns = dict(zip(taxa, patterns_list))\n", "    patterns = {}\n    for name, row in zip(taxa, patterns_list):\n        patterns[name] = row\n", benign=True),
    T('c02-patterns-keyed-by-position', SP, "    patterns = dict(zip(taxa, patterns_list))\n", "    patterns = dict(zip(sorted(taxa), patterns_list))\n", expect=[('C02.N', 'compress::patterns-keyed-by-taxon-name')]),
]
CORPUS += [
    T('c02-single-sites-as-one-element-slices', SP, "                sequences_new[idx] += sequence[index]\n",
      "                sequences_new[idx] += ''.join(sequence[index if isinstance(index, slice) else slice(index, index + 1)])\n", expect=[('C02.N', 'evolution::column-selections-resolved-by-python-slicing')]),
    T('c02-newick-rooting-left-to-the-string', TM, "            data=data['newick'],\n            schema='newick',\n            preserve_underscores=True,\n            rooting='force-rooted',",
      "            data=data['newick'],\n            schema='newick',\n            preserve_underscores=True,\n            rooting='default-rooted',", expect=[('C02.N', 'evolution::newick-read-as-a-rooted-tree')]),
    T('c02-benign-newick-options-shared-in-a-dictionary', TM, "        tree = Tree.get(\n            data=data['newick'],\n            schema='newick',\n            preserve_underscores=True,\n            rooting='force-rooted',\n            taxon_namespace=taxon_namespace,\n        )",
      "        opts = dict(schema='newick', preserve_underscores=True, rooting='force-rooted', taxon_namespace=taxon_namespace)\n        tree = Tree.get(data=data['newick'], **opts)", benign=True),
]
CORPUS += [
    T('c02-stop-symbol-stripped-line-by-line', AL, "                sequences[taxon] += line\n", "                sequences[taxon] += line.rstrip('*')\n", expect=[('C02.N', 'evolution::sequence-symbols-are-kept-as-read')]),
    T('c02-benign-trailing-white-space-stripped', AL, "                sequences[taxon] += line\n", "                sequences[taxon] += line.rstrip()\n", benign=True),
]
CORPUS += [
    T('c02-kernel-pops-the-root-off-the-tree-models-list', TL, "    scalers = []\n    for node, left, right in post_indexing:\n        partial = (mats[..., left, :, :, :] @ partials[left]) * (",
      "    scalers = []\n    post_indexing.sort(key=lambda row: row[0])\n    for node, left, right in post_indexing:\n        partial = (mats[..., left, :, :, :] @ partials[left]) * (",
      expect=[('C02.W', 'calculate_treelikelihood_discrete_rescaled::the-traversal-it-is-given-is-left-as-it-is')]),
]
CORPUS += [
    T('c02-missing-data-test-forgets-the-lower-case-symbols', DT, "        if not use_ambiguities and string not in 'ACGTUacgtu':", "        if not use_ambiguities and string not in NucleotideDataType.NUCLEOTIDES[:5]:",
      expect=[('C02.M', 'NucleotideDataType::all-128-symbols-agree')]),
    T('c02-benign-missing-data-test-from-two-literals', DT, "        if not use_ambiguities and string not in 'ACGTUacgtu':", "        if not use_ambiguities and string not in ('ACGTU' + 'acgtu')[:10]:", benign=True),
]
CORPUS += [
    Mut('c02-sampling-times-read-off-the-leaves-of-the-tree', 'torchtree/evolution/tree_model.py', '', "        self.sampling_times = torch.tensor(leaf_heights)\n",
        "        self.sampling_times = torch.tensor([max_date - leaf.date for leaf in self.tree.leaf_node_iter()])\n", mode='text',
        expect=[('C02.N', 'evolution.tree_model::TimeTreeModel.update_leaf_heights::sampling-times-in-taxon-order')]),
    Mut('c02-benign-sampling-times-from-a-comprehension-over-the-taxa', 'torchtree/evolution/tree_model.py', '', "        self.sampling_times = torch.tensor(leaf_heights)\n",
        "        self.sampling_times = torch.tensor([h for h, _ in zip(leaf_heights, self._taxa)], dtype=torch.get_default_dtype())\n", mode='text', benign=True),
]
