"""C10 (fixed): CompoundGammaDirichletPrior with batched hyperparameters: (a) sums over branches dropped the last axis while the hyperparameters keep it, so tree and
hyperparameters batched together gave an [S, S] outer combination; (b) _sample_shape counted the tree only, so with only a hyperparameter batched the joint pooled all samples.
Run: PYTHONPATH=<tree> /venv/bin/python findings/c10_compound_gamma_dirichlet_batched_hyperparameters.py   (exit 1 = defect present)"""
import torch, sys
from torchtree import Parameter
from torchtree.distributions.tree_prior import CompoundGammaDirichletPrior
from torchtree.evolution.tree_model import UnRootedTreeModel
from torchtree.distributions.joint_distribution import JointDistributionModel
def tree(bl):
    taxa = {'id': 'taxa', 'type': 'Taxa', 'taxa': [{'id': n, 'type': 'Taxon'} for n in 'ABCD']}
    return UnRootedTreeModel.from_json({'id':'t','type':'UnRootedTreeModel','newick':'((A:0.1,B:0.2):0.05,C:0.3,D:0.4);','taxa':taxa,
        'branch_lengths':{'id':'bl','type':'Parameter','tensor':bl}}, {})
S=3
base=[0.1,0.2,0.3,0.4,0.05]
bls=[[b*(1+i) for b in base] for i in range(S)]
def prior(bl, alpha, c=1.5, shape=2.0, rate=3.0):
    return CompoundGammaDirichletPrior('p', tree(bl), Parameter('alpha', torch.tensor(alpha)), Parameter('c', torch.tensor([c])), Parameter('shape', torch.tensor([shape])), Parameter('rate', torch.tensor([rate])))
alphas=[[1.0],[2.0],[0.5]]
single=[prior(bls[i], alphas[i])().item() for i in range(S)]
bad=0
for name,(bl,al) in {'tree batched, alpha unbatched':(bls,[1.0]), 'tree and alpha batched':(bls,alphas), 'alpha batched only':(base,alphas)}.items():
    try:
        p=prior(bl,al); v=p(); j=JointDistributionModel('j',[p])()
        want=[prior(bl[i] if bl is bls else bl, al[i] if al is alphas else al)().item() for i in range(S)]
        ok = j.numel()==S and torch.allclose(j.flatten(), torch.tensor(want), atol=1e-5)
        bad+= not ok
        print(name, 'value', tuple(v.shape), 'joint', tuple(j.shape), [round(t,4) for t in j.flatten().tolist()], 'expected', [round(t,4) for t in want], '' if ok else '  <-- wrong')
    except Exception as e:
        print(name,'raises',type(e).__name__,str(e)[:70])
sys.exit(1 if bad else 0)
