"""C19 (known): `advi -t tree --poisson` without --coalescent/--birth-death: create_time_tree_prior returns an unassigned local.
Run: PYTHONPATH=/repo /venv/bin/python findings/c19_known_poisson_without_tree_prior.py   (exit 1 = defect present)"""
import io, sys, contextlib
from torchtree.cli.cli import main
sys.argv = ['torchtree-cli', 'advi', '-t', '/repo/data/fluA.tree', '--poisson']
try:
    with contextlib.redirect_stdout(io.StringIO()):
        main()
except UnboundLocalError as e:
    print('DEFECT: CLI crashed:', e); sys.exit(1)
print('OK'); sys.exit(0)
