"""C09 (known): a rho-sampling event at an *inner* epoch boundary with tips sampled exactly at it.  PiecewiseConstantBirthDeath.log_prob decides whether a tip is
rho-sampled with rho.gather(-1, indices_y), where indices_y is the epoch the tip falls in (searchsorted right=True): for a tip on the boundary t_k that is epoch k, whose rho
entry belongs to the *next* boundary t_{k+1}; the entry of t_k is rho[k-1].  Only tips at the present (clamped to the last entry) read the right value.  The reference is a
Runge-Kutta integration of the birth-death master equations along the tree (written by an independent sub-agent, copied verbatim below).
Run: PYTHONPATH=<tree> /venv/bin/python findings/c09_known_inner_rho_event_with_tips.py   (exit 1 = defect present)"""
import math, sys
import torch
from torchtree.evolution.bdsk import PiecewiseConstantBirthDeath


def T64(v):
    return torch.tensor(v, dtype=torch.float64)


def ode_density(
    tips, internals, T, bounds, lam, mu, psi, rho, survival=True, r=None, hL=0.02
):
    """log density from the master equations, integrated backwards in time
    (tau = height above the present) with RK4.

        dp0/dtau  = mu - (lam+mu+psi) p0 + lam p0^2   p0(0^-)=1, thinned by (1-rho)
        dPhi/dtau = -(lam+mu+psi) + 2 lam p0           (log of the lineage density)

    a branch from height a to b contributes Phi(b)-Phi(a); an internal node
    log(lam); a psi-sampled tip log(psi (r+(1-r)p0)); a rho-sampled tip log(rho);
    a lineage crossing a sampling event log(1-rho).

    bounds: 0=t_0<...<t_m=T forward times.
    """
    m = len(lam)
    bh = [T - bounds[i + 1] for i in range(m)]  # height of the event rho_i
    bh[m - 1] = 0.0
    events = sorted(set(tips) | set(internals) | set(bh) | {T})

    def epoch_of(fw):
        for i in range(m):
            if bounds[i] <= fw < bounds[i + 1]:
                return i
        return m - 1

    def thin(h, p):
        for i in range(m):
            if bh[i] == h:
                p = p * (1.0 - rho[i])
        return p

    p = thin(0.0, 1.0)
    phi = 0.0
    P_below = {0.0: 1.0}
    PHI = {0.0: 0.0}
    for k in range(1, len(events)):
        lo, hi = events[k - 1], events[k]
        e = epoch_of(T - 0.5 * (lo + hi))
        l_, m_, s_ = lam[e], mu[e], psi[e]
        tot = l_ + m_ + s_
        n = max(4, int(math.ceil((hi - lo) * (tot + l_) / hL)))
        h = (hi - lo) / n
        for _ in range(n):
            k1 = m_ - tot * p + l_ * p * p
            f1 = -tot + 2.0 * l_ * p
            q = p + 0.5 * h * k1
            k2 = m_ - tot * q + l_ * q * q
            f2 = -tot + 2.0 * l_ * q
            q = p + 0.5 * h * k2
            k3 = m_ - tot * q + l_ * q * q
            f3 = -tot + 2.0 * l_ * q
            q = p + h * k3
            k4 = m_ - tot * q + l_ * q * q
            f4 = -tot + 2.0 * l_ * q
            p += h / 6.0 * (k1 + 2.0 * k2 + 2.0 * k3 + k4)
            phi += h / 6.0 * (f1 + 2.0 * f2 + 2.0 * f3 + f4)
        P_below[hi] = p
        if hi < T:
            p = thin(hi, p)
        PHI[hi] = phi

    lp = PHI[T]
    for h in internals:
        lp += PHI[h] + math.log(lam[epoch_of(T - h)])
    for h in tips:
        lp -= PHI[h]
        rho_here = 0.0
        for i in range(m):
            if bh[i] == h and rho[i] > 0.0:
                rho_here = rho[i]
        if rho_here > 0.0:
            lp += math.log(rho_here)
        else:
            e = epoch_of(T - h)
            fac = psi[e]
            if r is not None:
                fac *= r[e] + (1.0 - r[e]) * P_below[h]
            lp += math.log(fac)
    for i in range(m - 1):
        if rho[i] > 0.0:
            b = bh[i]
            crossing = (
                1 + sum(1 for h in internals if h > b) - sum(1 for h in tips if h >= b)
            )
            lp += crossing * math.log(1.0 - rho[i])
    if survival:
        lp -= math.log(1.0 - P_below[T])
    if r is not None:
        lp += (len(tips) - 1) * math.log(2.0)
    return lp




T = 6.0
lam, mu, psi = [1.5, 1.2], [0.4, 0.5], [0.3, 0.2]
bounds = [0.0, 3.5, 6.0]          # forward times; the inner boundary is at height 2.5
internals = [3.0, 4.0, 5.0]
bad = 0
for name, tips, rho in (('tips at the present only, rho at the present', [0.0, 0.0, 1.0, 2.0], [0.0, 0.6]),
                        ('two tips exactly on the inner rho event', [0.0, 2.5, 2.5, 1.0], [0.4, 0.6]),
                        ('inner rho event, tips on it, no rho at the present', [0.0, 2.5, 2.5, 1.0], [0.4, 0.0])):
    ref = ode_density(tips, internals, T, bounds, lam, mu, psi, rho, survival=True)
    d = PiecewiseConstantBirthDeath(T64(lam), T64(mu), T64(psi), rho=T64(rho), origin=T64([T]), times=T64(bounds[:-1]), survival=True)
    try:
        got = float(d.log_prob(T64(tips + internals)))
        ok = abs(got - ref) < 1e-4
        print(f"{name}: library {got:.6f} master equations {ref:.6f}{'' if ok else '   <-- differ'}")
    except Exception as e:
        ok = False
        print(f"{name}: raises {type(e).__name__}: {str(e)[:80]}")
    bad += not ok
print('DEFECT present' if bad else 'OK')
sys.exit(1 if bad else 0)
