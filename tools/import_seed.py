#!/venv/bin/python
"""Import a seeded change produced by a sub-agent: verify it (demo passes clean / fails patched),
run the property's check against it, store under /verif/seeded/<id>/ with meta.json.

usage: import_seed.py <seed-dir> <PROP> <id> [--suite]"""
import json, os, shutil, subprocess, sys, time
HERE = os.path.dirname(os.path.dirname(os.path.abspath(__file__)))
REPO = '/repo'

def sh(cmd, timeout=1800):
    return subprocess.run(cmd, shell=True, capture_output=True, text=True, timeout=timeout)

seed, prop, sid = sys.argv[1], sys.argv[2], sys.argv[3]
suite = '--suite' in sys.argv
if sh(f"git -C {REPO} status --porcelain").stdout.strip():
    sys.exit('repo not clean')
patch = os.path.join(seed, 'patch.diff')
demo = os.path.join(seed, 'demo.py')
meta = {'id': sid, 'property': prop, 'source': 'independent sub-agent given only the property text and a scratch worktree',
        'base_commit': sh(f"git -C {REPO} rev-parse --short HEAD").stdout.strip(), 'ran': []}
r = sh(f"cd {seed} && PYTHONPATH={REPO} /venv/bin/python demo.py")
meta['demo_on_clean_tree_exit'] = r.returncode
meta['ran'].append('demo.py on clean /repo')
a = sh(f"git -C {REPO} apply {patch}")
if a.returncode:
    sys.exit('patch does not apply: ' + a.stderr[:200])
try:
    r = sh(f"cd {seed} && PYTHONPATH={REPO} /venv/bin/python demo.py")
    meta['demo_with_change_exit'] = r.returncode
    meta['demo_with_change_tail'] = (r.stdout + r.stderr)[-400:]
    meta['ran'].append('demo.py with patch applied to /repo')
    if suite:
        t = sh(f"cd {REPO} && /venv/bin/python -m pytest -q -p no:cacheprovider --timeout=900 -n 8 2>&1 | tail -1")
        meta['suite_with_change'] = t.stdout.strip()
        meta['ran'].append('full test suite with patch applied')
    c = sh(f"/venv/bin/python {HERE}/check.py {prop} --no-evidence")
    meta['check_exit_with_change'] = c.returncode
    meta['check_reports'] = [l.strip()[:300] for l in c.stdout.splitlines() if l.startswith('  ') or 'ANALYSIS' in l][:5]
    meta['detected'] = c.returncode == 1
    meta['ran'].append(f"check.py {prop} with patch applied")
finally:
    sh(f"git -C {REPO} apply -R {patch}")
notes = os.path.join(seed, 'notes.md')
meta['needs_to_manifest'] = open(notes).read().strip()[:1500] if os.path.exists(notes) else ''
dst = os.path.join(HERE, 'seeded', sid)
os.makedirs(dst, exist_ok=True)
for f in ('patch.diff', 'demo.py', 'notes.md'):
    if os.path.exists(os.path.join(seed, f)):
        shutil.copy(os.path.join(seed, f), os.path.join(dst, f))
json.dump(meta, open(os.path.join(dst, 'meta.json'), 'w'), indent=1)
print(sid, 'demo clean/patched:', meta['demo_on_clean_tree_exit'], meta.get('demo_with_change_exit'), 'suite:', meta.get('suite_with_change'),
      'check exit:', meta['check_exit_with_change'], 'detected' if meta['detected'] else 'MISSED')
