"""C17 — a checkpoint restores the whole run state.

Writer/reader cross-check of every state_dict / load_state_dict pair (resolved along the
MRO, `_`-split halves joined), coverage of loop-carried run state, encoder/decoder table
agreement, and the JSON-unsafe foreign state fact (torch optimiser state is keyed by ints).
"""
from __future__ import annotations

import ast
from typing import Dict, List, Optional, Set, Tuple

from sa.classes import ClassInfo
from sa.loader import AnalysisError, Unsupported, dotted_name, norm_text
from sa.members import self_attr
from sa.report import where

WRITERS = ('state_dict', '_state_dict')
READERS = ('load_state_dict', '_load_state_dict')
MUTATORS = {'append', 'appendleft', 'popleft', 'pop', 'extend', 'add', 'update', 'clear', 'remove', 'insert', 'discard'}
ENTRY_METHODS = ('run', '_run', '_run_closure', 'step', '_step', 'tune', 'learn', 'accept', 'reject', '__call__')


class Key:
    def __init__(self, conds, value, module, node):
        self.conds = conds  # list of condition tuples under which it is written/read ([] = unconditional)
        self.value = value
        self.module = module
        self.node = node


def cond_text(test: ast.AST) -> str:
    return ast.unparse(test)


# ---------------------------------------------------------------------------
# writer side
# ---------------------------------------------------------------------------

def writer_keys(ctx, cls: ClassInfo, name: str, depth=0, _stack=None) -> Dict[str, List[Key]]:
    """keys of the dict returned by cls.<name>() (resolved), joined with the dicts it merges."""
    r = cls.resolve(name)
    if r is None:
        raise Unsupported(cls.node, f"{cls.name}.{name} does not resolve")
    defcls, fn = r
    if any((dotted_name(d) or '').endswith('abstractmethod') for d in fn.decorator_list):
        raise Unsupported(fn, f"{cls.name}.{name} resolves to an abstract stub")
    _stack = _stack or []
    if (cls.qualname, name) in _stack or depth > 4:
        raise Unsupported(fn, 'recursive state writer')
    _stack = _stack + [(cls.qualname, name)]
    dicts: Dict[str, Dict[str, List[Key]]] = {}
    returned: Optional[Dict[str, List[Key]]] = None
    module = defcls.module

    def lit_keys(d: ast.Dict, conds) -> Dict[str, List[Key]]:
        out: Dict[str, List[Key]] = {}
        for k, v in zip(d.keys, d.values):
            if k is None:
                sub = value_dict(v, conds)
                for kk, vv in sub.items():
                    out.setdefault(kk, []).extend(vv)
                continue
            if not (isinstance(k, ast.Constant) and isinstance(k.value, str)):
                raise Unsupported(k, 'computed key in state dict')
            out.setdefault(k.value, []).append(Key(list(conds), v, module, k))
        return out

    def value_dict(v: ast.AST, conds) -> Dict[str, List[Key]]:
        if isinstance(v, ast.Dict):
            return lit_keys(v, conds)
        if isinstance(v, ast.Name) and v.id in dicts:
            return {k: [Key(list(conds) + kk.conds, kk.value, kk.module, kk.node) for kk in ks] for k, ks in dicts[v.id].items()}
        if isinstance(v, ast.Call) and self_attr(v.func) in WRITERS + ('state_dict',):
            sub = writer_keys(ctx, cls, self_attr(v.func), depth + 1, _stack)
            return {k: [Key(list(conds) + kk.conds, kk.value, kk.module, kk.node) for kk in ks] for k, ks in sub.items()}
        raise Unsupported(v, f"state merged from {ast.unparse(v)[:40]} not understood")

    def walk(stmts, conds):
        nonlocal returned
        for st in stmts:
            if isinstance(st, ast.If):
                walk(st.body, conds + [('if', cond_text(st.test))])
                walk(st.orelse, conds + [('ifnot', cond_text(st.test))])
            elif isinstance(st, (ast.For, ast.While, ast.With, ast.Try)):
                for field in ('body', 'orelse', 'finalbody'):
                    walk(getattr(st, field, []) or [], conds + [('loop', '?')] if isinstance(st, (ast.For, ast.While)) else conds)
                for h in getattr(st, 'handlers', []) or []:
                    walk(h.body, conds + [('except', '?')])
            elif isinstance(st, (ast.Assign, ast.AnnAssign)):
                targets = st.targets if isinstance(st, ast.Assign) else [st.target]
                val = st.value
                for t in targets:
                    if isinstance(t, ast.Name) and val is not None:
                        try:
                            dicts[t.id] = value_dict(val, conds)
                        except Unsupported:
                            if isinstance(val, (ast.Dict,)):
                                raise
                            dicts.pop(t.id, None)
                    elif isinstance(t, ast.Subscript) and isinstance(t.value, ast.Name) and t.value.id in dicts:
                        if not (isinstance(t.slice, ast.Constant) and isinstance(t.slice.value, str)):
                            raise Unsupported(t, 'computed key in state dict store')
                        dicts[t.value.id].setdefault(t.slice.value, []).append(Key(list(conds), val, module, t))
            elif isinstance(st, ast.Expr) and isinstance(st.value, ast.Call):
                c = st.value
                if isinstance(c.func, ast.Attribute) and c.func.attr == 'update' and isinstance(c.func.value, ast.Name) \
                        and c.func.value.id in dicts and c.args:
                    sub = value_dict(c.args[0], conds)
                    for k, ks in sub.items():
                        dicts[c.func.value.id].setdefault(k, []).extend(ks)
            elif isinstance(st, ast.Return):
                if st.value is None:
                    raise Unsupported(st, 'state writer returns nothing')
                got = value_dict(st.value, conds)
                if returned is None:
                    returned = got
                else:
                    for k, ks in got.items():
                        returned.setdefault(k, []).extend(ks)

    walk(fn.body, [])
    if returned is None:
        raise Unsupported(fn, 'state writer has no understood return')
    return returned


# ---------------------------------------------------------------------------
# reader side
# ---------------------------------------------------------------------------

class Reads:
    def __init__(self):
        self.keys: Dict[str, List[Key]] = {}
        self.optional: Set[str] = set()
        self.nested: Dict[str, Dict[str, List[Key]]] = {}  # key -> element keys read
        self.delegated: Dict[str, List[str]] = {}  # key -> receivers of .load_state_dict(state[key])
        self.whole_delegated: List[str] = []


def reader_keys(ctx, cls: ClassInfo, name: str, depth=0) -> Reads:
    r = cls.resolve(name)
    if r is None:
        raise Unsupported(cls.node, f"{cls.name}.{name} does not resolve")
    defcls, fn = r
    if any((dotted_name(d) or '').endswith('abstractmethod') for d in fn.decorator_list):
        raise Unsupported(fn, f"{cls.name}.{name} resolves to an abstract stub")
    if depth > 3:
        raise Unsupported(fn, 'recursive state reader')
    params = [a.arg for a in fn.args.args]
    if len(params) < 2:
        raise Unsupported(fn, 'state reader without a state argument')
    state = params[1]
    module = defcls.module
    out = Reads()
    elem_of: Dict[str, str] = {}  # loop var -> key it iterates

    def is_state_sub(n) -> Optional[str]:
        if isinstance(n, ast.Subscript) and isinstance(n.value, ast.Name) and n.value.id == state \
                and isinstance(n.slice, ast.Constant) and isinstance(n.slice.value, str):
            return n.slice.value
        return None

    def scan_expr(e: ast.AST, conds):
        for n in ast.walk(e):
            k = is_state_sub(n)
            if k is not None and isinstance(n.ctx, ast.Load):
                out.keys.setdefault(k, []).append(Key(list(conds), None, module, n))
            if isinstance(n, ast.Subscript) and isinstance(n.value, ast.Name) and n.value.id in elem_of \
                    and isinstance(n.slice, ast.Constant) and isinstance(n.slice.value, str):
                out.nested.setdefault(elem_of[n.value.id], {}).setdefault(n.slice.value, []).append(Key(list(conds), None, module, n))
            if isinstance(n, ast.Call):
                f = n.func
                if isinstance(f, ast.Attribute) and isinstance(f.value, ast.Name) and f.value.id == state and f.attr == 'get' \
                        and n.args and isinstance(n.args[0], ast.Constant):
                    out.optional.add(n.args[0].value)
                    out.keys.setdefault(n.args[0].value, []).append(Key(list(conds) + [('optional', '')], None, module, n))
                if isinstance(f, ast.Attribute) and f.attr in READERS and n.args:
                    a0 = n.args[0]
                    k = is_state_sub(a0)
                    recv = ast.unparse(f.value)
                    if k is not None:
                        out.delegated.setdefault(k, []).append(recv)
                    elif isinstance(a0, ast.Name) and a0.id == state:
                        if self_attr(f) in READERS:
                            sub = reader_keys(ctx, cls, self_attr(f), depth + 1)
                            for kk, ks in sub.keys.items():
                                out.keys.setdefault(kk, []).extend(Key(list(conds) + x.conds, None, x.module, x.node) for x in ks)
                            out.optional |= sub.optional
                            for kk, d in sub.nested.items():
                                for k2, ks in d.items():
                                    out.nested.setdefault(kk, {}).setdefault(k2, []).extend(ks)
                            for kk, rs in sub.delegated.items():
                                out.delegated.setdefault(kk, []).extend(rs)
                        else:
                            out.whole_delegated.append(recv)
                    elif isinstance(a0, ast.Name) and a0.id in elem_of:
                        out.delegated.setdefault(elem_of[a0.id], []).append(recv)
            if isinstance(n, ast.Compare) and len(n.ops) == 1 and isinstance(n.ops[0], ast.In) \
                    and isinstance(n.left, ast.Constant) and isinstance(n.comparators[0], ast.Name) and n.comparators[0].id == state:
                out.optional.add(n.left.value)

    def walk(stmts, conds):
        for st in stmts:
            if isinstance(st, ast.If):
                scan_expr(st.test, conds)
                walk(st.body, conds + [('if', cond_text(st.test))])
                walk(st.orelse, conds + [('ifnot', cond_text(st.test))])
            elif isinstance(st, ast.For):
                scan_expr(st.iter, conds)
                k = is_state_sub(st.iter)
                if k is not None and isinstance(st.target, ast.Name):
                    elem_of[st.target.id] = k
                walk(st.body, conds + [('for', ast.unparse(st.iter))])
                walk(st.orelse, conds)
            elif isinstance(st, ast.While):
                scan_expr(st.test, conds)
                walk(st.body, conds + [('loop', '?')])
            elif isinstance(st, ast.With):
                for it in st.items:
                    scan_expr(it.context_expr, conds)
                walk(st.body, conds)
            elif isinstance(st, ast.Try):
                walk(st.body, conds)
                for h in st.handlers:
                    walk(h.body, conds + [('except', '?')])
                walk(st.orelse, conds)
                walk(st.finalbody, conds)
            elif isinstance(st, (ast.FunctionDef, ast.ClassDef)):
                continue
            else:
                scan_expr(st, conds)

    walk(fn.body, [])
    return out


def guards_compatible(wconds, rconds) -> Optional[bool]:
    """True: reader guard matches the writer guard; False: reader unguarded; None: cannot tell."""
    w = [c for c in wconds if c[0] in ('if', 'ifnot')]
    if not w:
        return True
    r = [c for c in rconds if c[0] in ('if', 'ifnot', 'for', 'optional')]
    if not r:
        return False
    if any(c[0] == 'optional' for c in r):
        return True

    def n(t):
        return t.replace('load_state_dict', 'state_dict').replace('_load_state_dict', '_state_dict')

    for wk, wt in w:
        ok = False
        for rk, rt in r:
            if rk == wk and n(rt) == n(wt):
                ok = True
            # len(X) > 0  <->  for _ in X
            if rk == 'for' and wk == 'if':
                try:
                    t = ast.parse(wt, mode='eval').body
                except SyntaxError:
                    t = None
                if isinstance(t, ast.Compare) and isinstance(t.left, ast.Call) and dotted_name(t.left.func) == 'len' \
                        and ast.unparse(t.left.args[0]) == rt:
                    ok = True
                if t is not None and ast.unparse(t) == rt:
                    ok = True
        if not ok:
            return None
    return True


# ---------------------------------------------------------------------------
# run-state coverage
# ---------------------------------------------------------------------------

def init_attrs(cls: ClassInfo) -> Dict[str, ast.AST]:
    """attribute -> value expression of the (last) assignment in the constructor chain /
    restart()-style initialisers called from __init__."""
    out: Dict[str, ast.AST] = {}
    for c in reversed(cls.internal_mro()):
        init = c.methods.get('__init__')
        if init is None:
            continue
        fns = [init]
        for n in ast.walk(init):
            if isinstance(n, ast.Call) and self_attr(n.func):
                r = cls.resolve(self_attr(n.func))
                if r:
                    fns.append(r[1])
        for f in fns:
            for n in ast.walk(f):
                if isinstance(n, ast.Assign):
                    for t in n.targets:
                        a = self_attr(t)
                        if a:
                            out[a] = n.value
                elif isinstance(n, ast.AugAssign) and self_attr(n.target):
                    out.setdefault(self_attr(n.target), n.value)
    return out


def attr_path(node) -> Optional[Tuple[str, ...]]:
    """self.a.b -> ('a','b')"""
    parts = []
    while isinstance(node, ast.Attribute):
        parts.append(node.attr)
        node = node.value
    if isinstance(node, ast.Name) and node.id == 'self':
        return tuple(reversed(parts))
    return None


def mutated_paths(ctx, cls: ClassInfo, fn: ast.AST, prefix: Tuple[str, ...] = (), depth=0, seen=None):
    """(path, node) for every store / aug-store / mutator call on self.<path> in fn and in self
    methods it calls; helper objects (attributes built from in-package classes without a
    state writer) are followed through their methods."""
    seen = seen if seen is not None else set()
    out = []
    for n in ast.walk(fn):
        if isinstance(n, (ast.Assign, ast.AugAssign, ast.AnnAssign)):
            targets = n.targets if isinstance(n, ast.Assign) else [n.target]
            for t in targets:
                for e in (t.elts if isinstance(t, ast.Tuple) else [t]):
                    base = e.value if isinstance(e, ast.Subscript) else e
                    p = attr_path(base)
                    if p:
                        out.append((prefix + p, n))
        elif isinstance(n, ast.Call) and isinstance(n.func, ast.Attribute):
            recv = n.func.value
            p = attr_path(recv)
            if p and n.func.attr in MUTATORS:
                out.append((prefix + p, n))
            elif p is not None and len(p) == 0 and depth < 4:
                # self.method(...)
                r = cls.resolve(n.func.attr) or cls.resolve(n.func.attr, 'getter')
                if r and id(r[1]) not in seen:
                    seen.add(id(r[1]))
                    out += mutated_paths(ctx, cls, r[1], prefix, depth + 1, seen)
            elif p and len(p) == 1 and depth < 4:
                # self.helper.method(...): resolve the helper class from the constructor
                h = helper_class(ctx, cls, p[0])
                if h is not None:
                    r = h.resolve(n.func.attr)
                    if r and (id(r[1]), p) not in seen:
                        seen.add((id(r[1]), p))
                        out += mutated_paths(ctx, h, r[1], prefix + p, depth + 1, seen)
    # assignment through a property setter: self.prop = v
    for n in ast.walk(fn):
        if isinstance(n, ast.Assign):
            for t in n.targets:
                a = self_attr(t)
                if a:
                    r = cls.resolve(a, 'setter')
                    if r and id(r[1]) not in seen and depth < 4:
                        seen.add(id(r[1]))
                        out += mutated_paths(ctx, cls, r[1], prefix, depth + 1, seen)
    return out


def helper_class(ctx, cls: ClassInfo, attr: str) -> Optional[ClassInfo]:
    """class of self.<attr> when the constructor builds it from an in-package class."""
    v = init_attrs(cls).get(attr)
    if isinstance(v, ast.Call):
        for c in cls.internal_mro():
            ci = ctx.classes.resolve_class_expr(c.module, v.func)
            if ci is not None:
                return ci
    return None


def has_state_io(ci: ClassInfo) -> bool:
    return any(ci.resolve(w) for w in WRITERS) and any(ci.resolve(r) for r in READERS)


def annotated_class(ctx, cls: ClassInfo, attr: str) -> Optional[ClassInfo]:
    """class named by the annotation of the constructor parameter stored into self.<attr>."""
    for c in cls.internal_mro():
        init = c.methods.get('__init__')
        if init is None:
            continue
        for n in ast.walk(init):
            if isinstance(n, ast.Assign) and any(self_attr(t) == attr for t in n.targets) and isinstance(n.value, ast.Name):
                for a in init.args.args + init.args.kwonlyargs:
                    if a.arg == n.value.id and a.annotation is not None:
                        ann = a.annotation
                        if isinstance(ann, ast.Constant) and isinstance(ann.value, str):
                            try:
                                ann = ast.parse(ann.value, mode='eval').body
                            except SyntaxError:
                                return None
                        if isinstance(ann, ast.Subscript):
                            ann = ann.slice
                        return ctx.classes.resolve_class_expr(c.module, ann)
    return None


# ---------------------------------------------------------------------------
# ---------------------------------------------------------------------------
# C17.A — a restore is complete on every path;  C17.O — a restore writes its own state only
# ---------------------------------------------------------------------------
def _load_functions(ctx):
    out = []
    for ci in sorted(ctx.classes.classes.values(), key=lambda c: c.qualname):
        if '.cli.' in ci.qualname:
            continue
        for name in ('load_state_dict', '_load_state_dict'):
            fn = ci.methods.get(name)
            if fn is not None and not any((dotted_name(d) or '').endswith('abstractmethod') for d in fn.decorator_list):
                out.append((ci, fn))
    return out


def check_restore_paths(ctx, rep):
    """Every unconditional restoring statement of a load_state_dict (a store into self.… or a nested .load_state_dict(...) written at the top level of the method) lies on every
    path from entry to a normal exit: an early `return` in front of it restores part of the state and silently starts the rest afresh."""
    from sa.cfg import CFG
    n = 0
    for ci, fn in _load_functions(ctx):
        cfg = CFG(fn)
        tops = []
        for st in fn.body:
            restoring = False
            if isinstance(st, (ast.Assign, ast.AugAssign)):
                tg = st.targets if isinstance(st, ast.Assign) else [st.target]
                restoring = any(isinstance(x, ast.Attribute) and self_attr(x) for t in tg for x in ast.walk(t))
            elif isinstance(st, ast.Expr) and isinstance(st.value, ast.Call) and isinstance(st.value.func, ast.Attribute) and st.value.func.attr in ('load_state_dict', '_load_state_dict'):
                restoring = True
            if restoring:
                tops.append(st)
        for st in tops:
            n += 1
            try:
                node = cfg.node_of(st)
            except KeyError:
                continue
            ok = cfg.must_pass(cfg.entry, cfg.exit, [node])
            rep.check('C17.A', f"{ci.qualname}.{fn.name}::{norm_text(st)[:50]}", ok, where(ci.module, st), None,
                      f"{ci.name}.{fn.name} can return before `{norm_text(st)[:60]}`: on that path the checkpointed value is ignored and this part of the run state starts afresh, so "
                      f"the resumed run does not continue the interrupted one")
    # template methods: the base class restores (writes) its own part and hands the rest to a hook the subclasses implement (`self._load_state_dict(state)` /
    # `self._state_dict()`): the hook is the ONLY way the subclass state gets in or out, so it is called on every path — a flag of the base class cannot know what the
    # subclasses keep there (HMCOperator adapts through its adaptors whatever `_disable_adaptation` says)
    h = 0
    for ci in sorted(ctx.classes.classes.values(), key=lambda c: c.qualname):
        if '.cli.' in ci.qualname:
            continue
        for tname, hook in (('load_state_dict', '_load_state_dict'), ('state_dict', '_state_dict')):
            fn, hk = ci.methods.get(tname), ci.methods.get(hook)
            if fn is None or hk is None or not any((dotted_name(d) or '').endswith('abstractmethod') for d in hk.decorator_list):
                continue
            cfg = CFG(fn)
            calls = [nd for nd in cfg.stmt_nodes() if not isinstance(nd.stmt, (ast.If, ast.For, ast.While, ast.With, ast.Try, ast.FunctionDef))
                     and any(isinstance(c, ast.Call) and self_attr(c.func) == hook for c in ast.walk(nd.stmt))]
            h += 1
            ok = bool(calls) and cfg.must_pass(cfg.entry, cfg.exit, calls)
            rep.check('C17.A', f"{ci.qualname}.{tname}::hook-{hook}-on-every-path", ok, where(ci.module, calls[0].stmt if calls else fn), {'hook_calls': len(calls)},
                      f"{ci.name}.{tname} does not call self.{hook}(…) on every path: the state the subclasses keep behind that hook (tuning values, integrator step size, mass "
                      f"matrix, adaptor state) is then left out of the checkpoint / left at its fresh value on restart")
    rep.analysed['template_hooks'] = h
    if n < 20 or h < 2:
        rep.incomplete('C17.A', '*', '', f"only {n} restoring statements / {h} template hooks found")


def check_restore_ownership(ctx, rep):
    """A load_state_dict writes into the object's own members.  A store `self.<member>.<field> = …` where <member> is an object that restores itself (its class has a
    load_state_dict of its own) overwrites what that object's own restore installed with a value derived from this object's state — the order of the restores then decides
    which one survives."""
    stateful = {ci.qualname for ci, _ in _load_functions(ctx)}
    names = {q.split('.')[-1] for q in stateful}
    n = 0
    from sa.members import Kinds
    kinds = Kinds(ctx.classes)
    for ci, fn in _load_functions(ctx):
        for st in ast.walk(fn):
            if not isinstance(st, (ast.Assign, ast.AugAssign)):
                continue
            tg = st.targets if isinstance(st, ast.Assign) else [st.target]
            for t in tg:
                if isinstance(t, ast.Attribute) and isinstance(t.value, ast.Attribute) and self_attr(t.value):
                    member = self_attr(t.value)
                    n += 1
                    # class of the member: constructor annotation of the parameter it was assigned from
                    mcls = None
                    for c in ci.internal_mro():
                        init = c.methods.get('__init__')
                        if init is None:
                            continue
                        ann = {a.arg: ast.unparse(a.annotation) for a in init.args.args + init.args.kwonlyargs if a.annotation is not None}
                        for s2 in ast.walk(init):
                            if isinstance(s2, ast.Assign) and any(self_attr(x) == member for x in s2.targets) and isinstance(s2.value, ast.Name) and s2.value.id in ann:
                                mcls = ann[s2.value.id].strip("'\"").split('.')[-1]
                    foreign = mcls in names
                    rep.check('C17.O', f"{ci.qualname}.{fn.name}::self.{member}.{t.attr}", not foreign, where(ci.module, st), {'member_class': mcls},
                              f"{ci.name}.{fn.name} writes `{norm_text(st)[:60]}`: {member} is a {mcls}, which restores its own state from the checkpoint; this store replaces the "
                              f"restored `{t.attr}` by a value recomputed from {ci.name}'s state (whichever restore runs last wins), so the resumed run can start from another "
                              f"value than the one in use when the checkpoint was written")
    rep.analysed['restore_member_field_stores'] = n
    rep.ok('C17.O', 'load_state_dict::member-field-stores-examined', '', {'stores': n})


def check_encoder_writes_tensor_as_is(ctx, rep):
    """C17.E (addition) — the encoder writes a parameter's tensor with its own shape: the value under 'tensor' is `<obj>.tensor.tolist()` (or `<tensor>.tolist()`), not a
    reshaped / flattened / at-least-1d copy: the decoder rebuilds the parameter with the written shape, and a 0-d parameter restored as [1] no longer matches optimiser state."""
    n = 0
    for m, cname, cnode in [(mm, cn, cd) for mm in (ctx.prog.module('torchtree.core.parameter_encoder'), ctx.prog.module('torchtree.core.utils')) for cn, cd in mm.classes.items()
                            if cn.endswith('Encoder')]:
        for fn in [b for b in cnode.body if isinstance(b, ast.FunctionDef) and b.name == 'default']:
            for d in ast.walk(fn):
                if not isinstance(d, ast.Dict):
                    continue
                for k, v in zip(d.keys, d.values):
                    if isinstance(k, ast.Constant) and k.value in ('tensor', 'values'):
                        n += 1
                        as_is = isinstance(v, ast.Call) and isinstance(v.func, ast.Attribute) and v.func.attr == 'tolist' and not v.args and \
                            (isinstance(v.func.value, ast.Name) or (isinstance(v.func.value, ast.Attribute) and v.func.value.attr == 'tensor' and isinstance(v.func.value.value, ast.Name)))
                        rep.check('C17.E', f"{cname}.default::'{k.value}'-written-with-its-own-shape", as_is, where(m, v), {'written': norm_text(v)[:80]},
                                  f"{cname}.default writes `{norm_text(v)[:60]}` under '{k.value}': the tensor is reshaped on the way out, the restored parameter has another shape than the "
                                  f"checkpointed one (state of the optimiser / operators no longer matches it)")
    if n < 2:
        rep.incomplete('C17.E', 'encoders::tensor-written-as-is', '', f"only {n} tensor entries found in the encoders")
    # … and the decoder rebuilds it with the precision that was written: where the record carries a 'dtype', the dtype handed to torch.tensor derives from that entry, not
    # from the session default or a fixed precision (optimisers cast their own state on load; adaptor and operator state is used as it comes out of the decoder)
    from sa.util import backward_slice, local_assignments
    m = ctx.prog.module('torchtree.core.utils')
    dec = m.classes.get('TensorDecoder')
    hook = next((b for b in dec.body if isinstance(b, ast.FunctionDef) and b.name == 'object_hook'), None) if dec is not None else None
    if hook is None:
        raise AnalysisError('TensorDecoder.object_hook not found')
    params = {a.arg for a in hook.args.args}
    defs = {k: v for k, v in local_assignments(hook).items() if k not in params}

    def recorded(st):
        """the statement runs only when the record has a 'dtype' (True), only when it has none (False), or either way (None)"""
        p, child = getattr(st, '_parent', None), st
        while p is not None and p is not hook:
            if isinstance(p, ast.If):
                t = p.test
                if isinstance(t, ast.Compare) and len(t.ops) == 1 and isinstance(t.left, ast.Constant) and t.left.value == 'dtype' and isinstance(t.ops[0], (ast.In, ast.NotIn)):
                    inside = any(child is b for b in p.body)
                    return inside == isinstance(t.ops[0], ast.In)
            child, p = p, getattr(p, '_parent', None)
        return None
    sites = []
    for st in ast.walk(hook):
        if isinstance(st, ast.Assign) and any(isinstance(t, ast.Subscript) and isinstance(t.slice, ast.Constant) and t.slice.value == 'dtype' for t in st.targets):
            sites.append((st, st.value))
        if isinstance(st, ast.stmt):
            for c in ast.walk(st):
                if isinstance(c, ast.Call) and (dotted_name(c.func) or '') in ('torch.tensor', 'torch.as_tensor'):
                    for k in c.keywords:
                        if k.arg == 'dtype':
                            sites.append((st, k.value))
    sites = [(st, v) for st, v in {id(v): (st, v) for st, v in sites}.values()]
    from_record = 0
    for st, v in sites:
        sl = backward_slice(v, defs)
        reads = any(isinstance(x, ast.Subscript) and isinstance(x.slice, ast.Constant) and x.slice.value == 'dtype' and isinstance(x.ctx, ast.Load) for e in sl for x in ast.walk(e))
        other = [x for e in sl for x in ast.walk(e) if (isinstance(x, ast.Call) and (dotted_name(x.func) or '').endswith('get_default_dtype'))
                 or (isinstance(x, ast.Attribute) and isinstance(x.value, ast.Name) and x.value.id == 'torch' and x.attr in ('float16', 'float32', 'float64', 'float', 'double', 'half', 'bfloat16'))]
        from_record += bool(reads)
        if recorded(st) is False:
            continue
        rep.check('C17.E', f"TensorDecoder.object_hook::dtype-is-the-recorded-one::{norm_text(v)[:40]}", reads and not other, where(m, v),
                  {'reads_the_record': reads, 'other_sources': [norm_text(x)[:40] for x in other]},
                  f"TensorDecoder.object_hook builds the tensor with `{norm_text(other[0])[:40] if other else norm_text(v)[:40]}` where the record carries its own dtype: state that "
                  f"no optimiser casts back (dual-averaging values, mass matrices, operator tuning tensors) comes back in another precision than it was saved in, and the resumed run "
                  f"no longer continues the interrupted one")
    if not from_record:
        rep.undecided('C17.E', 'TensorDecoder.object_hook::dtype-is-the-recorded-one', where(m, hook), "no store of the record's dtype recognised in the decoder")


def run(ctx, rep):
    rep.explanation = (
        "Writer/reader cross-check of every state_dict/load_state_dict pair (resolved along the MRO; base and "
        "_-prefixed halves joined; nested element states matched against the element classes' writers), coverage "
        "of loop-carried run state (attributes mutated in methods reachable from run/step/tune/learn/accept/reject "
        "must be written by the writer and restored by the reader, helper objects followed), agreement of the "
        "parameter/tensor encoder and decoder tables with main()'s routing, and the foreign-state fact that torch "
        "optimiser state is keyed by integers while JSON keys are strings."
    )
    rep.rule('C17.K1', "every key a load_state_dict reads is written by the matching state_dict (else restart raises KeyError)")
    rep.rule('C17.K2', "every key a state_dict writes (other than id) is read back by the matching load_state_dict (else state is silently dropped)")
    rep.rule('C17.K3', "a conditionally written key is read under the same condition; nested element keys are written by every element class")
    rep.rule('C17.C', "every attribute (own or of an owned helper object) mutated in a method reachable from the run loop is both written by the "
                      "state writer and restored by the state reader")
    rep.rule('C17.E', "encoder/decoder tables agree: ParameterEncoder tag/keys vs main() routing, update_parameters and Parameter.from_json; "
                      "TensorEncoder vs TensorDecoder; save_full_state records carry id and a non-parameter type")
    rep.rule('C17.F', "what a reader hands to a nested load_state_dict derives from the saved state only, never from the current object's own state_dict()")
    rep.rule('C17.S', "a reader restores into the objects the constructor injected (parameters, models, integrators, adaptors); it never re-binds such an attribute")
    rep.rule('C17.I', "the iteration counter restored from a checkpoint is the next iteration to run")
    rep.rule('C17.P', "the checkpoint of an iteration is written after every state change of that iteration")
    rep.rule('C17.R', "a helper rebuilt through its constructor in a reader receives each saved value in a parameter the constructor stores unchanged")
    rep.rule('C17.J', "state of a torch optimiser (integer keys) is not passed through JSON and back into load_state_dict without re-keying")
    rep.assumptions += [
        "torch.optim.Optimizer.state_dict()['state'] is keyed by integers; JSON object keys are strings",
        "json round trip preserves str keys, lists, numbers; tensors go through TensorEncoder/TensorDecoder",
    ]
    rep.not_decided += ["trajectory equality of resumed runs", "dtype fidelity at run time", "state of torch schedulers (opaque)"]
    classes = [c for c in sorted(ctx.classes.classes.values(), key=lambda c: c.qualname) if has_state_io(c)]
    concrete = [c for c in classes if not c.is_abstract()]
    if len(concrete) < 10:
        raise AnalysisError(f"only {len(concrete)} concrete classes with state_dict/load_state_dict found")
    rep.analysed['state_classes'] = [c.qualname for c in concrete]
    for cls in concrete:
        check_pair(ctx, rep, cls)
        check_coverage(ctx, rep, cls)
    check_encoders(ctx, rep)
    check_main_accumulates(ctx, rep)
    check_reader_discipline(ctx, rep, concrete)
    check_foreign(ctx, rep, concrete)
    check_checkpoint_position(ctx, rep)
    check_constructor_restores(ctx, rep, concrete)
    check_restored_precision(ctx, rep, concrete)
    try:
        check_main_order(ctx, rep)
    except Unsupported as u:
        rep.undecided('C17.E', 'main::checkpoint-routing', f"line {getattr(u.node, 'lineno', 0)}", str(u))
    check_iteration_counter(ctx, rep)
    rep.rule('C17.A', "every unconditional restoring statement of a load_state_dict lies on every path to a normal exit (no early return leaves part of the state at its fresh value)")
    rep.rule('C17.O', "a load_state_dict does not overwrite a field of a member object that restores itself from the checkpoint")
    check_restore_paths(ctx, rep)
    check_restore_ownership(ctx, rep)
    check_encoder_writes_tensor_as_is(ctx, rep)


# ---------------------------------------------------------------------------
MUTATOR_METHODS = {'step', 'tune', 'accept', 'reject', 'learn', 'fire_parameter_changed', 'rsample', 'sample', 'restart', 'zero_grad', 'backward'}


def _calls_save(ctx, cls, call, depth=0) -> bool:
    if isinstance(call.func, ast.Attribute) and call.func.attr == 'save_full_state':
        return True
    a = self_attr(call.func) if isinstance(call.func, ast.Attribute) else None
    if a and depth < 2:
        r = cls.resolve(a)
        if r is not None:
            return any(isinstance(c, ast.Call) and _calls_save(ctx, r[0], c, depth + 1) for c in ast.walk(r[1]))
    return False


def check_checkpoint_position(ctx, rep):
    """C17.P — the checkpoint of an iteration is written after everything that changes run state in that iteration (only the iteration counter may follow)"""
    n = 0
    for qual, names in (('torchtree.optim.optimizer.Optimizer', ('_run', '_run_closure')), ('torchtree.inference.mcmc.mcmc.MCMC', ('run',))):
        cls = ctx.classes.get(qual)
        if cls is None:
            raise AnalysisError(f"{qual} not found")
        for name in names:
            r = cls.resolve(name)
            if r is None:
                continue
            fn = r[1]
            for loop in [x for x in ast.walk(fn) if isinstance(x, (ast.While, ast.For))]:
                body = loop.body
                idx = [i for i, st in enumerate(body) if any(isinstance(c, ast.Call) and _calls_save(ctx, cls, c) for c in ast.walk(st))]
                if not idx:
                    continue
                n += 1
                after = body[idx[-1] + 1:]
                offenders = []
                for st in after:
                    for c in ast.walk(st):
                        if isinstance(c, ast.Call) and isinstance(c.func, ast.Attribute) and c.func.attr in MUTATOR_METHODS:
                            offenders.append(norm_text(c)[:50])
                # the closure of LBFGS is defined before the step: nested defs are not "after"
                rep.check('C17.P', f"{cls.name}.{name}::checkpoint-after-every-state-change-of-the-iteration", not offenders, where(cls.module, body[idx[-1]]),
                          {'after_the_checkpoint': [norm_text(st)[:50] for st in after], 'state_changes_after': offenders},
                          f"{cls.name}.{name} writes the checkpoint and then still runs {offenders[:3]} in the same iteration: the file pairs post-step parameters with "
                          f"pre-step state of those objects, so the resumed run diverges from the uninterrupted one")
            # the label of a checkpoint: state_dict() stores `iteration = _epoch` and load_state_dict resumes at iteration + 1, so a checkpoint may only be written while
            # _epoch is an iteration that HAS been performed — every path from a save to the end of the run passes through the increment of the counter first
            from sa.cfg import CFG
            try:
                cfg = CFG(fn)
            except Exception:
                continue
            incr = [nd for nd in cfg.stmt_nodes() if isinstance(nd.stmt, ast.AugAssign) and self_attr(nd.stmt.target) == '_epoch']
            k_save = 0
            for nd in cfg.stmt_nodes():
                st = nd.stmt
                if nd.kind == 'with_exit' or not isinstance(st, ast.Expr) or not isinstance(st.value, ast.Call) or not _calls_save(ctx, cls, st.value):
                    continue
                if not incr:
                    continue
                ok = cfg.must_pass(nd, cfg.exit, incr)
                k_save += 1
                rep.check('C17.P', f"{cls.name}.{name}::checkpoint-labelled-with-a-completed-iteration::{norm_text(st)[:40]}#{k_save}", ok, where(cls.module, st), None,
                          f"{cls.name}.{name}: after `{norm_text(st)[:40]}` the run can end without `_epoch += 1`: at that point _epoch names an iteration that has not been "
                          f"performed, the file is labelled with it, and the resumed run (which continues at label + 1) never performs it — it can also overwrite the last "
                          f"good periodic checkpoint")
    if n < 3:
        raise AnalysisError(f"only {n} run loops with a checkpoint found")


def check_constructor_restores(ctx, rep, classes):
    """C17.R — a reader that rebuilds a helper through its constructor hands each saved value to a parameter that the constructor stores unchanged in the
    attribute the writer saved it from"""
    n = 0
    for cls in classes:
        for rname in ('load_state_dict', '_load_state_dict'):
            r = cls.resolve(rname)
            if r is None:
                continue
            fn = r[1]
            sd = fn.args.args[1].arg if len(fn.args.args) > 1 else None
            for st in ast.walk(fn):
                if not (isinstance(st, ast.Assign) and len(st.targets) == 1 and self_attr(st.targets[0]) and isinstance(st.value, ast.Call)):
                    continue
                call = st.value
                tcls = ctx.classes.resolve_class_expr(cls.module, call.func)
                if tcls is None:
                    continue
                init = tcls.resolve('__init__')
                if init is None:
                    continue
                params = [a.arg for a in init[1].args.args][1:]
                for i, a in enumerate(call.args):
                    keys = [x.slice.value for x in ast.walk(a) if isinstance(x, ast.Subscript) and isinstance(x.value, ast.Name) and x.value.id == sd
                            and isinstance(x.slice, ast.Constant)]
                    if len(keys) != 1 or i >= len(params):
                        continue
                    n += 1
                    p_ = params[i]
                    # what the constructor does with that parameter
                    stores = [s2 for s2 in ast.walk(init[1]) if isinstance(s2, ast.Assign) and any(self_attr(t) for t in s2.targets) and isinstance(s2.value, ast.Name) and s2.value.id == p_]
                    attrs = [self_attr(t) for s2 in stores for t in s2.targets if self_attr(t)]
                    modified = []
                    for s2 in ast.walk(init[1]):
                        if isinstance(s2, ast.AugAssign) and (self_attr(s2.target) in attrs or (isinstance(s2.target, ast.Name) and s2.target.id == p_)):
                            modified.append(norm_text(s2)[:50])
                        if isinstance(s2, ast.Assign) and any(self_attr(t) in attrs for t in s2.targets) and not (isinstance(s2.value, ast.Name) and s2.value.id == p_):
                            modified.append(norm_text(s2)[:50])
                    ok = bool(attrs) and not modified
                    rep.check('C17.R', f"{cls.qualname}.{rname}::{keys[0]}->{tcls.name}({p_})", ok, where(cls.module, st), {'stored_in': attrs, 'modified_by_constructor': modified},
                              f"{cls.name}.{rname} rebuilds self.{self_attr(st.targets[0])} with {tcls.name}(…, {p_}=state['{keys[0]}'], …), but {tcls.name}.__init__ does not keep that "
                              f"argument as it is ({modified[:2] or 'not stored'}): the restored accumulator differs from the saved one")
    # an attribute that the constructor builds with configuration keywords (deque(maxlen=…), a container with a bound) and that the reader rebuilds with the same constructor
    # must be rebuilt with those keywords: the saved content is restored but the behaviour that goes with it (the bound) would be lost
    for cls in classes:
        init = cls.resolve('__init__')
        if init is None:
            continue
        built = {}
        for k_ in cls.internal_mro():
            i2 = k_.methods.get('__init__')
            if i2 is None:
                continue
            for st in ast.walk(i2):
                if isinstance(st, ast.Assign) and len(st.targets) == 1 and self_attr(st.targets[0]) and isinstance(st.value, ast.Call) and st.value.keywords \
                        and isinstance(st.value.func, (ast.Name, ast.Attribute)):
                    built.setdefault(self_attr(st.targets[0]), st.value)
        for rname in ('load_state_dict', '_load_state_dict'):
            r = cls.resolve(rname)
            if r is None:
                continue
            for st in ast.walk(r[1]):
                if isinstance(st, ast.Assign) and len(st.targets) == 1 and self_attr(st.targets[0]) in built and isinstance(st.value, ast.Call):
                    a = self_attr(st.targets[0])
                    c0, c1 = built[a], st.value
                    if norm_text(c0.func) != norm_text(c1.func):
                        continue
                    n += 1
                    need = {k.arg for k in c0.keywords if k.arg}
                    have = {k.arg for k in c1.keywords if k.arg}
                    # a positional argument of the reader may stand for a keyword of the constructor only if the constructor call was positional too: not assumed
                    lack = sorted(need - have)
                    rep.check('C17.R', f"{cls.qualname}.{rname}::self.{a}-rebuilt-with-its-configuration", not lack, where(r[0].module, st),
                              {'constructor': norm_text(c0)[:70], 'reader': norm_text(c1)[:70]},
                              f"{cls.name}.__init__ builds self.{a} as `{norm_text(c0)[:60]}` but {rname} rebuilds it as `{norm_text(c1)[:60]}`, without {lack}: the restored "
                              f"object holds the saved content but no longer behaves like the one of the uninterrupted run (a bounded window becomes unbounded)")
    rep.analysed['constructor_restores'] = n


def check_restored_precision(ctx, rep, classes):
    """C17.E (reader side) — a tensor that was saved as plain numbers comes back at the precision it had: `torch.tensor(state[k])` without a dtype builds it at torch's default
    precision, so a float32 run restarted under a float64 default (or the reverse) continues with other numbers.  The dtype must be given (dtype=…, or **info that carries it)."""
    n = 0
    for cls in classes:
        for rname in ('load_state_dict', '_load_state_dict'):
            r = cls.resolve(rname)
            if r is None or r[0] is not cls:
                continue
            fn = r[1]
            sd = fn.args.args[1].arg if len(fn.args.args) > 1 else None
            for c in ast.walk(fn):
                if not (isinstance(c, ast.Call) and (dotted_name(c.func) or '') in ('torch.tensor', 'torch.as_tensor', 'torch.Tensor', 'torch.FloatTensor') and c.args):
                    continue
                if not any(isinstance(x, ast.Name) and x.id == sd for x in ast.walk(c.args[0])):
                    continue
                n += 1
                has_dtype = any(k.arg == 'dtype' for k in c.keywords)
                star = [k.value for k in c.keywords if k.arg is None]
                if not has_dtype and star:
                    # **info: accepted when the dictionary is built with a 'dtype' entry in this function
                    for sv in star:
                        if isinstance(sv, ast.Name):
                            for st in ast.walk(fn):
                                if isinstance(st, ast.Assign) and any(isinstance(t, ast.Name) and t.id == sv.id for t in st.targets) and isinstance(st.value, ast.Dict) \
                                        and any(isinstance(k, ast.Constant) and k.value == 'dtype' for k in st.value.keys):
                                    has_dtype = True
                rep.check('C17.E', f"{cls.qualname}.{rname}::{norm_text(c)[:50]}::restored-at-its-own-precision", has_dtype, where(cls.module, c), None,
                          f"{cls.name}.{rname} rebuilds a saved tensor with `{norm_text(c)[:60]}` — no dtype: it comes back at torch's default precision, not at the precision of the run "
                          f"that wrote it (a float32 model restarted under --dtype float64 continues in float64)")
    rep.analysed['tensor_rebuilds_in_readers'] = n


def check_main_order(ctx, rep):
    """C17.E — saved tensors are injected into the specification *after* comments were removed and plates expanded (ids inside plate templates are not final before)"""
    from sa.cfg import CFG
    m = ctx.prog.module('torchtree.torchtree')
    fn = m.functions.get('main')
    if fn is None:
        raise AnalysisError('torchtree.main not found')
    cfg = CFG(fn)

    def nodes_calling(name):
        out = []
        for n in cfg.stmt_nodes():
            st = n.stmt
            if n.kind == 'with_exit' or st is None:
                continue
            from sa.cfg import own_nodes
            if any(isinstance(c, ast.Call) and (dotted_name(c.func) or '').split('.')[-1] == name for c in own_nodes(st)):
                out.append(n)
        return out
    upd, exp, rem = nodes_calling('update_parameters'), nodes_calling('expand_plates'), nodes_calling('remove_comments')
    if not upd or not exp:
        raise Unsupported(fn, 'update_parameters / expand_plates not found in main()')
    ok = all(cfg.dominates(exp[0], u) for u in upd) and (not rem or all(cfg.dominates(rem[0], u) for u in upd))
    rep.check('C17.E', 'main::plates-expanded-before-saved-tensors-are-injected', ok, where(m, upd[0].stmt), None,
              "main() calls update_parameters before expand_plates / remove_comments: parameters declared inside a plate still carry their template ids, so the saved "
              "tensors are not found and the run restarts those parameters from their initial values")


def _offset(e, base_pred):
    """(k) if e is base + k / base - k / base, else None"""
    if base_pred(e):
        return 0
    if isinstance(e, ast.BinOp) and isinstance(e.op, (ast.Add, ast.Sub)) and isinstance(e.right, ast.Constant) and isinstance(e.right.value, int) and base_pred(e.left):
        return e.right.value if isinstance(e.op, ast.Add) else -e.right.value
    if isinstance(e, ast.BinOp) and isinstance(e.op, ast.Add) and isinstance(e.left, ast.Constant) and isinstance(e.left.value, int) and base_pred(e.right):
        return e.left.value
    return None


def check_iteration_counter(ctx, rep):
    """C17.I — the counter restored from a checkpoint is the next iteration to run: (value written relative to the counter) + (value restored relative to the saved one)
    must make up for whether the checkpoint is written before or after the counter is incremented"""
    for qual, loops in (('torchtree.optim.optimizer.Optimizer', ('_run', '_run_closure')), ('torchtree.inference.mcmc.mcmc.MCMC', ('run',))):
        cls = ctx.classes.get(qual)
        wk = None
        for wname in ('state_dict', '_state_dict'):
            r = cls.resolve(wname)
            if r is None:
                continue
            for d in ast.walk(r[1]):
                if isinstance(d, ast.Dict):
                    for k, v in zip(d.keys, d.values):
                        if isinstance(k, ast.Constant) and k.value == 'iteration':
                            wk = _offset(v, lambda x: self_attr(x) == '_epoch')
        rk = None
        for rname in ('load_state_dict', '_load_state_dict'):
            r = cls.resolve(rname)
            if r is None:
                continue
            for st in ast.walk(r[1]):
                if isinstance(st, ast.Assign) and any(self_attr(t) == '_epoch' for t in st.targets):
                    rk = _offset(st.value, lambda x: isinstance(x, ast.Subscript) and isinstance(x.slice, ast.Constant) and x.slice.value == 'iteration')
        if wk is None or rk is None:
            rep.undecided('C17.I', f"{cls.name}::iteration-counter", where(cls.module, cls.node), 'writer / reader of the iteration counter not recognised')
            continue
        for lname in loops:
            r = cls.resolve(lname)
            if r is None:
                continue
            for loop in [x for x in ast.walk(r[1]) if isinstance(x, (ast.While, ast.For))]:
                body = loop.body
                si = [i for i, st in enumerate(body) if any(isinstance(c, ast.Call) and _calls_save(ctx, cls, c) for c in ast.walk(st))]
                ii = [i for i, st in enumerate(body) if isinstance(st, ast.AugAssign) and self_attr(st.target) == '_epoch']
                if not si or not ii:
                    continue
                before = si[-1] < ii[0]
                need = 1 if before else 0
                rep.check('C17.I', f"{cls.name}.{lname}::resumes-with-the-next-iteration", wk + rk == need, where(cls.module, body[si[-1]]),
                          {'written_offset': wk, 'restored_offset': rk, 'checkpoint_before_increment': before},
                          f"{cls.name}.{lname} writes the checkpoint {'before' if before else 'after'} the counter is incremented, stores counter{wk:+d} and restores saved{rk:+d}: the resumed run "
                          f"starts at iteration K{wk + rk - need + 1:+d} after a checkpoint written at the end of iteration K (it {'repeats' if wk + rk < need else 'skips'} an iteration)")


def top_writer(cls):
    return 'state_dict' if cls.resolve('state_dict') else '_state_dict'


def top_reader(cls):
    return 'load_state_dict' if cls.resolve('load_state_dict') else '_load_state_dict'


def check_pair(ctx, rep, cls: ClassInfo):
    wname, rname = top_writer(cls), top_reader(cls)
    wfn = cls.resolve(wname)
    # pure pass-through wrapper: return self.X.state_dict()  /  self.X.load_state_dict(state)
    rets = [n for n in ast.walk(wfn[1]) if isinstance(n, ast.Return)]
    if len(rets) == 1 and isinstance(rets[0].value, ast.Call) and isinstance(rets[0].value.func, ast.Attribute) \
            and rets[0].value.func.attr == 'state_dict' and attr_path(rets[0].value.func.value):
        recv = ast.unparse(rets[0].value.func.value)
        try:
            R0 = reader_keys(ctx, cls, rname)
            ok = recv in R0.whole_delegated and not R0.keys
        except Unsupported:
            ok = False
        for r in ('C17.K1', 'C17.K2'):
            rep.check(r, f"{cls.qualname}::<pass-through {recv}>", ok, where(wfn[0].module, wfn[1]), {'wrapped': recv},
                      f"{cls.name}.{wname} returns {recv}.state_dict() but {rname} does not hand the whole state back to {recv}.load_state_dict")
        return
    try:
        W = writer_keys(ctx, cls, wname)
        R = reader_keys(ctx, cls, rname)
    except Unsupported as u:
        for r in ('C17.K1', 'C17.K2'):
            rep.undecided(r, cls.qualname, where(cls.module, u.node), str(u))
        return
    rfn = cls.resolve(rname)
    written = set(W)
    facts = {'written': sorted(written), 'read': sorted(R.keys), 'delegated': {k: v for k, v in R.delegated.items()},
             'nested_reads': {k: sorted(v) for k, v in R.nested.items()}}
    # K1
    for k, reads in sorted(R.keys.items()):
        key = f"{cls.qualname}::{k}"
        if k in written:
            rep.ok('C17.K1', key, where(reads[0].module, reads[0].node), facts)
        elif all(any(c[0] == 'optional' for c in x.conds) for x in reads):
            rep.ok('C17.K1', key, where(reads[0].module, reads[0].node), facts)
        else:
            rep.bad('C17.K1', key, where(reads[0].module, reads[0].node), facts,
                    f"{cls.name}.{rname} reads state['{k}'] but {cls.name}.{wname} never writes it (written: {sorted(written)}): "
                    f"restarting from a checkpoint raises KeyError")
    for k in sorted(R.delegated):
        key = f"{cls.qualname}::{k}"
        if k in written:
            rep.ok('C17.K1', key, where(rfn[0].module, rfn[1]), facts)
        else:
            rep.bad('C17.K1', key, where(rfn[0].module, rfn[1]), facts,
                    f"{cls.name}.{rname} hands state['{k}'] to {R.delegated[k][0]}.load_state_dict but the writer never writes '{k}'")
    # K2
    for k, ws in sorted(W.items()):
        if k == 'id':
            continue
        key = f"{cls.qualname}::{k}"
        if k in R.keys or k in R.delegated or k in R.nested:
            rep.ok('C17.K2', key, where(ws[0].module, ws[0].node), facts)
        else:
            rep.bad('C17.K2', key, where(ws[0].module, ws[0].node), facts,
                    f"{cls.name}.{wname} writes '{k}' but {cls.name}.{rname} never reads it: this part of the run state is dropped on restart")
    # K3: conditional writes
    for k, ws in sorted(W.items()):
        if not ws or any(not [c for c in w.conds if c[0] in ('if', 'ifnot')] for w in ws):
            continue
        reads = list(R.keys.get(k, []))
        if not reads and k not in R.delegated:
            continue
        key = f"{cls.qualname}::{k}"
        if not reads:
            # delegated read: find its guards in the reader source
            reads = delegated_read_sites(cls, rname, k)
        verdicts = [guards_compatible(ws[0].conds, x.conds) for x in reads]
        f2 = {'write_guard': ws[0].conds, 'read_guards': [x.conds for x in reads]}
        if verdicts and all(v is True for v in verdicts):
            rep.ok('C17.K3', key, where(ws[0].module, ws[0].node), f2)
        elif any(v is False for v in verdicts):
            rep.bad('C17.K3', key, where(reads[0].module, reads[0].node), f2,
                    f"'{k}' is written only when `{ws[0].conds[-1][1]}` but {cls.name}.{rname} reads it unconditionally: KeyError on restart when the condition was false")
        else:
            rep.undecided('C17.K3', key, where(ws[0].module, ws[0].node), 'reader guard differs from writer guard', f2)
    # nested element keys
    for k, elem_reads in sorted(R.nested.items()):
        ws = W.get(k)
        if not ws:
            continue
        v = ws[0].value
        elem_attr = None
        if isinstance(v, ast.ListComp) and v.generators:
            p = attr_path(v.generators[0].iter)
            if p and len(p) == 1:
                elem_attr = p[0]
        base = annotated_class(ctx, cls, elem_attr) if elem_attr else None
        for ek, ereads in sorted(elem_reads.items()):
            key = f"{cls.qualname}::{k}[].{ek}"
            if base is None:
                rep.undecided('C17.K3', key, where(ereads[0].module, ereads[0].node), 'element class of the nested state list not resolved')
                continue
            missing = []
            n_elem = 0
            for sub in ctx.classes.subclasses(base.qualname):
                if sub.is_abstract() or not sub.resolve(top_writer(sub)):
                    continue
                n_elem += 1
                try:
                    if ek not in writer_keys(ctx, sub, top_writer(sub)):
                        missing.append(sub.name)
                except Unsupported:
                    missing.append(sub.name + '?')
            rep.check('C17.K3', key, not missing and n_elem > 0, where(ereads[0].module, ereads[0].node),
                      {'element_base': base.qualname, 'element_classes': n_elem, 'missing_in': missing},
                      f"{cls.name}.{rname} reads '{ek}' from each element of state['{k}'] but {missing} do not write it")


def delegated_read_sites(cls, rname, k):
    out = []
    for nm in READERS:
        r = cls.resolve(nm)
        if not r:
            continue
        fn = r[1]
        state = [a.arg for a in fn.args.args][1] if len(fn.args.args) > 1 else None

        def walk(stmts, conds):
            for st in stmts:
                if isinstance(st, ast.If):
                    walk(st.body, conds + [('if', cond_text(st.test))])
                    walk(st.orelse, conds + [('ifnot', cond_text(st.test))])
                elif isinstance(st, ast.For):
                    hit = any(isinstance(n, ast.Subscript) and isinstance(n.value, ast.Name) and n.value.id == state
                              and isinstance(n.slice, ast.Constant) and n.slice.value == k for n in ast.walk(st.iter))
                    if hit:
                        out.append(Key(list(conds), None, r[0].module, st))
                    walk(st.body, conds + [('for', ast.unparse(st.iter))])
                else:
                    for n in ast.walk(st):
                        if isinstance(n, ast.Subscript) and isinstance(n.value, ast.Name) and n.value.id == state \
                                and isinstance(n.slice, ast.Constant) and n.slice.value == k:
                            out.append(Key(list(conds), None, r[0].module, n))
        walk(fn.body, [])
    return out


def reads_paths(fn: ast.AST) -> Set[Tuple[str, ...]]:
    out = set()
    for n in ast.walk(fn):
        p = attr_path(n)
        if p:
            for i in range(1, len(p) + 1):
                out.add(p[:i])
    return out


def group_functions(cls: ClassInfo, names) -> List[ast.FunctionDef]:
    fns = []
    for nm in names:
        r = cls.resolve(nm)
        if r and not any((dotted_name(d) or '').endswith('abstractmethod') for d in r[1].decorator_list):
            fns.append(r[1])
    return fns


def check_coverage(ctx, rep, cls: ClassInfo):
    entries = [nm for nm in ENTRY_METHODS if cls.resolve(nm)]
    if not entries:
        return
    inits = init_attrs(cls)
    muts = []
    seen = set()
    for nm in entries:
        r = cls.resolve(nm)
        muts += mutated_paths(ctx, cls, r[1], (), 0, seen)
    wfns = group_functions(cls, WRITERS)
    rfns = group_functions(cls, READERS)
    wreads: Set[Tuple[str, ...]] = set()
    for f in wfns:
        wreads |= reads_paths(f)
    rstores: Set[Tuple[str, ...]] = set()
    for f in rfns:
        for p, n in mutated_paths(ctx, cls, f, (), 3, set()):
            rstores.add(p)
        # obj.load_state_dict(...) restores obj
        for n in ast.walk(f):
            if isinstance(n, ast.Call) and isinstance(n.func, ast.Attribute) and n.func.attr in READERS:
                p = attr_path(n.func.value)
                if p:
                    rstores.add(p)
                elif isinstance(n.func.value, ast.Name):
                    # loop variable over self.<attr>
                    for st in ast.walk(f):
                        if isinstance(st, ast.For) and isinstance(st.target, ast.Name) and st.target.id == n.func.value.id:
                            p2 = attr_path(st.iter)
                            if p2:
                                rstores.add(p2)
    done = set()
    for path, node in muts:
        if not path or path in done:
            continue
        root = path[0]
        if root not in inits:
            continue  # not part of the constructed state (transient: saved_tensors …)
        # objects with their own state_dict are checkpointed by whoever owns them
        owner = annotated_class(ctx, cls, root) or helper_class(ctx, cls, root)
        if len(path) > 1 and owner is not None and has_state_io(owner):
            continue
        if len(path) > 1 and owner is None:
            # attribute of a foreign / shared object (parameter tensors, torch objects)
            continue
        if len(path) == 1 and owner is not None and has_state_io(owner):
            continue
        # parameters / models are checkpointed as parameters, not as algorithm state
        if owner is not None and (owner.has_base('torchtree.core.abstractparameter.AbstractParameter')
                                  or owner.has_base('torchtree.core.parametric.Parametric')):
            continue
        if len(path) > 1 and not any(w[0] == root for w in wreads) and not any(r[0] == root for r in rstores):
            path = (root,)  # nothing of this helper is saved: report it once
            if path in done:
                continue
        done.add(path)
        key = f"{cls.qualname}::self.{'.'.join(path)}"
        written = any(w[:len(path)] == path for w in wreads)
        # restored: the reader stores this path, a sub-path of it, or re-creates an enclosing object
        restored = any(r[:len(path)] == path or path[:len(r)] == r for r in rstores)
        facts = {'mutated_at': f"line {getattr(node, 'lineno', 0)}: {norm_text(node)[:70]}", 'entries': entries}
        if written and restored:
            rep.ok('C17.C', key, where(cls.module, node), facts)
        else:
            what = []
            if not written:
                what.append('is not written by the state writer')
            if not restored:
                what.append('is not restored by the state reader')
            rep.bad('C17.C', key, where(cls.module, node), facts,
                    f"run state self.{'.'.join(path)} of {cls.name} is updated during the run ({facts['mutated_at']}) but " + ' and '.join(what))


# ---------------------------------------------------------------------------
def dict_literal_keys(d: ast.Dict) -> Dict[str, ast.AST]:
    return {k.value: v for k, v in zip(d.keys, d.values) if isinstance(k, ast.Constant)}


def check_encoders(ctx, rep):
    pe = ctx.classes.get('torchtree.core.parameter_encoder.ParameterEncoder')
    default = pe.resolve('default')
    if default is None:
        raise AnalysisError('ParameterEncoder.default not found')
    lit = None
    for n in ast.walk(default[1]):
        if isinstance(n, ast.Return) and isinstance(n.value, ast.Dict):
            lit = n.value
    if lit is None:
        raise AnalysisError('ParameterEncoder.default: parameter record literal not found')
    enc = dict_literal_keys(lit)
    tag = enc.get('type')
    if not (isinstance(tag, ast.Constant) and isinstance(tag.value, str)):
        raise AnalysisError('ParameterEncoder type tag is not a constant')
    tag = tag.value
    w = where(pe.module, lit)
    # main() routing
    mainm = ctx.prog.module('torchtree.torchtree')
    mainfn = mainm.functions.get('main')
    if mainfn is None:
        raise AnalysisError('torchtree.main not found')
    tuples_main = [n for f in [mainfn] + [g for g in mainm.functions.values() if g is not mainfn] for n in ast.walk(f)
                   if isinstance(n, ast.Compare) and isinstance(n.ops[0], ast.In)
                   and isinstance(n.comparators[0], (ast.Tuple, ast.List, ast.Set))
                   and isinstance(n.left, ast.Subscript) and isinstance(n.left.slice, ast.Constant) and n.left.slice.value == 'type']
    if not tuples_main:
        raise AnalysisError("main(): routing test on param['type'] not found")
    accepted_main = {e.value for e in tuples_main[0].comparators[0].elts if isinstance(e, ast.Constant)}
    rep.check('C17.E', 'main::parameter-tag', tag in accepted_main, where(mainm, tuples_main[0]),
              {'encoder_tag': tag, 'main_accepts': sorted(accepted_main)},
              f"ParameterEncoder tags parameters '{tag}' but main() routes only {sorted(accepted_main)} to the parameter table: saved values are ignored on restart")
    um = ctx.prog.module('torchtree.core.utils')
    up = um.functions.get('update_parameters')
    if up is None:
        raise AnalysisError('update_parameters not found')
    kept = None
    for n in ast.walk(up):
        if isinstance(n, ast.Compare) and isinstance(n.ops[0], ast.NotIn) and isinstance(n.comparators[0], (ast.Tuple, ast.List)):
            kept = {e.value for e in n.comparators[0].elts if isinstance(e, ast.Constant)}
    # the test that decides "this dict is a plain Parameter: replace its value, do not descend": evaluated for every way a type can be spelled
    type_tests = [n.test for n in ast.walk(up) if isinstance(n, ast.If) and any(isinstance(x, ast.Subscript) and isinstance(x.slice, ast.Constant) and x.slice.value == 'type'
                                                                               for x in ast.walk(n.test))]
    if not type_tests or kept is None:
        raise AnalysisError('update_parameters: type test / kept-key table not found')

    def is_type_expr(x):
        return isinstance(x, ast.Subscript) and isinstance(x.slice, ast.Constant) and x.slice.value == 'type'

    def ev(t, sval):
        if isinstance(t, ast.BoolOp):
            vals = [ev(v, sval) for v in t.values]
            if any(v is None for v in vals):
                return None
            return all(vals) if isinstance(t.op, ast.And) else any(vals)
        if isinstance(t, ast.UnaryOp) and isinstance(t.op, ast.Not):
            v = ev(t.operand, sval)
            return None if v is None else not v
        if isinstance(t, ast.Compare) and len(t.ops) == 1:
            l, r_, op = t.left, t.comparators[0], t.ops[0]
            if isinstance(l, ast.Constant) and l.value == 'type' and isinstance(op, ast.In):
                return True          # 'type' in json_object
            def val(x):
                if is_type_expr(x):
                    return sval
                if isinstance(x, ast.Constant):
                    return x.value
                if isinstance(x, (ast.Tuple, ast.List)) and all(isinstance(e, ast.Constant) for e in x.elts):
                    return tuple(e.value for e in x.elts)
                if isinstance(x, ast.Subscript) and isinstance(x.value, ast.Call) and isinstance(x.value.func, ast.Attribute) and x.value.func.attr in ('split', 'rsplit') \
                        and is_type_expr(x.value.func.value) and x.value.args and isinstance(x.value.args[0], ast.Constant) and isinstance(x.slice, ast.UnaryOp):
                    return sval.split(x.value.args[0].value)[-1]
                return None
            a, b = val(l), val(r_)
            if a is None or b is None:
                return None
            if isinstance(op, ast.In):
                return a in b
            if isinstance(op, ast.NotIn):
                return a not in b
            if isinstance(op, ast.Eq):
                return a == b
            if isinstance(op, ast.NotEq):
                return a != b
        if isinstance(t, ast.Call) and isinstance(t.func, ast.Attribute) and t.func.attr in ('endswith', 'startswith') and is_type_expr(t.func.value) and t.args \
                and isinstance(t.args[0], ast.Constant):
            return getattr(sval, t.func.attr)(t.args[0].value)
        return None
    leaf_spellings = ['Parameter', 'torchtree.Parameter', 'torchtree.core.parameter.Parameter']
    containers = []
    for c in ctx.classes.subclasses('torchtree.core.abstractparameter.AbstractParameter'):
        if c.name != 'Parameter':
            containers += [c.name, f"torchtree.{c.name}", c.qualname]
    res_leaf = {sp: ev(type_tests[0], sp) for sp in leaf_spellings}
    res_cont = {sp: ev(type_tests[0], sp) for sp in containers}
    if any(v is None for v in list(res_leaf.values()) + list(res_cont.values())):
        raise AnalysisError('update_parameters: type test not understood')
    acc = {sp for sp, v in res_leaf.items() if v}
    rep.check('C17.E', 'update_parameters::spec-tags', set(leaf_spellings) <= acc,
              where(um, up), {'accepts': sorted(acc)},
              "update_parameters does not recognise every way a Parameter can be typed in a specification")
    wrong = sorted(sp for sp, v in res_cont.items() if v)
    rep.check('C17.E', 'update_parameters::descends-into-derived-parameters', not wrong, where(um, up), {'treated_as_leaves': wrong[:6]},
              f"update_parameters treats {wrong[:3]} as plain parameters: it neither finds them in the checkpoint nor descends into them, so a parameter declared inline "
              f"inside a transformed / view / concatenated parameter restarts from its initial value")
    # copied fields
    copied = set()
    for n in ast.walk(up):
        if isinstance(n, ast.Assign) and isinstance(n.targets[0], ast.Subscript) and isinstance(n.targets[0].slice, ast.Constant):
            dst = n.targets[0].slice.value
            srcs = [s.slice.value for s in ast.walk(n.value) if isinstance(s, ast.Subscript) and isinstance(s.slice, ast.Constant)
                    and isinstance(s.slice.value, str)]
            copied.add((dst, tuple(srcs)))
    ok = any(dst == 'tensor' and 'tensor' in srcs for dst, srcs in copied) and 'tensor' in enc
    rep.check('C17.E', 'update_parameters::tensor-field', ok, where(um, up), {'copied': sorted(copied), 'encoder_keys': sorted(enc)},
              "update_parameters does not copy the encoder's 'tensor' field into the specification")
    # dtype/nn of the checkpoint must reach Parameter.from_json: either kept from the spec or copied
    par = ctx.classes.get('torchtree.core.parameter.Parameter')
    fj = par.resolve('from_json')[1]
    read_by_param = {n.slice.value for n in ast.walk(fj) if isinstance(n, ast.Subscript) and isinstance(n.value, ast.Name)
                     and n.value.id == 'data' and isinstance(n.slice, ast.Constant)}
    read_by_param |= {n.left.value for n in ast.walk(fj) if isinstance(n, ast.Compare) and isinstance(n.left, ast.Constant)
                      and isinstance(n.ops[0], ast.In)}
    for k in ('tensor', 'dtype', 'nn'):
        rep.check('C17.E', f"Parameter.from_json::{k}", k in read_by_param and k in enc, where(par.module, fj),
                  {'encoder_keys': sorted(enc), 'reader_keys': sorted(read_by_param)[:30]},
                  f"key '{k}' of the parameter record is not written by the encoder or not read by Parameter.from_json")
    # what makes a parameter the object it was — its precision and whether it is a torch.nn.Parameter — survives the substitution of the saved value: the key is kept from
    # the specification or copied from the checkpoint record (which carries both)
    for k in ('dtype', 'nn'):
        reaches = k in kept or any(dst == k for dst, _ in copied)
        rep.check('C17.E', f"update_parameters::{k}-survives-the-substitution", reaches, where(um, up), {'kept': sorted(kept), 'copied': sorted(d for d, _ in copied)},
                  f"update_parameters neither keeps '{k}' of the specification nor copies it from the checkpoint: the parameter is rebuilt without it "
                  + ("(an nn.Parameter comes back as a plain tensor: modules that register it no longer see it)" if k == 'nn' else "(the saved values are read at the default precision)"))
    for k in sorted(kept):
        if k in ('id', 'type'):
            continue
        rep.check('C17.E', f"update_parameters::kept-{k}", k in read_by_param, where(um, up), {'kept': sorted(kept)},
                  f"update_parameters keeps key '{k}' which Parameter.from_json does not read")
    # dtype fidelity: the checkpointed dtype must win over the spec's. update_parameters keeps the spec's dtype;
    # report which one reaches from_json (informational fact, not an obligation)
    # TensorEncoder / TensorDecoder
    te = ctx.classes.get('torchtree.core.utils.TensorEncoder')
    td = ctx.classes.get('torchtree.core.utils.TensorDecoder')
    tw = None
    for n in ast.walk(te.resolve('default')[1]):
        if isinstance(n, ast.Assign) and isinstance(n.value, ast.Dict):
            tw = dict_literal_keys(n.value)
            twnode = n
    if tw is None:
        raise AnalysisError('TensorEncoder record literal not found')
    written = set(tw)
    for n in ast.walk(te.resolve('default')[1]):
        if isinstance(n, ast.Assign) and isinstance(n.targets[0], ast.Subscript) and isinstance(n.targets[0].slice, ast.Constant):
            written.add(n.targets[0].slice.value)
    hook = td.resolve('object_hook')[1]
    dread = {n.slice.value for n in ast.walk(hook) if isinstance(n, ast.Subscript) and isinstance(n.slice, ast.Constant)
             and isinstance(n.slice.value, str)}
    ttag = tw.get('type')
    dtag = {c.value for n in ast.walk(hook) if isinstance(n, ast.Compare) for c in n.comparators if isinstance(c, ast.Constant)
            and isinstance(c.value, str) and '.' in c.value}
    rep.check('C17.E', 'TensorDecoder::tag', isinstance(ttag, ast.Constant) and ttag.value in dtag, where(td.module, hook),
              {'encoder_tag': getattr(ttag, 'value', None), 'decoder_tags': sorted(dtag)},
              "TensorDecoder does not recognise the tag TensorEncoder writes: tensors inside algorithm state come back as dicts")
    rep.check('C17.E', 'TensorDecoder::keys', dread - {'type'} <= written and {'values', 'dtype'} <= dread, where(td.module, hook),
              {'written': sorted(written), 'read': sorted(dread)},
              "TensorDecoder reads keys TensorEncoder does not write (or ignores values/dtype)")
    # save_full_state records
    n_sfs = 0
    for ci in ctx.classes.classes.values():
        if 'save_full_state' not in ci.methods:
            continue
        fn = ci.methods['save_full_state']
        lits = [n for n in ast.walk(fn) if isinstance(n, ast.Dict)]
        key = f"{ci.qualname}::save_full_state"
        n_sfs += 1
        if not lits:
            rep.undecided('C17.E', key, where(ci.module, fn), 'state record literal not found')
            continue
        d = dict_literal_keys(lits[0])
        t = d.get('type')
        idv = d.get('id')
        ok = isinstance(t, ast.Constant) and t.value not in accepted_main and idv is not None and ast.unparse(idv) in ('self.id', 'self._id')
        ok = ok and ci.resolve('load_state_dict') is not None
        merges = any(isinstance(n, ast.Call) and isinstance(n.func, ast.Attribute) and n.func.attr == 'update'
                     and any(isinstance(a, ast.Call) and self_attr(a.func) == 'state_dict' for a in n.args) for n in ast.walk(fn))
        rep.check('C17.E', key, ok and merges, where(ci.module, fn),
                  {'record': {k: ast.unparse(v) for k, v in d.items()}, 'merges_state_dict': merges},
                  f"{ci.name}.save_full_state record must carry id=self.id, a non-parameter type, and self.state_dict(): main() routes it by id to load_state_dict")
    if n_sfs < 2:
        raise AnalysisError('save_full_state writers not found')


def check_main_accumulates(ctx, rep):
    """main(): the tables built from the checkpoint files (parameter records / algorithm-state records) must accumulate
    over all -c files: the table consulted for load_state_dict is created before the loop over the files and is
    never re-bound inside it."""
    mainm = ctx.prog.module('torchtree.torchtree')
    fn = mainm.functions.get('main')
    loads = [n for n in ast.walk(fn) if isinstance(n, ast.Call) and isinstance(n.func, ast.Attribute) and n.func.attr == 'load_state_dict']
    if not loads:
        raise AnalysisError('main(): load_state_dict call not found')
    table = None
    for c in loads:
        for a in c.args:
            if isinstance(a, ast.Subscript) and isinstance(a.value, ast.Name):
                table = a.value.id
    if table is None:
        rep.undecided('C17.E', 'main::state-table', where(mainm, loads[0]), 'argument of load_state_dict is not a table lookup')
        return
    file_loops = [n for n in ast.walk(fn) if isinstance(n, ast.For) and any(isinstance(x, ast.Attribute) and x.attr == 'checkpoint' for x in ast.walk(n.iter))]
    if not file_loops:
        raise AnalysisError('main(): loop over the checkpoint files not found')
    rebinds = []
    for lp in file_loops:
        for n in ast.walk(lp):
            if isinstance(n, ast.Assign):
                for t in n.targets:
                    for e in (t.elts if isinstance(t, (ast.Tuple, ast.List)) else [t]):
                        if isinstance(e, ast.Name) and e.id == table:
                            rebinds.append(n)
    rep.check('C17.E', 'main::state-table-accumulates', not rebinds, where(mainm, rebinds[0] if rebinds else fn), {'table': table},
              f"main() re-binds `{table}` inside the loop over the checkpoint files: with several -c files only the algorithm state of the last file is restored")


def check_reader_discipline(ctx, rep, classes):
    """C17.F: what a reader hands to <obj>.load_state_dict derives from the saved state only (not from the current
    object's own state).  C17.S: a reader never re-binds an attribute that the constructor injected and that carries
    identity (parameters, models, in-package objects): other holders keep the old object."""
    from sa.members import Kinds, PARAM, MODEL
    kinds = Kinds(ctx.classes)
    for cls in classes:
        for nm in READERS:
            r = cls.resolve(nm)
            if r is None or any((dotted_name(d) or '').endswith('abstractmethod') for d in r[1].decorator_list):
                continue
            defcls, fn = r
            if len(fn.args.args) < 2:
                continue
            state = fn.args.args[1].arg
            defs: Dict[str, List[ast.AST]] = {}
            for st in ast.walk(fn):
                if isinstance(st, ast.Assign):
                    for t in st.targets:
                        base = t.value if isinstance(t, ast.Subscript) else t
                        if isinstance(base, ast.Name):
                            defs.setdefault(base.id, []).append(st.value)

            def slice_exprs(e, seen):
                out = [e]
                for x in ast.walk(e):
                    if isinstance(x, ast.Name) and x.id in defs and x.id not in seen:
                        seen.add(x.id)
                        for v in defs[x.id]:
                            out += slice_exprs(v, seen)
                return out
            for c in ast.walk(fn):
                if isinstance(c, ast.Call) and isinstance(c.func, ast.Attribute) and c.func.attr in READERS and c.args \
                        and not (isinstance(c.func.value, ast.Name) and c.func.value.id == 'self'):
                    exprs = slice_exprs(c.args[0], set())
                    fresh = [x for e in exprs for x in ast.walk(e) if isinstance(x, ast.Call) and isinstance(x.func, ast.Attribute)
                             and x.func.attr in WRITERS]
                    key = f"{cls.qualname}::{ast.unparse(c.func.value)}.{c.func.attr}"
                    rep.check('C17.F', key, not fresh, where(defcls.module, fresh[0] if fresh else c), None,
                              f"{cls.name}.{nm} mixes the current state ({ast.unparse(fresh[0])[:60] if fresh else ''}) into what it hands to "
                              f"{ast.unparse(c.func.value)}.{c.func.attr}: that part of the checkpoint is discarded on restart")
            # C17.S
            injected = {}
            for c2 in cls.internal_mro():
                init = c2.methods.get('__init__')
                if init is None:
                    continue
                for st in ast.walk(init):
                    if isinstance(st, ast.Assign) and isinstance(st.value, ast.Name):
                        for t in st.targets:
                            a = self_attr(t)
                            if a:
                                for arg in init.args.args + init.args.kwonlyargs:
                                    if arg.arg == st.value.id:
                                        injected[a] = (c2, arg)
            for st in ast.walk(fn):
                if isinstance(st, ast.Assign):
                    for t in st.targets:
                        a = self_attr(t)
                        if a and a in injected:
                            c2, arg = injected[a]
                            ks = kinds.annotation_kinds(c2.module, arg.annotation)
                            target = ctx.classes.resolve_class_expr(c2.module, arg.annotation) if arg.annotation is not None and not isinstance(arg.annotation, ast.Subscript) else None
                            identity = bool(ks & {PARAM, MODEL}) or (target is not None)
                            key = f"{cls.qualname}::self.{a}"
                            rep.check('C17.S', key, not identity, where(defcls.module, st), {'annotation': ast.unparse(arg.annotation) if arg.annotation else None},
                                      f"{cls.name}.{nm} re-binds self.{a}, an object injected by the constructor and shared with other holders "
                                      f"(adaptors, operators, models): they keep updating/reading the old object after a restart; restore into it instead")


def check_foreign(ctx, rep, classes):
    """value `self.<a>.state_dict()` where <a> is annotated as a torch optimiser, stored under a key that the reader
    passes unchanged to `self.<a>.load_state_dict(state[key])`."""
    n = 0
    for cls in classes:
        try:
            W = writer_keys(ctx, cls, top_writer(cls))
        except Unsupported:
            continue
        for k, ws in W.items():
            v = ws[0].value
            if not (isinstance(v, ast.Call) and isinstance(v.func, ast.Attribute) and v.func.attr == 'state_dict'):
                continue
            p = attr_path(v.func.value)
            if not p or len(p) != 1:
                continue
            ann = None
            for c in cls.internal_mro():
                init = c.methods.get('__init__')
                if init:
                    for a in init.args.args:
                        if a.arg == p[0] and a.annotation is not None:
                            ann = ctx.prog.resolve_name(c.module, dotted_name(a.annotation) or '')
            if ann is None or not ann.startswith('torch.optim') or 'lr_scheduler' in ann:
                continue
            n += 1
            rfn = cls.resolve(top_reader(cls))
            state = [a.arg for a in rfn[1].args.args][1]
            direct = None
            # local definitions (name -> value expressions, including subscript stores into the name)
            defs: Dict[str, List[ast.AST]] = {}
            for st in ast.walk(rfn[1]):
                if isinstance(st, ast.Assign):
                    for t in st.targets:
                        base = t.value if isinstance(t, ast.Subscript) else t
                        if isinstance(base, ast.Name):
                            defs.setdefault(base.id, []).append(st.value)

            def slice_exprs(e, seen):
                out = [e]
                for nme in [x for x in ast.walk(e) if isinstance(x, ast.Name)]:
                    if nme.id in defs and nme.id not in seen:
                        seen.add(nme.id)
                        for v in defs[nme.id]:
                            out += slice_exprs(v, seen)
                return out

            for c in ast.walk(rfn[1]):
                if isinstance(c, ast.Call) and isinstance(c.func, ast.Attribute) and c.func.attr == 'load_state_dict' \
                        and attr_path(c.func.value) == p and c.args:
                    exprs = slice_exprs(c.args[0], set())
                    from_state = any(isinstance(x, ast.Subscript) and isinstance(x.value, ast.Name) and x.value.id == state
                                     and isinstance(x.slice, ast.Constant) and x.slice.value == k
                                     for e in exprs for x in ast.walk(e))
                    rekeyed = any(isinstance(x, ast.DictComp) and any(isinstance(y, ast.Call) and dotted_name(y.func) == 'int'
                                                                       for y in ast.walk(x.key))
                                  for e in exprs for x in ast.walk(e))
                    if from_state and not rekeyed:
                        direct = c
            key = f"{cls.qualname}::{k}"
            rep.check('C17.J', key, direct is None, where(rfn[0].module, direct or rfn[1]),
                      {'attribute': p[0], 'annotation': ann, 'key': k},
                      f"{cls.name} writes self.{p[0]}.state_dict() (a {ann}: per-parameter state keyed by int) to JSON and passes the parsed "
                      f"object (keys now strings) straight to self.{p[0]}.load_state_dict: the optimiser moments are not matched to any parameter")
    rep.analysed['foreign_state_sites'] = n
