"""C07 — every change of variables reports its true log-Jacobian and inverse.

Abstract domain *Jacobian kind*: the forward map of every bijective Transform is parsed into a
chain of primitives applied to x; each primitive is Unit (volume preserving: cumsum, adding a
function of earlier coordinates, signed incidence maps) or Diag(g) (element-wise g).  The
reported log-determinant, and the inverse, are compared with what the chain implies.
"""
from __future__ import annotations

import ast
from typing import Dict, List, Optional, Tuple

from sa.cfg import CFG
from sa.loader import AnalysisError, Unsupported, dotted_name, norm_text
from sa.members import self_attr
from sa.poly import Rat, ToRat
from sa.report import where
from sa.util import local_assignments, method_calls

TRANSFORM = 'torch.distributions.Transform'
ELEMENTWISE = {'exp', 'log', 'softplus', 'expm1', 'sigmoid', 'log1p'}
INVERSE_OF = {'exp': ['log'], 'log': ['exp'], 'softplus': ['expm1', 'log'], 'cumsum': ['diff'], 'diff': ['cumsum']}


def method_name(call: ast.Call) -> str:
    return (dotted_name(call.func) or (call.func.attr if isinstance(call.func, ast.Attribute) else '')).split('.')[-1]


def parse_chain(e: ast.AST, arg: str, defs: Dict[str, List[ast.AST]], depth=0) -> List[str]:
    """primitives applied to `arg`, innermost first.  Raises Unsupported outside the vocabulary."""
    if depth > 12:
        raise Unsupported(e, 'chain too deep')
    if isinstance(e, ast.Name):
        if e.id == arg:
            return []
        if e.id in defs and len(defs[e.id]) == 1:
            return parse_chain(defs[e.id][0], arg, defs, depth + 1)
        raise Unsupported(e, f"name {e.id} is not a function of the argument")
    if isinstance(e, ast.Call):
        nm = method_name(e)
        # method form x.f(...)  /  function form f(x, ...)
        if isinstance(e.func, ast.Attribute) and not (isinstance(e.func.value, ast.Name) and e.func.value.id in ('torch', 'F', 'math')) \
                and dotted_name(e.func.value) not in ('torch.nn.functional',):
            inner = e.func.value
            args = e.args
        else:
            if not e.args:
                raise Unsupported(e, 'call without argument')
            inner = e.args[0]
            args = e.args[1:]
        if nm in ELEMENTWISE:
            return parse_chain(inner, arg, defs, depth + 1) + [nm]
        if nm == 'cumsum':
            return parse_chain(inner, arg, defs, depth + 1) + ['cumsum']
        if nm in ('clone', 'contiguous', 'detach'):
            return parse_chain(inner, arg, defs, depth + 1)
        if nm == 'cat':
            # first difference: cat((z[..., :1], z[..., 1:] - z[..., :-1]), -1)
            t = e.args[0] if e.args else None
            if isinstance(t, (ast.Tuple, ast.List)) and len(t.elts) == 2:
                a, b = t.elts
                if isinstance(b, ast.BinOp) and isinstance(b.op, ast.Sub) and all(isinstance(x, ast.Subscript) for x in (a, b.left, b.right)):
                    base = ast.unparse(a.value)
                    if ast.unparse(b.left.value) == base and ast.unparse(b.right.value) == base:
                        sl = [ast.unparse(x.slice).replace(' ', '') for x in (a, b.left, b.right)]
                        if sl == ['(...,slice(None,1,None))', '(...,slice(1,None,None))', '(...,slice(None,-1,None))'] or \
                                [s.replace('Ellipsis', '...') for s in sl] == ['(...,:1)', '(...,1:)', '(...,:-1)'] or \
                                [ast.unparse(x.slice) for x in (a, b.left, b.right)] == ['(..., :1)', '(..., 1:)', '(..., :-1)']:
                            return parse_chain(a.value, arg, defs, depth + 1) + ['diff']
                        if [ast.unparse(x.slice) for x in (a, b.left, b.right)] == ['(..., :1)', '(..., :-1)', '(..., 1:)']:
                            return parse_chain(a.value, arg, defs, depth + 1) + ['negated-diff']
            raise Unsupported(e, 'concatenation not understood')
        raise Unsupported(e, f"primitive {nm} outside the vocabulary")
    if isinstance(e, ast.BinOp) and isinstance(e.op, ast.Add):
        # z + 1.0 / 1.0 + z  (only as part of log(exp(z) + 1))
        for z, c in ((e.left, e.right), (e.right, e.left)):
            if isinstance(c, ast.Constant) and c.value in (1, 1.0):
                return parse_chain(z, arg, defs, depth + 1) + ['+1']
    raise Unsupported(e, f"expression {ast.unparse(e)[:50]} outside the vocabulary")


def canon(chain: List[str]) -> List[str]:
    out: List[str] = []
    for p in chain:
        out.append(p)
        if out[-3:] == ['exp', '+1', 'log']:
            out[-3:] = ['softplus']
        if out[-2:] == ['exp', 'log1p']:
            out[-2:] = ['softplus']
    return out


def expected_inverse(chain: List[str]) -> List[str]:
    out: List[str] = []
    for p in reversed(chain):
        out += INVERSE_OF[p]
    return out


def single_return(fn: ast.FunctionDef) -> Optional[ast.AST]:
    rets = [n for n in ast.walk(fn) if isinstance(n, ast.Return)]
    if len(rets) == 1:
        return rets[0].value
    return None


def always_raises(fn: ast.FunctionDef) -> bool:
    c = CFG(fn)
    return c.exit.id not in c.reachable(c.entry)


def is_zeros(e) -> bool:
    return isinstance(e, ast.Call) and method_name(e) in ('zeros', 'zeros_like')


def logdet_matches(chain: List[str], e: ast.AST, x: str, y: str, defs) -> Tuple[bool, str]:
    """does expression e equal Σ log|g'| for the chain?  Accepted normal forms per chain."""
    txt = ast.unparse(e).replace(' ', '')
    c = canon(chain)
    elem = [p for p in c if p in ELEMENTWISE]
    if not elem:
        return is_zeros(e), 'zeros (volume preserving chain)'
    summed = 'cumsum' in c or 'diff' in c  # event dimension 1: must sum over the last axis
    if c == ['log']:
        ok = txt in (f"-{y}", f"-{x}.log()", f"-torch.log({x})")
        return ok, '−y  (= −log x)'
    if c == ['exp']:
        return txt in (x, f"{y}.log()", f"torch.log({y})"), 'x (= log y)'
    if c == ['softplus']:
        ok = txt in (f"-softplus(-{x})", f"-torch.nn.functional.softplus(-{x})", f"-F.softplus(-{x})", f"logsigmoid({x})", f"torch.nn.functional.logsigmoid({x})", f"F.logsigmoid({x})")
        return ok, '−softplus(−x) (= log sigmoid x)'
    if c == ['cumsum', 'exp']:
        forms = (f"{x}.cumsum(-1).sum(-1)", f"{y}.log().sum(-1)", f"torch.log({y}).sum(-1)", f"torch.cumsum({x},-1).sum(-1)")
        if txt in forms:
            return True, 'Σ cumsum(x) (= Σ log y)'
        return False, 'Σ cumsum(x) (= Σ log y)'
    if c == ['cumsum', 'softplus']:
        forms = (f"-softplus(-{x}.cumsum(-1)).sum(-1)", f"logsigmoid({x}.cumsum(-1)).sum(-1)", f"torch.nn.functional.logsigmoid({x}.cumsum(-1)).sum(-1)",
                 f"-torch.nn.functional.softplus(-{x}.cumsum(-1)).sum(-1)", f"-softplus(-torch.cumsum({x},-1)).sum(-1)")
        return txt in forms, 'Σ log sigmoid(cumsum x)'
    return False, f"chain {c} has no accepted normal form"


def autograd_form(fn: ast.FunctionDef, x: str) -> Optional[dict]:
    """log-det computed as log of the diagonal of autograd's jacobian of a nested function."""
    inner = [n for n in fn.body if isinstance(n, ast.FunctionDef)]
    jac = [c for c in ast.walk(fn) if isinstance(c, ast.Call) and method_name(c) == 'jacobian']
    if not inner or not jac:
        return None
    f = inner[0]
    farg = f.args.args[0].arg
    ret = single_return(f)
    chain = canon(parse_chain(ret, farg, local_assignments(f)))
    # every returned expression is  diagonal(jacobian).log().sum()  (possibly stacked over a batch)
    rets = [n.value for n in ast.walk(fn) if isinstance(n, ast.Return) and _enclosing_fn(n) is fn]
    ok = bool(rets)
    for r in rets:
        names = {method_name(c) for c in ast.walk(r) if isinstance(c, ast.Call)}
        ok = ok and {'log', 'sum'} <= names and ({'diagonal'} & names or {'diag'} & names)
        # the log is applied to the diagonal, the sum to the log
        for c in ast.walk(r):
            if isinstance(c, ast.Call) and method_name(c) == 'log':
                inner = c.func.value if isinstance(c.func, ast.Attribute) and not c.args else (c.args[0] if c.args else None)
                ok = ok and inner is not None and any(isinstance(d, ast.Call) and method_name(d) in ('diagonal', 'diag') for d in ast.walk(inner))
    # the function differentiated is the nested one, at x
    ok = ok and all(c.args and isinstance(c.args[0], ast.Name) and c.args[0].id == f.name for c in jac)
    return {'chain': chain, 'diag_log_sum': bool(ok), 'calls': jac}


def _ancestors_calls(n):
    p = getattr(n, '_parent', None)
    while p is not None and not isinstance(p, ast.stmt):
        if isinstance(p, ast.Call):
            yield p
        if isinstance(p, ast.Attribute):
            pp = getattr(p, '_parent', None)
            if isinstance(pp, ast.Call):
                yield pp
        p = getattr(p, '_parent', None)


# ---------------------------------------------------------------------------
def check_generic(ctx, rep):
    classes = [c for c in ctx.classes.classes.values() if c.has_base(TRANSFORM) and c.qualname.startswith('torchtree.')]
    if len(classes) < 10:
        raise AnalysisError(f"only {len(classes)} Transform subclasses found")
    decided = 0
    for cls in sorted(classes, key=lambda c: c.qualname):
        bij = cls.class_attrs.get('bijective')
        W = where(cls.module, cls.node)
        if not (isinstance(bij, ast.Constant) and bij.value is True):
            rep.excluded('C07.I', cls.qualname, W, 'not declared bijective')
            continue
        call = cls.resolve('_call')
        inv = cls.resolve('_inverse')
        ld = cls.resolve('log_abs_det_jacobian')
        if call is None or inv is None or ld is None:
            rep.bad('C07.I', cls.qualname, W, None, f"{cls.name} is declared bijective but lacks _call/_inverse/log_abs_det_jacobian")
            continue
        x = call[1].args.args[1].arg
        try:
            chain = canon(parse_chain(single_return(call[1]), x, local_assignments(call[1])))
        except (Unsupported, AttributeError, TypeError) as u:
            chain = None
            why = str(u)
        inv_raises = always_raises(inv[1])
        ld_raises = always_raises(ld[1])
        if chain is None:
            # tree-indexed / structured maps are handled by dedicated rules below
            rep.excluded('C07.L', cls.qualname, W, f"forward map outside the primitive-chain vocabulary ({why[:60]}); see dedicated rules")
            continue
        facts = {'forward_chain': chain}
        decided += 1
        # inverse
        if inv_raises:
            rep.excluded('C07.I', cls.qualname, where(cls.module, inv[1]), 'inverse unconditionally raises NotImplementedError (nothing is reported)')
        else:
            y = inv[1].args.args[1].arg
            try:
                ichain = canon(parse_chain(single_return(inv[1]), y, local_assignments(inv[1])))
                want = expected_inverse(chain)
                rep.check('C07.I', cls.qualname, ichain == want, where(cls.module, inv[1]), {**facts, 'inverse_chain': ichain, 'expected': want},
                          f"{cls.name}: forward map is {' ∘ '.join(reversed(chain)) or 'identity'} so the inverse must be {' ∘ '.join(reversed(want))}; "
                          f"_inverse computes {' ∘ '.join(reversed(ichain))}: inv(forward(x)) ≠ x")
            except Unsupported as u:
                rep.undecided('C07.I', cls.qualname, where(cls.module, inv[1]), str(u))
        # log-det
        if ld_raises:
            rep.excluded('C07.L', cls.qualname, where(cls.module, ld[1]), 'log_abs_det_jacobian unconditionally raises NotImplementedError')
            continue
        lx, ly = ld[1].args.args[1].arg, ld[1].args.args[2].arg
        volume_preserving = not [p for p in chain if p in ELEMENTWISE]
        rets = [n.value for n in ast.walk(ld[1]) if isinstance(n, ast.Return) and getattr(n, '_parent', None) is not None
                and not isinstance(_enclosing_fn(n), ast.FunctionDef) or isinstance(n, ast.Return) and _enclosing_fn(n) is ld[1]]
        zero = bool(rets) and all(is_zeros(r) for r in rets)
        rep.check('C07.Z', cls.qualname, zero == volume_preserving, where(cls.module, ld[1]), {**facts, 'returns_zeros': zero},
                  (f"{cls.name}.log_abs_det_jacobian returns zeros but the forward map {' ∘ '.join(reversed(chain))} contains the element-wise "
                   f"{[p for p in chain if p in ELEMENTWISE]}: it is not volume preserving" if zero else
                   f"{cls.name}: forward map is volume preserving but a non-zero log-determinant is reported"))
        if volume_preserving:
            continue
        ag = None
        try:
            ag = autograd_form(ld[1], lx)
        except Unsupported as u:
            rep.undecided('C07.L', cls.qualname, where(cls.module, ld[1]), str(u))
            continue
        if ag is not None:
            ok = ag['chain'] == chain and ag['diag_log_sum']
            rep.check('C07.L', cls.qualname, ok, where(cls.module, ld[1]), {**facts, 'autograd_inner_chain': ag['chain']},
                      f"{cls.name}.log_abs_det_jacobian differentiates {' ∘ '.join(reversed(ag['chain']))} but _call computes {' ∘ '.join(reversed(chain))} "
                      f"(or does not take log of the Jacobian's diagonal)")
            continue
        if len(rets) != 1:
            rep.undecided('C07.L', cls.qualname, where(cls.module, ld[1]), 'several return expressions')
            continue
        ok, form = logdet_matches(chain, rets[0], lx, ly, local_assignments(ld[1]))
        rep.check('C07.L', cls.qualname, ok, where(cls.module, ld[1]), {**facts, 'returned': norm_text(rets[0]), 'expected_form': form},
                  f"{cls.name}: forward map {' ∘ '.join(reversed(chain))} has log|det J| = {form}; log_abs_det_jacobian returns `{norm_text(rets[0])}`")
    if decided < 5:
        raise AnalysisError(f"only {decided} transforms decided by the chain analysis")


def _enclosing_fn(n):
    p = getattr(n, '_parent', None)
    while p is not None and not isinstance(p, (ast.FunctionDef, ast.Lambda)):
        p = getattr(p, '_parent', None)
    return p


# ---------------------------------------------------------------------------
def check_general_height(ctx, rep):
    cls = ctx.classes.get('torchtree.evolution.tree_height_transform.GeneralNodeHeightTransform')
    call = cls.resolve('_call')[1]
    ld = cls.resolve('log_abs_det_jacobian')[1]
    W = where(cls.module, ld)
    x = call.args.args[1].arg
    # forward update  h[id] = b[id] + x[id] * (h[parent] - b[id])
    loops = [n for n in ast.walk(call) if isinstance(n, ast.For)]
    if len(loops) != 1 or not isinstance(loops[0].target, ast.Tuple) or len(loops[0].target.elts) != 2:
        raise Unsupported(call, 'forward loop over (parent, child) pairs not found')
    parent, child = (e.id for e in loops[0].target.elts)
    upd = [st for st in loops[0].body if isinstance(st, ast.Assign)]
    if len(upd) != 1:
        raise Unsupported(loops[0], 'single update statement expected')

    def atom(e):
        if isinstance(e, ast.Subscript):
            base = e.value
            idx = e.slice.elts[-1] if isinstance(e.slice, ast.Tuple) else e.slice
            if isinstance(idx, ast.Name) and idx.id in (parent, child) and isinstance(base, ast.Name):
                role = 'p' if idx.id == parent else 'c'
                return Rat.sym(f"{base.id}_{role}")
        return None
    val = ToRat(atom)(upd[0].value)
    tgt = upd[0].targets[0]
    tbase = tgt.value.id
    tidx = (tgt.slice.elts[-1] if isinstance(tgt.slice, ast.Tuple) else tgt.slice).id
    # identify symbols: ratio x_c, parent height <tbase>_p, bound b_c
    syms = val.symbols()
    xs = f"{x}_c"
    hp = f"{tbase}_p"
    bsyms = [s for s in syms if s not in (xs, hp)]
    ok = tidx == child and xs in syms and hp in syms and len(bsyms) == 1 and bsyms[0].endswith('_c')
    b = Rat.sym(bsyms[0]) if bsyms else None
    if ok:
        want = b + Rat.sym(xs) * (Rat.sym(hp) - b)
        ok = val.equals(want)
    rep.check('C07.G', 'GeneralNodeHeightTransform._call::update-form', ok, where(cls.module, upd[0]), {'update': norm_text(upd[0]), 'value': repr(val)},
              "forward map must be h[child] = bound[child] + ratio[child]·(h[parent] − bound[child]) (a convex combination of bound and parent height)")
    if not ok:
        return
    d = val.diff(xs)  # diagonal of the triangular Jacobian
    # log-det: log(y[..., det_indices] - bounds[taxa:-1]).sum(-1)
    ret = single_return(ld)
    ly = ld.args.args[2].arg
    form_ok = False
    facts = {'d_forward/d_ratio': repr(d), 'returned': norm_text(ret) if ret is not None else None}
    if isinstance(ret, ast.Call) and method_name(ret) == 'sum' and isinstance(ret.func, ast.Attribute):
        inner = ret.func.value
        if isinstance(inner, ast.Call) and method_name(inner) == 'log' and inner.args and isinstance(inner.args[0], ast.BinOp) and isinstance(inner.args[0].op, ast.Sub):
            left, right = inner.args[0].left, inner.args[0].right
            left_ok = isinstance(left, ast.Subscript) and isinstance(left.value, ast.Name) and left.value.id == ly and any(
                self_attr(n) == '_det_indices' for n in ast.walk(left.slice))
            right_ok = isinstance(right, ast.Subscript) and self_attr(right.value) == '_bounds'
            sl = right.slice if isinstance(right, ast.Subscript) else None
            slice_ok = isinstance(sl, ast.Slice) and sl.upper is not None and ast.unparse(sl.upper) == '-1' and sl.lower is not None and 'taxa_count' in ast.unparse(sl.lower)
            axis_ok = ret.args and ast.unparse(ret.args[0]) == '-1'
            form_ok = left_ok and right_ok and slice_ok and bool(axis_ok)
    # the derivative is (parent height − bound): matches y[parent-of-i] − bound[i]
    deriv_ok = d.equals(Rat.sym(hp) - b)
    rep.check('C07.G', 'GeneralNodeHeightTransform.log_abs_det_jacobian::sum-log(parent-height-minus-bound)', form_ok and deriv_ok, W, facts,
              "the Jacobian of the ratio transform is triangular in pre-order with diagonal ∂h_i/∂r_i = h_parent(i) − bound_i; the log-determinant must be "
              "Σ log(y[parent of i] − bound[i]) over the non-root internal nodes")
    # _det_indices = parents (row 0) ordered by child id (row 1), internal children only, shifted by taxa_count
    si = cls.resolve('sort_indices')[1]
    st = [s for s in ast.walk(si) if isinstance(s, ast.Assign) and any(self_attr(t) == '_det_indices' for t in s.targets)]
    ok = False
    if st:
        txt = ast.unparse(st[0].value).replace(' ', '')
        ok = 'argsort(self.tree.preorder[...,1])' in txt and '.t()[0,self.taxa_count:]' in txt and txt.endswith('-self.taxa_count')
    rep.check('C07.G', 'GeneralNodeHeightTransform.sort_indices::det-indices-are-parents-by-child', ok, where(cls.module, si), {'definition': norm_text(st[0].value) if st else None},
              "_det_indices must be the parent ids (column 0 of the pre-order table) ordered by child id (column 1), internal children only, minus taxa_count")


def check_difference_height(ctx, rep):
    cls = ctx.classes.get('torchtree.evolution.tree_height_transform.DifferenceNodeHeightTransform')
    call = cls.resolve('_call')[1]
    inv = cls.resolve('_inverse')[1]
    ld = cls.resolve('log_abs_det_jacobian')[1]
    x = call.args.args[1].arg
    loops = [n for n in ast.walk(call) if isinstance(n, ast.For)]
    ok = False
    if len(loops) == 1 and isinstance(loops[0].target, ast.Tuple) and len(loops[0].target.elts) == 3:
        node, left, right = (e.id for e in loops[0].target.elts)
        upd = [st for st in loops[0].body if isinstance(st, ast.Assign)]
        if len(upd) == 1 and isinstance(upd[0].value, ast.BinOp) and isinstance(upd[0].value.op, ast.Add):
            a, b = upd[0].value.left, upd[0].value.right
            agg, inc = (a, b) if any(isinstance(n, ast.Name) and n.id == x for n in ast.walk(b)) else (b, a)
            children = {n.id for n in ast.walk(agg) if isinstance(n, ast.Name)} & {left, right}
            own = any(isinstance(n, ast.Name) and n.id == node for n in ast.walk(inc)) and not ({n.id for n in ast.walk(inc) if isinstance(n, ast.Name)} & {left, right})
            no_x_in_agg = not any(isinstance(n, ast.Name) and n.id == x for n in ast.walk(agg))
            is_max = any(isinstance(c, ast.Call) and (self_attr(c.func) == 'max' or method_name(c) in ('max', 'maximum')) for c in ast.walk(agg))
            ok = children == {left, right} and own and no_x_in_agg and is_max
    rep.check('C07.Z', 'DifferenceNodeHeightTransform._call::height = aggregate(children) + own increment', ok, where(cls.module, call), None,
              "forward map must be h[node] = max(h[left], h[right]) + x[node]: each height is its own increment plus a function of earlier (child) heights, "
              "i.e. unit-triangular in post-order, which is what the reported zero log-determinant claims")
    rets = [n.value for n in ast.walk(ld) if isinstance(n, ast.Return)]
    rep.check('C07.Z', 'DifferenceNodeHeightTransform.log_abs_det_jacobian::zeros', bool(rets) and all(is_zeros(r) for r in rets), where(cls.module, ld), None,
              "increment transform is volume preserving: log-determinant must be zero")
    # inverse: h[node] - aggregate(children), same aggregator family under the same k discriminator
    iloops = [n for n in ast.walk(inv) if isinstance(n, ast.For)]
    ok = bool(iloops)
    kinds = []
    for lp in iloops:
        if not (isinstance(lp.target, ast.Tuple) and len(lp.target.elts) == 3):
            ok = False
            continue
        node, left, right = (e.id for e in lp.target.elts)
        upd = [st for st in lp.body if isinstance(st, ast.Assign)]
        if len(upd) != 1 or not (isinstance(upd[0].value, ast.BinOp) and isinstance(upd[0].value.op, ast.Sub)):
            ok = False
            continue
        lhs, rhs = upd[0].value.left, upd[0].value.right
        own = {n.id for n in ast.walk(lhs) if isinstance(n, ast.Name)} & {node, left, right} == {node}
        children = {n.id for n in ast.walk(rhs) if isinstance(n, ast.Name)} & {node, left, right} == {left, right}
        fam = 'smooth' if any(isinstance(c, ast.Call) and method_name(c) == 'logsumexp' for c in ast.walk(rhs)) else \
            ('max' if any(isinstance(c, ast.Call) and method_name(c) in ('max', 'maximum') for c in ast.walk(rhs)) else '?')
        kinds.append(fam)
        ok = ok and own and children and fam != '?'
        if fam == 'smooth':
            # logsumexp(k*h)/k : the same k multiplies the heights and divides the result
            ks = [n for n in ast.walk(rhs) if self_attr(n) == 'k']
            ok = ok and len(ks) >= 3 and isinstance(rhs, ast.BinOp) and isinstance(rhs.op, ast.Div) and self_attr(rhs.right) == 'k'
    # the branch on k must match the constructor's discriminator (k <= 0 -> hard max)
    init = cls.resolve('__init__')[1]
    disc_init = [n for n in ast.walk(init) if isinstance(n, ast.If) and any(self_attr(a) == 'k' for a in ast.walk(n.test))]
    disc_inv = [n for n in ast.walk(inv) if isinstance(n, ast.If) and any(self_attr(a) == 'k' for a in ast.walk(n.test))]
    agree = False
    if disc_init and disc_inv:
        ti, tv = disc_init[0], disc_inv[0]
        hard_first_init = any(isinstance(c, ast.Call) and method_name(c) == 'max' and not self_attr(c.func) for c in ast.walk(ast.Module(body=ti.body, type_ignores=[])))
        smooth_first_inv = any(isinstance(c, ast.Call) and method_name(c) == 'logsumexp' for c in ast.walk(ast.Module(body=tv.body, type_ignores=[])))
        ti_txt, tv_txt = ast.unparse(ti.test).replace(' ', ''), ast.unparse(tv.test).replace(' ', '')
        # init: `k <= 0` -> hard ; inverse: `k > 0` -> smooth   (complementary tests)
        comp = {('self.k<=0', 'self.k>0'), ('self.k>0', 'self.k>0'), ('self.k<=0', 'self.k<=0')}
        agree = (ti_txt, tv_txt) in comp and ((ti_txt == 'self.k<=0') == hard_first_init) and ((tv_txt == 'self.k>0') == smooth_first_inv)
    rep.check('C07.I', 'DifferenceNodeHeightTransform._inverse::own height minus aggregate(children)', ok and sorted(set(kinds)) == ['max', 'smooth'] and agree,
              where(cls.module, inv), {'aggregators': kinds, 'discriminators_agree': agree},
              "inverse must be x[node] = h[node] − aggregate(h[left], h[right]) with the hard max for k ≤ 0 and logsumexp(k·h)/k for k > 0, the same switch as the forward map")


def check_log_difference_inverse(ctx, rep):
    """C07.I (addition) — forward: y_k = log r[child_k] − log r[parent_k] with k the POSITION of the (parent, child) row in the pre-order table (`rates[..., indices[1]] −
    rates[..., indices[0]]`).  An inverse, once it exists, reads y at that position: in a loop over the pre-order table the entries of y are addressed by the loop counter
    (enumerate / zip with a range), never by the node numbers of the row — y[node] is the difference of whichever branch sits at position `node` of the table."""
    cls = ctx.classes.get('torchtree.evolution.rate_transform.LogDifferenceRateTransform')
    r = cls.resolve('_inverse')
    key = 'LogDifferenceRateTransform._inverse::y-addressed-by-its-position-in-the-pre-order-table'
    if r is None or r[0] is not cls:
        rep.ok('C07.I', key, where(cls.module, cls.node) if hasattr(cls, 'node') else '', {'inverse': 'inherited / absent'})
        return
    inv = r[1]
    body = [b for b in inv.body if not (isinstance(b, ast.Expr) and isinstance(b.value, ast.Constant))]
    if len(body) == 1 and isinstance(body[0], ast.Raise):
        rep.ok('C07.I', key, where(cls.module, inv), {'inverse': 'raises NotImplementedError'})
        return
    y = inv.args.args[1].arg
    loops = [n for n in ast.walk(inv) if isinstance(n, (ast.For, ast.comprehension)) and 'preorder' in ast.unparse(n.iter)]
    if not loops:
        rep.undecided('C07.I', key, where(cls.module, inv), 'an inverse that does not walk the pre-order table is outside the rule')
        return
    bad = []
    for lp in loops:
        tgt = lp.target
        counter, rows = set(), set()
        if isinstance(lp.iter, ast.Call) and isinstance(lp.iter.func, ast.Name) and lp.iter.func.id == 'enumerate' and isinstance(tgt, ast.Tuple) and len(tgt.elts) == 2:
            counter |= {n.id for n in ast.walk(tgt.elts[0]) if isinstance(n, ast.Name)}
            rows |= {n.id for n in ast.walk(tgt.elts[1]) if isinstance(n, ast.Name)}
        else:
            rows |= {n.id for n in ast.walk(tgt) if isinstance(n, ast.Name)}
        scope = lp if isinstance(lp, ast.For) else getattr(lp, '_parent', lp)
        for sub in ast.walk(scope):
            if isinstance(sub, ast.Subscript) and isinstance(sub.value, ast.Name) and sub.value.id == y:
                used = {n.id for n in ast.walk(sub.slice) if isinstance(n, ast.Name)}
                if used & rows:
                    bad.append(sub)
    rep.check('C07.I', key, not bad, where(cls.module, bad[0] if bad else inv), {'loops_over_the_table': len(loops)},
              f"LogDifferenceRateTransform._inverse reads `{norm_text(bad[0])[:40] if bad else ''}`: y is laid out by the position of each (parent, child) row in the pre-order table, "
              f"the node number addresses the difference of another branch — inverse(forward(x)) ≠ x on every tree whose pre-order is not the identity")


def check_log_difference_rate(ctx, rep):
    cls = ctx.classes.get('torchtree.evolution.rate_transform.LogDifferenceRateTransform')
    call = cls.resolve('_call')[1]
    ld = cls.resolve('log_abs_det_jacobian')[1]
    x = call.args.args[1].arg
    lx, ly = ld.args.args[1].arg, ld.args.args[2].arg
    # forward: log of (x ⊕ 1) then child-minus-parent differences along the pre-order table
    defs = local_assignments(call)
    ret = single_return(call)
    ok_fwd = False
    if isinstance(ret, ast.BinOp) and isinstance(ret.op, ast.Sub) and isinstance(ret.left, ast.Subscript) and isinstance(ret.right, ast.Subscript):
        base_l, base_r = ast.unparse(ret.left.value), ast.unparse(ret.right.value)
        il, ir = ast.unparse(ret.left.slice), ast.unparse(ret.right.slice)
        src = defs.get(base_l, [None])[0] if base_l == base_r else None
        logged = src is not None and isinstance(src, ast.Call) and method_name(src) == 'log'
        ok_fwd = logged and 'indices[1]' in il and 'indices[0]' in ir and 'indices[0]' not in il
    rep.check('C07.L', 'LogDifferenceRateTransform._call::log-then-child-minus-parent', ok_fwd, where(cls.module, call), None,
              "forward map must be y_i = log r_i − log r_parent(i) (column 1 of the pre-order table minus column 0)")
    # Jacobian = (I − P)·diag(1/x): (I − P) is unit triangular in pre-order, so log|det| = −Σ log x_i, a function of x
    rets = [n.value for n in ast.walk(ld) if isinstance(n, ast.Return)]
    ok = False
    if len(rets) == 1:
        txt = ast.unparse(rets[0]).replace(' ', '')
        ok = txt in (f"-{lx}.log().sum(-1)", f"-torch.log({lx}).sum(-1)", f"-({lx}.log().sum(-1))", f"-{lx}.log().sum(dim=-1)")
    rep.check('C07.L', 'LogDifferenceRateTransform.log_abs_det_jacobian', ok, where(cls.module, ld), {'returned': norm_text(rets[0]) if rets else None},
              f"the map is log followed by the unit-triangular child-minus-parent incidence map, so log|det J| = −Σ log x_i; "
              f"`{norm_text(rets[0]) if rets else ''}` sums the differences y_i = log x_i − log x_parent(i) instead, which is a different number on every tree with more than two tips")


def check_callers(ctx, rep):
    for qual, meth, xattr in (('torchtree.core.parameter.TransformedParameter', '__call__', 'x'),
                              ('torchtree.evolution.tree_model.ReparameterizedTimeTreeModel', '_call', '_internal_heights')):
        cls = ctx.classes.get(qual)
        fn = cls.resolve(meth)[1]
        W = where(cls.module, fn)
        calls = method_calls(fn, 'log_abs_det_jacobian')
        key = f"{cls.name}.{meth}"
        if len(calls) != 1 or len(calls[0].args) != 2:
            rep.bad('C07.C', key, W, None, f"{key} must return transform.log_abs_det_jacobian(x, y)")
            continue
        c = calls[0]
        a0, a1 = c.args
        first_is_x = isinstance(a0, ast.Attribute) and a0.attr == 'tensor' and self_attr(a0.value) == xattr
        cached = self_attr(a1)
        # the cached value is assigned from self.transform(self.<x>.tensor) in the refresh method
        refresh_ok = False
        refresh_names = []
        for (nm, kind), (dc, k2, f2) in _resolved(cls).items():
            for st in ast.walk(f2):
                if isinstance(st, ast.Assign) and any(self_attr(t) == cached for t in st.targets) and isinstance(st.value, ast.Call) \
                        and self_attr(st.value.func) == 'transform' and st.value.args and isinstance(st.value.args[0], ast.Attribute) \
                        and st.value.args[0].attr == 'tensor' and self_attr(st.value.args[0].value) == xattr and nm != '__init__':
                    refresh_ok = True
                    refresh_names.append(nm)
        # stale-cache refresh dominates the call
        cfg = CFG(fn)
        st_call = c
        while not isinstance(st_call, ast.stmt):
            st_call = st_call._parent
        guards = [n for n in cfg.stmt_nodes() if n.kind == 'test' and isinstance(n.stmt, ast.If) and self_attr(n.stmt.test) is not None
                  and any(isinstance(x, ast.Call) and self_attr(x.func) in refresh_names for b in n.stmt.body for x in ast.walk(b))]
        dom = bool(guards) and cfg.dominates(guards[0], cfg.node_of(st_call))
        on_transform = self_attr(c.func.value) == 'transform'
        # the value returned is computed for the current (x, y) on every path: either the call lies on every path to the return, or the
        # cache that lets a path skip it is invalidated by the parameter-change handler (sentinel cache, decided with the C11.H machinery)
        call_node = cfg.node_of(st_call)
        every_path = cfg.must_pass(cfg.entry, cfg.exit, [call_node])
        if not every_path:
            from props import c11
            flags = c11.find_flags(cls)
            hp = cls.resolve('handle_parameter_changed')
            ssum = c11.summarize(ctx, cls, hp[0], hp[1]) if hp else None
            sentinels = [f for f, e in flags.items() if any(fn2 is fn for _, fn2, _ in e['guards'])]
            invalidated = bool(sentinels) and ssum is not None and all((f, flags[f]['dirty']) in ssum.sets for f in sentinels)
            rep.check('C07.C', key + '::recomputed-for-the-current-value', invalidated, W, {'caches': sentinels},
                      f"{key} can return a stored log-Jacobian without calling transform.log_abs_det_jacobian, and the cache {sentinels} is not "
                      f"invalidated when the parameter changes: after an update followed by any other accessor that clears the stale flag, "
                      f"the log-Jacobian of the previous value is returned")
        # what is returned is that log-determinant and nothing else (each change of variables reports its own term; chains are summed by the caller's Jacobian list)
        import copy
        env = {}

        class _Sub(ast.NodeTransformer):
            def visit_Name(self, n):
                if isinstance(n.ctx, ast.Load) and n.id in env:
                    return copy.deepcopy(env[n.id])
                return n
        for st in ast.walk(fn):
            if isinstance(st, ast.Assign) and len(st.targets) == 1 and isinstance(st.targets[0], ast.Name):
                env[st.targets[0].id] = _Sub().visit(copy.deepcopy(st.value))
        rets = [r for r in ast.walk(fn) if isinstance(r, ast.Return) and r.value is not None]
        exact = bool(rets)
        extra = []
        for r in rets:
            v = _Sub().visit(copy.deepcopy(r.value))
            while isinstance(v, ast.Call) and isinstance(v.func, ast.Attribute) and v.func.attr in ('sum', 'squeeze', 'unsqueeze', 'reshape', 'view', 'clone') and ast.unparse(v) != ast.unparse(c):
                v = v.func.value
            if self_attr(v) is not None:
                continue        # a cached attribute (checked by the recomputed-for-the-current-value obligation)
            if ast.unparse(v) != ast.unparse(c):
                exact = False
                extra.append(norm_text(r.value)[:80])
        rep.check('C07.C', key + '::returns-its-own-log-determinant-only', exact, W, {'returned': extra},
                  f"{key} returns `{extra[0] if extra else '?'}`: more than the log-determinant of its own transform.  Every transformed parameter is listed in the Jacobian sum "
                  f"by itself, so a term added here (for example the wrapped parameter's own log-determinant) is counted twice")
        rep.check('C07.C', key, first_is_x and cached is not None and refresh_ok and dom and on_transform, W,
                  {'call': norm_text(c), 'cached_forward_value': cached, 'refreshed_by': refresh_names, 'refresh_dominates': dom},
                  f"{key} must (after refreshing a stale cache) return self.transform.log_abs_det_jacobian(self.{xattr}.tensor, <cached forward value of the same tensor>) "
                  f"in that argument order")


def _resolved(cls):
    seen = {}
    for c in cls.internal_mro():
        for kind, table in (('method', c.methods), ('getter', c.getters), ('setter', c.setters)):
            for name, fn in table.items():
                seen.setdefault((name, kind), (c, kind, fn))
    return seen


def check_last_axis_cat(ctx, rep):
    """pieces sliced on the last axis must be concatenated along the last axis (batched inputs)."""
    n = 0
    for cls in sorted(ctx.classes.classes.values(), key=lambda c: c.qualname):
        if not (cls.has_base(TRANSFORM) and cls.qualname.startswith('torchtree.')):
            continue
        for nm in ('_call', '_inverse'):
            fn = cls.methods.get(nm)
            if fn is None:
                continue
            for c in ast.walk(fn):
                if isinstance(c, ast.Call) and method_name(c) == 'cat' and c.args and isinstance(c.args[0], (ast.Tuple, ast.List)):
                    pieces = c.args[0].elts
                    last_axis = any(isinstance(s, ast.Subscript) and isinstance(s.slice, ast.Tuple) and s.slice.elts
                                    and isinstance(s.slice.elts[0], ast.Constant) and s.slice.elts[0].value is Ellipsis
                                    for p in pieces for s in ast.walk(p))
                    if not last_axis:
                        continue
                    n += 1
                    ax = c.args[1] if len(c.args) > 1 else next((kw.value for kw in c.keywords if kw.arg in ('dim', 'axis')), None)
                    ok = ax is not None and ast.unparse(ax) == '-1'
                    rep.check('C07.I', f"{cls.qualname}.{nm}::cat-along-last-axis", ok, where(cls.module, c), {'call': norm_text(c)[:100]},
                              f"{cls.name}.{nm} concatenates pieces sliced on the last axis (`[..., …]`) without dim=-1: torch.cat then joins along axis 0, "
                              f"which is only right for unbatched input — a batched inverse raises or returns the wrong layout")
    rep.analysed['last_axis_concatenations'] = n


def run(ctx, rep):
    from sa import callbind
    callbind.run_for(ctx, rep, 'C07', 2)
    rep.explanation = (
        "Abstract interpretation of every bijective Transform's forward map into a chain of primitives (cumsum/diff are unit-Jacobian, "
        "exp/log/softplus/expm1 are element-wise); the reported log-determinant must be the accepted normal form of Σ log|g'| for that chain "
        "(zeros iff the chain is volume preserving; autograd forms must differentiate the same chain) and _inverse must be the reversed chain "
        "of inverse primitives.  Tree-indexed transforms are decided by dedicated rules: the ratio transform's update is turned into a "
        "polynomial whose derivative must be the argument of the log in the log-determinant; the increment transform must be unit "
        "triangular with matching inverse; the log-rate-difference transform is log followed by a unit-triangular incidence map.  "
        "Callers must pass (x, cached forward value) after refreshing the cache."
    )
    rep.rule('C07.Z', "a zero log-determinant is reported exactly by the volume-preserving maps")
    rep.rule('C07.I', "_inverse is the reversed chain of inverse primitives of _call; concatenations of last-axis slices use dim=-1")
    rep.rule('C07.L', "log_abs_det_jacobian is the normal form of Σ log|g'| for the forward chain, with the right argument (x vs y) and sign")
    rep.rule('C07.G', "ratio transform: forward update b + r(h_p − b); log-det = Σ log(y[parent] − bound) over non-root internal nodes")
    rep.rule('C07.C', "TransformedParameter() and ReparameterizedTimeTreeModel() return transform.log_abs_det_jacobian(x, cached y) after a dominating cache refresh")
    rep.assumptions += ["d/dz exp = exp, d/dz log = 1/z, d/dz softplus = sigmoid; cumsum and first difference have unit-triangular Jacobians",
                        "the root is the last node and the pre-order table rows are (parent, child)"]
    rep.not_decided += ["torch's own transforms", "numerical equality at all points", "TrilExpDiagonalTransform / RescaledRateTransform (log-det raises)"]
    for f, rule in ((check_generic, 'C07.L'), (check_general_height, 'C07.G'), (check_difference_height, 'C07.Z'),
                    (check_log_difference_rate, 'C07.L'), (check_log_difference_inverse, 'C07.I'), (check_callers, 'C07.C'), (check_last_axis_cat, 'C07.I')):
        try:
            f(ctx, rep)
        except Unsupported as u:
            rep.undecided(rule, f.__name__, f"line {getattr(u.node, 'lineno', 0)}", str(u))
    # one log-determinant PER SAMPLE: no reduction over the whole tensor in the transforms (C10.D on the transform modules)
    from props import c10 as _c10
    from sa.report import RuleProxy as _RPd
    _c10.check_whole_reductions(ctx, _RPd(rep, 'C07.L', 'per-sample::'), only=lambda mn: mn in ('torchtree.distributions.transforms', 'torchtree.evolution.rate_transform',
                                                                                                  'torchtree.evolution.tree_height_transform'))
    _c10.check_front_axes(ctx, _RPd(rep, 'C07.L', 'per-sample::'), only=lambda mn: mn in ('torchtree.distributions.transforms', 'torchtree.evolution.rate_transform',
                                                                                           'torchtree.evolution.tree_height_transform'))
    # the image handed to log_abs_det_jacobian must be the image of the *current* value: torch's identity-keyed (x, y) cache must stay off
    from props import c11
    c11.check_transform_cache(ctx, rep, rule='C07.C')
    # the increment (shift) transform: forward and inverse use the same (smooth) maximum — decided by C06.S, which is also C07's inverse clause
    from props import c06
    from sa.report import RuleProxy
    try:
        c06.check_shift(ctx, RuleProxy(rep, 'C07.I', 'shift::'))
    except Unsupported as u:
        rep.undecided('C07.I', 'shift::check_shift', '', str(u))
    # C07.P — forward / inverse maps do not write into their argument or into stored state (the inverse must return the input, and the wrapped parameter must keep its value)
    from sa import purity
    rep.rule('C07.S', "log_abs_det_jacobian(x, y) depends on its arguments only: it reads nothing that _call / _inverse left on the transform")
    check_stateless_log_det(ctx, rep)
    from props import c11 as _c11
    from sa.report import RuleProxy as _RP
    _c11.check_memo_keys(ctx, _RP(rep, 'C07.C', 'memo::'), only=lambda m: m.name in ('torchtree.core.parameter', 'torchtree.evolution.tree_height_transform', 'torchtree.evolution.rate_transform',
                                                                                    'torchtree.evolution.tree_model', 'torchtree.distributions.transforms'))
    rep.rule('C07.P', "the forward and inverse maps of the transforms do not modify their argument or stored state in place (indexed stores included): the value the caller holds is unchanged")
    TRANSFORM_MODULES = ('torchtree.evolution.tree_height_transform', 'torchtree.distributions.transforms', 'torchtree.evolution.rate_transform')
    n = purity.check_alias_mutation(ctx, rep, 'C07.P', lambda m, cname, fn: m.name in TRANSFORM_MODULES and cname is not None and fn.name in ('_call', '_inverse', 'log_abs_det_jacobian', '__call__'),
                                    index_stores=True)
    if n < 4:
        rep.incomplete('C07.P', '*', '', f"only {n} in-place writes examined in the transforms")
    # the two classes that *report* log-Jacobians cache them (CallableModel.lp / need_update): their change handlers must mark the cached value dirty (decided by C11.H)
    from sa.members import Kinds
    kinds = Kinds(ctx.classes)
    for q in ('torchtree.core.parameter.TransformedParameter', 'torchtree.evolution.tree_model.ReparameterizedTimeTreeModel'):
        c11.check_handlers(ctx, RuleProxy(rep, 'C07.C', 'handlers::'), kinds, ctx.classes.get(q))
    # … and the value they report is the log-Jacobian at the CURRENT input only if every way of changing that input reaches them: the parameter kinds that sit between a
    # transform and what the samplers move (concatenations, views, other transformed parameters) forward every event (C11.H), their setters end in a notification of the
    # parameter written into (C11.W), and in-place writes into a wrapped parameter's tensor are followed by that parameter's own notification
    done = {'torchtree.core.parameter.TransformedParameter'}
    npar = 0
    for cls in sorted(ctx.classes.subclasses('torchtree.core.abstractparameter.AbstractParameter'), key=lambda c: c.qualname):
        if cls.module.name != 'torchtree.core.parameter':
            continue
        npar += 1
        if cls.qualname not in done:
            c11.check_handlers(ctx, RuleProxy(rep, 'C07.C', 'handlers::'), kinds, cls)
        c11.check_setters(ctx, RuleProxy(rep, 'C07.C', 'setters::'), cls)
    c11.check_inplace(ctx, RuleProxy(rep, 'C07.C', 'in-place::'), rule='C11.W', only=lambda m, fn: m.name == 'torchtree.core.parameter')
    if npar < 4:
        rep.incomplete('C07.C', 'parameter-kinds', '', f"only {npar} parameter classes found in core/parameter.py")


def check_stateless_log_det(ctx, rep):
    """C07.S — log_abs_det_jacobian(x, y) is a function of its arguments.  A transform that leaves something on itself in _call / _inverse and hands it back from
    log_abs_det_jacobian reports the determinant of whatever point was transformed LAST: with one transform object shared by two parameters, with `.inv`, or with forward calls at
    several points before their determinants are asked for, the value belongs to another point."""
    base = 'torch.distributions.Transform'
    n = 0
    for cls in sorted(ctx.classes.classes.values(), key=lambda c: c.qualname):
        if not any(isinstance(b, str) and b.endswith('Transform') for b in cls.mro) and not cls.has_base(base):
            continue
        r = cls.resolve('log_abs_det_jacobian')
        if r is None or r[0] is not cls:
            continue
        ld = r[1]
        written = {}
        for mname in ('_call', '_inverse', '__call__', 'forward'):
            rm = cls.resolve(mname)
            if rm is None:
                continue
            for st in ast.walk(rm[1]):
                if isinstance(st, (ast.Assign, ast.AugAssign)):
                    for t in (st.targets if isinstance(st, ast.Assign) else [st.target]):
                        a = self_attr(t)
                        if a:
                            written.setdefault(a, mname)
        reads = {self_attr(x) for x in ast.walk(ld) if isinstance(x, ast.Attribute) and isinstance(x.ctx, ast.Load) and self_attr(x)}
        shared = sorted(reads & set(written))
        n += 1
        rep.check('C07.S', f"{cls.qualname}::log-determinant-is-a-function-of-its-arguments", not shared, where(cls.module, ld), {'left_by_the_maps_and_read_back': shared},
                  f"{cls.name}.log_abs_det_jacobian reads {['self.' + a for a in shared]}, which {cls.name}.{written[shared[0]] if shared else ''} stores while transforming: the value "
                  f"returned is the determinant at the point transformed last, not at the (x, y) it is asked for")
    if n < 8:
        rep.incomplete('C07.S', '*', '', f"only {n} transforms with a log-determinant found")
