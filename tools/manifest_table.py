CLAIMED = {
    'C11': {
        'text': "Class-hierarchy analysis of the listener wiring over all ~77 classes under Parametric/AbstractParameter: which attributes each concrete class registers (kinds from the constructor chain and the repository's annotations), which dirty flags guard its caches and which registered attributes those caches read (transitively through self methods and properties), and a must-summary over the CFG of the *resolved* handle_parameter_changed/handle_model_changed (super()/helper calls followed): every dependent flag is set dirty and listeners are notified on every path. Plus: every self.<member> on the update path resolves (Parametric.__getattr__ modelled), every tensor setter / in-place write notifies, and Optimizer notifies between an in-place step and the next evaluation. The quantifier 'every model class, every parameter kind' is exactly what the class table enumerates; the suite has no staleness test for most classes.",
        'note': "Decides the wiring (a necessary condition: a missing invalidation or notification makes some update sequence return a stale value); does not decide numerical equality with a freshly built model. Kinds of constructor arguments are trusted from annotations; unannotated ones are refined through from_json feeders or reported undecided.",
        'technique': "class-hierarchy + CFG must-analysis of change handlers, member resolution, def-use of in-place writes",
    },
    'C17': {
        'text': "Writer/reader cross-check of all 12 concrete state_dict/load_state_dict pairs (resolved along the MRO, base and _-halves joined, nested element states matched against every element class): keys read are written, keys written are read, conditional keys are guarded alike; coverage of loop-carried run state (every attribute, own or of an owned helper object, mutated in a method reachable from run/step/tune/learn/accept/reject is written and restored); ParameterEncoder/TensorEncoder tables against main() routing, update_parameters, Parameter.from_json and TensorDecoder; and the integer-key fact about torch optimiser state. These are exhaustive over classes, keys and attributes, which is the 'every optimiser and every operator/adaptor type ... restarting never fails' quantifier; the suite has no checkpoint test.",
        'note': "Decides key/attribute agreement (necessary: a missing key raises on restart, an unread key or unsaved attribute loses state); does not decide trajectory equality or dtype fidelity at run time. Trusted: torch optimiser state is keyed by int, JSON keys are str; torch scheduler state is opaque.",
        'technique': "writer/reader table extraction and cross-check over resolved methods; mutation reachability (def-use) for run-state coverage",
    },
    'C18': {
        'text': "Exhaustive abstract interpretation of the checkpoint writer over the file typestate {name,name.new,name.old}->{absent,complete,partial}: every crash prefix of every path, for every flag combination the resolved call sites can pass, closed under restart-after-crash. Shows that a complete checkpoint always survives and that the checkpoint name is never a truncated file. Finite state space, fully enumerated; this is the quantifier of the property (all crash points, any number of consecutive interrupted writes), which no test can reach.",
        'note': "Trusted: POSIX rename/replace are atomic and raise on a missing source; open(...,'w') truncates immediately; a with-block that exits normally leaves a complete file. Power-loss durability (fsync) and the content written are not decided.",
        'technique': "file typestate abstract interpretation + who-may-call/who-may-write over resolved call sites",
    },
}

NOT_APPLICABLE = {
    'C10': "every clause quantifies over runtime tensor shapes (which parameters are batched, S==K coincidences, which reduction branch fires); a sound static shape analysis would need shape types for every torch op, and the one structural candidate (_sample_shape mentions every registered parameter) is not a necessary condition, so arming it would raise false alarms",
}
