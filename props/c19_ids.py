"""C19.R — every identifier the emitted configuration refers to is defined under the same option values.

Definitions: the value of an 'id' key of a dict literal (or `d['id'] = …` store) in the CLI builders and in the
library's json_factory helpers, as a string template (constants, f-strings, concatenations; parameters are
resolved through the call sites, `arg.<option>` through the option environment; anything else is a wildcard).
A definition sitting in a slot its enclosing object's reader never looks at does not count (dead configuration).

References: constant strings that reach a key the reader hands to process_object(s) (reader tables of
sa.jsonkeys), through list literals, concatenations, append / extend / insert, filter(…), parameters and call
sites; references with a wildcard are not checked.

Every definition and reference carries the program points it depends on (its statement, the call sites used to
resolve parameters).  For each reference the option values tested on the way to those points and to the points
of its candidate definitions are enumerated; under each assignment the reference must not be reachable
(specialised CFG + call-chain feasibility of props.c19_flow) without some matching definition being reachable.
"""
from __future__ import annotations

import ast
import itertools
import re
from typing import Dict, List, Optional, Set, Tuple

from sa.loader import AnalysisError, Unsupported, dotted_name, norm_text
from sa.report import where
from props.c19_flow import ARG_NAMES, UNKNOWN, Flow, FnInfo, enclosing_fn, reach_from, specialised_reach

OPT = 'opt'
CMD = '__cmd__'


def ENTRY_POINTS(flow):
    return sorted(n for n in flow.referenced if n.startswith('build_'))

_MISSING = '∅missing'
STAR = ('*',)


class S:
    """a string template with the program points it depends on"""
    __slots__ = ('parts', 'pts')

    def __init__(self, parts, pts=()):
        self.parts = tuple(parts)
        self.pts = tuple(pts)

    def concat(self, o):
        return S(self.parts + o.parts, self.pts + o.pts)

    def with_pt(self, pt):
        return S(self.parts, self.pts + (pt,))

    def concrete(self, env) -> Optional[str]:
        out = []
        for p in self.parts:
            if isinstance(p, str):
                out.append(p)
            elif p[0] == OPT:
                v = env.get(p[1], UNKNOWN)
                if not isinstance(v, str):
                    return None
                out.append(v)
            else:
                return None
        return ''.join(out)

    def regex(self, env) -> str:
        out = []
        for p in self.parts:
            if isinstance(p, str):
                out.append(re.escape(p))
            elif p[0] == OPT and isinstance(env.get(p[1], UNKNOWN), str):
                out.append(re.escape(env[p[1]]))
            else:
                out.append('.*')
        return ''.join(out)

    def opts(self) -> Set[str]:
        return {p[1] for p in self.parts if not isinstance(p, str) and p[0] == OPT}

    def text(self):
        return ''.join(p if isinstance(p, str) else ('{' + p[1] + '}' if p[0] == OPT else '*') for p in self.parts)


class Collector:
    def __init__(self, ctx, flow: Flow, readers):
        self.ctx, self.flow, self.readers = ctx, flow, readers
        self.factories: Dict[str, FnInfo] = {}     # "Class.json_factory" -> FnInfo (library)
        self.factory_sites: Dict[str, List[Tuple[FnInfo, ast.Call]]] = {}
        self._index_factories()

    # -- functions and call sites ------------------------------------------------------
    def _index_factories(self):
        for infos in list(self.flow.fns.values()):
            for fi in infos:
                for c in ast.walk(fi.fn):
                    if isinstance(c, ast.Call) and isinstance(c.func, ast.Attribute) and c.func.attr == 'json_factory' and enclosing_fn(c) is fi.fn:
                        tgt = self.factory_of(c, fi)
                        if tgt is not None:
                            self.factory_sites.setdefault(tgt, []).append((fi, c))

    def factory_of(self, call: ast.Call, fi: FnInfo) -> Optional[str]:
        base = dotted_name(call.func.value)
        if base is None:
            return None
        qual = self.ctx.prog.resolve_name(fi.module, base)
        r = self.ctx.prog.resolve(qual) if qual else None
        if not r or r[0] != 'class':
            return None
        ci = self.ctx.classes.classes.get(f"{r[1].name}.{r[2].name}")
        if ci is None:
            return None
        got = ci.resolve('json_factory')
        if got is None:
            return None
        key = f"{got[0].qualname}.json_factory"
        if key not in self.factories:
            try:
                self.factories[key] = FnInfo(got[0].module, got[1])
            except Exception:
                return None
        return key

    def all_infos(self) -> List[FnInfo]:
        out = [fi for infos in self.flow.fns.values() for fi in infos]
        return out + list(self.factories.values())

    def is_factory(self, fi: FnInfo) -> Optional[str]:
        for k, v in self.factories.items():
            if v is fi:
                return k
        return None

    def sites_of(self, fi: FnInfo) -> List[Tuple[FnInfo, ast.Call]]:
        k = self.is_factory(fi)
        if k is not None:
            return self.factory_sites.get(k, [])
        return [(c_fi, c) for c_fi, c in self.flow.sites.get(fi.fn.name, []) if self.target_of(c, c_fi) is fi]

    def target_of(self, call: ast.Call, fi: FnInfo) -> Optional[FnInfo]:
        if isinstance(call.func, ast.Name):
            infos = self.flow.fns.get(call.func.id, [])
            if len(infos) == 1:
                return infos[0]
            for x in infos:
                if x.module is fi.module:
                    return x
            return infos[0] if infos else None
        if isinstance(call.func, ast.Attribute) and call.func.attr == 'json_factory':
            k = self.factory_of(call, fi)
            return self.factories.get(k) if k else None
        return None

    def arg_for(self, callee: FnInfo, call: ast.Call, pname: str) -> Optional[ast.AST]:
        a = callee.fn.args
        names = [x.arg for x in a.args]
        if names and names[0] in ('cls', 'self'):
            names = names[1:]
        for k in call.keywords:
            if k.arg == pname:
                return k.value
            if k.arg is None and isinstance(k.value, ast.Dict):       # **{'tensor': …}
                for kk, vv in zip(k.value.keys, k.value.values):
                    if isinstance(kk, ast.Constant) and kk.value == pname:
                        return vv
        if pname in names:
            i = names.index(pname)
            if i < len(call.args) and not any(isinstance(x, ast.Starred) for x in call.args[:i + 1]):
                return call.args[i]
            d = a.defaults
            j = i - (len(names) - len(d))
            if 0 <= j < len(d):
                return d[j]
        return None

    # -- string collection ---------------------------------------------------------------
    def pt(self, fi: FnInfo, node) -> Tuple[FnInfo, int]:
        n = fi.stmt_node_of(node)
        return (fi, n.id if n is not None else -1)

    def strings(self, e, fi: FnInfo, depth=0, single=False, seen=frozenset()) -> Tuple[List[S], bool]:
        """(templates, complete): the strings `e` may evaluate to / contain"""
        if depth > 16:
            return [S([STAR])], False
        if isinstance(e, ast.Constant):
            if isinstance(e.value, str):
                return [S([e.value])], True
            return [], True
        if isinstance(e, ast.JoinedStr):
            cur = [S([])]
            comp = True
            for v in e.values:
                if isinstance(v, ast.Constant):
                    opts_ = [S([str(v.value)])]
                else:
                    opts_, c = self.strings(v.value, fi, depth + 1, True, seen)
                    if not opts_:
                        opts_ = [S([STAR])]
                    comp = comp and c
                cur = [a.concat(b) for a in cur for b in opts_][:64]
            return cur, comp
        if isinstance(e, ast.Attribute) and isinstance(e.value, ast.Name) and e.value.id in ARG_NAMES:
            return [S([(OPT, e.attr)])], True
        if isinstance(e, (ast.List, ast.Tuple, ast.Set)):
            out, comp = [], True
            for x in e.elts:
                if isinstance(x, ast.Dict):
                    continue
                if isinstance(x, ast.Starred):
                    x = x.value
                s, c = self.strings(x, fi, depth + 1, False, seen)
                out += s
                comp = comp and c
            return out, comp
        if isinstance(e, ast.Dict):
            return [], True
        if isinstance(e, ast.IfExp):
            a, ca = self.strings(e.body, fi, depth + 1, single, seen)
            b, cb = self.strings(e.orelse, fi, depth + 1, single, seen)
            return a + b, ca and cb
        if isinstance(e, ast.BinOp) and isinstance(e.op, ast.Add):
            a, ca = self.strings(e.left, fi, depth + 1, single, seen)
            b, cb = self.strings(e.right, fi, depth + 1, single, seen)
            if single or (self.is_scalar_string(e.left, fi) and self.is_scalar_string(e.right, fi)):
                if not a:
                    a = [S([STAR])]
                if not b:
                    b = [S([STAR])]
                return [x.concat(y) for x in a for y in b][:64], ca and cb
            return a + b, ca and cb
        if isinstance(e, ast.Name):
            return self.name_strings(e.id, fi, e, depth, single, seen)
        if isinstance(e, ast.Subscript):
            # x['id'] of a local bound to a literal / factory result
            if isinstance(e.slice, ast.Constant) and e.slice.value == 'id' and isinstance(e.value, ast.Name):
                out = []
                for d in self.value_sources(e.value.id, fi):
                    out += self.ids_of_value(d, fi, depth + 1)
                if out:
                    return out, False
            return [S([STAR])], False
        if isinstance(e, ast.Call):
            fn = e.func
            name = fn.id if isinstance(fn, ast.Name) else (fn.attr if isinstance(fn, ast.Attribute) else None)
            if name in ('list', 'tuple', 'sorted', 'set') and len(e.args) == 1:
                return self.strings(e.args[0], fi, depth + 1, single, seen)
            if name == 'filter' and len(e.args) == 2 and isinstance(e.args[0], ast.Lambda):
                s, c = self.strings(e.args[1], fi, depth + 1, single, seen)
                lam = e.args[0]
                drop = set()
                b = lam.body
                if isinstance(b, ast.Compare) and len(b.ops) == 1:
                    if isinstance(b.ops[0], ast.NotEq):
                        for side in (b.left, b.comparators[0]):
                            if isinstance(side, ast.Constant) and isinstance(side.value, str):
                                drop.add(side.value)
                    elif isinstance(b.ops[0], ast.NotIn):
                        vals, _ = self.strings(b.comparators[0], fi, depth + 1, False, seen)
                        drop |= {v.concrete({}) for v in vals if v.concrete({}) is not None}
                    else:
                        return [], False
                else:
                    return [], False
                return [x for x in s if x.concrete({}) not in drop], c
            tgt = self.target_of(e, fi) if name else None
            if tgt is not None and self.is_factory(tgt) is None:
                # a CLI helper returning strings / lists of strings
                out, comp = [], True
                for r in [n for n in ast.walk(tgt.fn) if isinstance(n, ast.Return) and n.value is not None and enclosing_fn(n) is tgt.fn]:
                    if (tgt.fn.name, id(e)) in seen:
                        continue
                    vals = r.value.elts if isinstance(r.value, ast.Tuple) else [r.value]
                    for v in vals[:1] if single else vals:
                        s, c = self.strings(v, tgt, depth + 1, single, seen | {(tgt.fn.name, id(e))})
                        out += [x.with_pt(self.pt(tgt, r)).with_pt(self.pt(fi, e)) for x in s]
                        comp = comp and c
                return out, False
            return [], False
        if isinstance(e, ast.ListComp) and len(e.generators) == 1 and not e.generators[0].ifs and isinstance(e.generators[0].target, ast.Name):
            g = e.generators[0]
            items, c = self.strings(g.iter, fi, depth + 1, False, seen)
            if c and items and all(x.concrete({}) is not None for x in items):
                out = []
                comp = True
                for it in items:
                    s, cc = self.strings(_subst_name(e.elt, g.target.id, it.concrete({})), fi, depth + 1, True, seen)
                    out += s
                    comp = comp and cc
                return out, comp
            s, _ = self.strings(_subst_name(e.elt, g.target.id, None), fi, depth + 1, True, seen)
            return s, False
        return [], False

    def is_scalar_string(self, e, fi) -> bool:
        if isinstance(e, ast.Constant):
            return isinstance(e.value, str)
        if isinstance(e, ast.JoinedStr):
            return True
        if isinstance(e, ast.BinOp) and isinstance(e.op, ast.Add):
            return self.is_scalar_string(e.left, fi) or self.is_scalar_string(e.right, fi)
        if isinstance(e, ast.Subscript) and isinstance(e.slice, ast.Constant) and e.slice.value == 'id':
            return True
        return False

    def value_sources(self, name: str, fi: FnInfo) -> List[ast.AST]:
        out = []
        for st in ast.walk(fi.fn):
            if isinstance(st, ast.Assign) and any(isinstance(t, ast.Name) and t.id == name for t in st.targets) and enclosing_fn(st) is fi.fn:
                out.append(st.value)
        return out

    def ids_of_value(self, v, fi: FnInfo, depth) -> List[S]:
        if isinstance(v, ast.Dict):
            for k, val in zip(v.keys, v.values):
                if isinstance(k, ast.Constant) and k.value == 'id':
                    s, _ = self.strings(val, fi, depth + 1, True)
                    return [x.with_pt(self.pt(fi, v)) for x in s]
        if isinstance(v, ast.Call) and isinstance(v.func, ast.Attribute) and v.func.attr == 'json_factory' and v.args:
            s, _ = self.strings(v.args[0], fi, depth + 1, True)
            return [x.with_pt(self.pt(fi, v)) for x in s]
        return []

    def name_strings(self, name: str, fi: FnInfo, at, depth, single, seen) -> Tuple[List[S], bool]:
        key = (fi.fn.name, name)
        if key in seen:
            return [], False
        seen = seen | {key}
        params = [a.arg for a in fi.fn.args.args + fi.fn.args.kwonlyargs]
        out: List[S] = []
        comp = True
        local_defs = 0
        removed: List[Tuple[str, Tuple]] = []
        for st in ast.walk(fi.fn):
            if enclosing_fn(st) is not fi.fn:
                continue
            if isinstance(st, ast.Assign) and any(isinstance(t, ast.Name) and t.id == name for t in st.targets):
                local_defs += 1
                s, c = self.strings(st.value, fi, depth + 1, single, seen)
                out += [x.with_pt(self.pt(fi, st)) for x in s]
                comp = comp and c
            elif isinstance(st, ast.AugAssign) and isinstance(st.target, ast.Name) and st.target.id == name:
                s, c = self.strings(st.value, fi, depth + 1, single, seen)
                out += [x.with_pt(self.pt(fi, st)) for x in s]
                comp = comp and c
            elif isinstance(st, (ast.For, ast.comprehension)) and isinstance(st.target, ast.Name) and st.target.id == name:
                local_defs += 1
                s, c = self.strings(st.iter, fi, depth + 1, False, seen)
                if isinstance(st, ast.For):
                    out += [x.with_pt(self.pt(fi, st)) for x in s]
                else:
                    out += s
                comp = comp and c
            elif isinstance(st, ast.For) and isinstance(st.target, ast.Tuple) and any(isinstance(x, ast.Name) and x.id == name for x in st.target.elts):
                local_defs += 1
                i = [isinstance(x, ast.Name) and x.id == name for x in st.target.elts].index(True)
                it = st.iter
                if isinstance(it, ast.Call) and isinstance(it.func, ast.Name) and it.func.id == 'zip' and i < len(it.args):
                    s, c = self.strings(it.args[i], fi, depth + 1, False, seen)
                    out += [x.with_pt(self.pt(fi, st)) for x in s]
                    comp = comp and c
                elif isinstance(it, (ast.Tuple, ast.List)) and all(isinstance(x, (ast.Tuple, ast.List)) and i < len(x.elts) for x in it.elts):
                    for x in it.elts:
                        s, c = self.strings(x.elts[i], fi, depth + 1, False, seen)
                        out += [y.with_pt(self.pt(fi, st)) for y in s]
                        comp = comp and c
                else:
                    out.append(S([STAR]))
                    comp = False
            elif isinstance(st, ast.Call) and isinstance(st.func, ast.Attribute) and isinstance(st.func.value, ast.Name) and st.func.value.id == name:
                m = st.func.attr
                if m in ('append', 'extend', 'insert', 'add', 'update') and st.args:
                    s, c = self.strings(st.args[-1], fi, depth + 1, False, seen)
                    out += [x.with_pt(self.pt(fi, st)) for x in s]
                    comp = comp and c
                elif m == 'remove' and st.args and isinstance(st.args[0], ast.Constant):
                    removed.append((st.args[0].value, self.pt(fi, st)))
        if name in params and not local_defs or (name in params):
            for c_fi, call in self.sites_of(fi):
                a = self.arg_for(fi, call, name)
                if a is None:
                    comp = False
                    continue
                s, c = self.strings(a, c_fi, depth + 1, single, seen)
                out += [x.with_pt(self.pt(c_fi, call)) for x in s]
                comp = comp and c
            if not self.sites_of(fi):
                comp = False
        elif not local_defs and name not in params:
            # module-level constant
            v = fi.module.constants.get(name)
            if v is not None:
                return self.strings(v, fi, depth + 1, single, seen)
            comp = False
        if removed:
            self.removals = getattr(self, 'removals', {})
            for x in out:
                c = x.concrete({})
                for val, pt in removed:
                    if c == val:
                        self.removals.setdefault(id(x), []).append(pt)
            self._keep = getattr(self, '_keep', [])
            self._keep += out
        return out, comp


def _subst_name(node, name, value):
    import copy

    class T(ast.NodeTransformer):
        def visit_Name(self, n):
            if n.id == name:
                return ast.copy_location(ast.Constant(value=value), n) if value is not None else ast.copy_location(ast.Name(id='__unknown__', ctx=ast.Load()), n)
            return n
    new = T().visit(copy.deepcopy(node))
    for ch in ast.walk(new):
        for c2 in ast.iter_child_nodes(ch):
            c2._parent = ch
    new._parent = getattr(node, '_parent', None)
    return new


# ---------------------------------------------------------------------------
# reachability of a set of points under an option environment
# ---------------------------------------------------------------------------
class Reach:
    def __init__(self, flow: Flow, col: Collector):
        self.flow, self.col = flow, col
        self.live_cache: Dict[tuple, Set[int]] = {}
        self.feas_cache: Dict[tuple, bool] = {}
        self.opt_cache: Dict[tuple, Set[str]] = {}
        self._tested: Dict[int, Tuple[str, ...]] = {}
        self._chain: Dict[int, Tuple[str, ...]] = {}
        self._rel: Dict[int, Tuple[str, ...]] = {}
        self._reach: Dict[tuple, bool] = {}
        self._keep: list = []

    def tested(self, fi: FnInfo) -> Tuple[str, ...]:
        k = id(fi)
        if k not in self._tested:
            out = set()
            for n in ast.walk(fi.fn):
                if isinstance(n, (ast.If, ast.While, ast.IfExp)):
                    for x in ast.walk(n.test):
                        if isinstance(x, ast.Attribute) and isinstance(x.value, ast.Name) and x.value.id in ARG_NAMES:
                            out.add(x.attr)
            self._tested[k] = tuple(sorted(out))
        return self._tested[k]

    def chain_tested(self, fi: FnInfo, seen=frozenset()) -> Tuple[str, ...]:
        k = id(fi)
        if k in self._chain:
            return self._chain[k]
        if k in seen:
            return ()
        out = set()
        for c_fi, _ in self.col.sites_of(fi):
            out |= set(self.tested(c_fi)) | set(self.chain_tested(c_fi, seen | {k}))
        out.add(CMD)
        if not seen:
            self._chain[k] = tuple(sorted(out))
        return tuple(sorted(out))

    def live(self, fi: FnInfo, env, p_env=None) -> Set[int]:
        k = (id(fi),) + tuple(env.get(o, _MISSING) for o in self.tested(fi)) + (tuple(sorted(p_env.items(), key=repr)) if p_env else ())
        if k not in self.live_cache:
            e = self.flow.env(fi.module, env, p_env or {}, {})
            succ = specialised_reach(fi.cfg, e)
            self.live_cache[k] = reach_from(succ, [fi.cfg.entry.id], fi.by_id) | {fi.cfg.entry.id}
        return self.live_cache[k]

    def binding(self, fi: FnInfo, later_pts, env) -> Dict[str, object]:
        """constant parameter values of `fi` given by the call site (among the later points of the same chain) that calls it"""
        for c_fi, c_nid in later_pts:
            node = c_fi.by_id.get(c_nid)
            if node is None or node.stmt is None:
                continue
            for c in ast.walk(node.stmt if node.kind == 'stmt' else (node.stmt.test if node.kind == 'test' else node.stmt)):
                if isinstance(c, ast.Call) and self.col.target_of(c, c_fi) is fi:
                    out = {}
                    for a in fi.fn.args.args:
                        v = self.col.arg_for(fi, c, a.arg)
                        if isinstance(v, ast.Constant):
                            out[a.arg] = v.value
                        elif isinstance(v, ast.Attribute) and isinstance(v.value, ast.Name) and v.value.id in ARG_NAMES:
                            val = env.get(v.attr, self.flow.free_default.get(v.attr, UNKNOWN))
                            if val is not UNKNOWN:
                                out[a.arg] = val
                    return out
        return {}

    def feasible(self, fi: FnInfo, env, depth=0, seen=frozenset()) -> bool:
        k = (id(fi),) + tuple(env.get(o, _MISSING) for o in self.chain_tested(fi))
        if k in self.feas_cache:
            return self.feas_cache[k]
        if id(fi) in seen or depth > 8:
            return True
        sites = self.col.sites_of(fi)
        if self.col.is_factory(fi) is None and fi.fn.name in ENTRY_POINTS(self.flow):
            ok = env.get(CMD, fi.fn.name) == fi.fn.name
            self.feas_cache[k] = ok
            return ok
        if self.col.is_factory(fi) is None and (fi.fn.name in self.flow.referenced or not sites):
            self.feas_cache[k] = True
            return True
        ok = False
        for c_fi, call in sites:
            n = c_fi.stmt_node_of(call)
            if n is None or (n.id in self.live(c_fi, env) and self.feasible(c_fi, env, depth + 1, seen | {id(fi)})):
                ok = True
                break
        if depth == 0:
            self.feas_cache[k] = ok
        return ok

    def rel(self, x: 'S') -> Tuple[str, ...]:
        k = id(x)
        if k not in self._rel:
            out = set(x.opts())
            for fi, _ in x.pts:
                out |= set(self.tested(fi)) | set(self.chain_tested(fi))
            self._rel[k] = tuple(sorted(o for o in out))
            self._keep.append(x)
        return self._rel[k]

    def reachable_s(self, x: 'S', env) -> bool:
        k = (id(x),) + tuple(env.get(o, _MISSING) for o in self.rel(x))
        if k not in self._reach:
            self._reach[k] = self.reachable(x.pts, env)
        return self._reach[k]

    def reachable(self, pts, env) -> bool:
        for i, (fi, nid) in enumerate(pts):
            if nid >= 0:
                p_env = self.binding(fi, pts[i + 1:], env) if fi.fn.args.args else {}
                if nid not in self.live(fi, env, p_env):
                    return False
            if not self.feasible(fi, env):
                return False
        return True

    def options_of(self, pts, depth=0) -> Dict[str, int]:
        """finite-domain options tested on the way to these points -> distance (0: a test enclosing the statement; n: n call sites up)"""
        out: Dict[str, int] = {}

        def put(d, o, v):
            if o not in d or v < d[o]:
                d[o] = v
        for fi, nid in pts:
            k = (id(fi), nid)
            if k in self.opt_cache:
                for o, v in self.opt_cache[k].items():
                    put(out, o, v + depth)
                continue
            self.opt_cache[k] = {}
            acc: Dict[str, int] = {}
            node = fi.by_id.get(nid)
            st = node.stmt if node is not None else None
            p = st
            while p is not None and p is not fi.fn:
                par = getattr(p, '_parent', None)
                if isinstance(par, (ast.If, ast.While)):
                    for x in ast.walk(par.test):
                        if isinstance(x, ast.Attribute) and isinstance(x.value, ast.Name) and x.value.id in ARG_NAMES and x.attr in self.flow.fin:
                            put(acc, x.attr, 0)
                p = par
            if depth < 6:
                for c_fi, call in self.col.sites_of(fi):
                    for o, v in self.options_of([self.col.pt(c_fi, call)], depth + 1).items():
                        put(acc, o, v - depth)
            self.opt_cache[k] = acc
            for o, v in acc.items():
                put(out, o, v + depth)
        return out



# ---------------------------------------------------------------------------
# reach conditions as sets of partial option assignments (cubes)
# ---------------------------------------------------------------------------
class TooBig(Exception):
    pass


def cube_merge(a: tuple, b: tuple) -> Optional[tuple]:
    d = dict(a)
    for k, v in b:
        if k in d:
            if d[k] != v:
                return None
        else:
            d[k] = v
    return tuple(sorted(d.items(), key=lambda kv: kv[0]))


def dnf_and(A: Set[tuple], B: Set[tuple], cap=6000) -> Set[tuple]:
    out = set()
    for a in A:
        for b in B:
            m = cube_merge(a, b)
            if m is not None:
                out.add(m)
                if len(out) > cap:
                    raise TooBig()
    return out


def dnf_simplify(A: Set[tuple]) -> Set[tuple]:
    """drop cubes that are implied by a more general cube"""
    lst = sorted(A, key=len)
    keep: List[tuple] = []
    for c in lst:
        cs = set(c)
        if not any(set(k) <= cs for k in keep):
            keep.append(c)
    return set(keep)



def inline_tests(fn):
    """a copy of the function in which locals with a single call-free definition are substituted into the branch tests (`flag = a or b; if flag:` reads like `if a or b:`)"""
    import copy
    from sa.util import local_assignments as _la
    f2 = copy.deepcopy(fn)
    for n in ast.walk(f2):
        for ch in ast.iter_child_nodes(n):
            ch._parent = n
    defs = _la(f2)

    class Sub(ast.NodeTransformer):
        def visit_Name(self, n):
            if isinstance(n.ctx, ast.Load) and len(defs.get(n.id, [])) == 1 and not any(isinstance(x, ast.Call) for x in ast.walk(defs[n.id][0])):
                return copy.deepcopy(defs[n.id][0])
            return n
    for n in ast.walk(f2):
        if isinstance(n, (ast.If, ast.While)):
            n.test = Sub().visit(n.test)
    ast.fix_missing_locations(f2)
    for n in ast.walk(f2):
        for ch in ast.iter_child_nodes(n):
            ch._parent = n
    return f2


class Cond:
    """reach conditions of program points / string templates as DNF over the finite-domain options"""

    def __init__(self, reach: 'Reach'):
        self.reach, self.flow, self.col = reach, reach.flow, reach.col
        self.pt_cache: Dict[tuple, Set[tuple]] = {}
        self.feas_cache: Dict[int, Set[tuple]] = {}
        self.s_cache: Dict[int, Optional[Set[tuple]]] = {}
        self._keep: list = []

    def domain(self, o):
        return sorted(self.flow.fin[o].values, key=repr)

    def anc_opts(self, fi: FnInfo, nid: int) -> List[str]:
        node = fi.by_id.get(nid)
        st = node.stmt if node is not None else None
        out = set()
        p = st
        first = True
        while p is not None and p is not fi.fn:
            par = getattr(p, '_parent', None)
            tests = []
            if isinstance(par, (ast.If, ast.While)):
                tests.append(par.test)
            if first and node is not None and node.kind == 'test' and isinstance(st, (ast.If, ast.While)):
                pass
            for t in tests:
                for x in ast.walk(t):
                    if isinstance(x, ast.Attribute) and isinstance(x.value, ast.Name) and x.value.id in ARG_NAMES and x.attr in self.flow.fin:
                        out.add(x.attr)
            first = False
            p = par
        return sorted(out)

    def point(self, fi: FnInfo, nid: int, later_pts) -> Set[tuple]:
        """assignments (over the options of the enclosing tests and of `arg.X` arguments bound to tested parameters) under which the node is live"""
        if nid < 0:
            return {()}
        # parameters bound by the call site in the same chain
        bind_opts: Dict[str, str] = {}
        consts: Dict[str, object] = {}
        site_key = None
        for c_fi, c_nid in later_pts:
            node = c_fi.by_id.get(c_nid)
            if node is None or node.stmt is None:
                continue
            found = False
            for c in ast.walk(node.stmt):
                if isinstance(c, ast.Call) and self.col.target_of(c, c_fi) is fi:
                    for a in fi.fn.args.args:
                        v = self.col.arg_for(fi, c, a.arg)
                        if isinstance(v, ast.Constant):
                            consts[a.arg] = v.value
                        elif isinstance(v, ast.Attribute) and isinstance(v.value, ast.Name) and v.value.id in ARG_NAMES:
                            bind_opts[a.arg] = v.attr
                    site_key = (id(c_fi), c_nid)
                    found = True
                    break
            if found:
                break
        key = (id(fi), nid, site_key)
        if key in self.pt_cache:
            return self.pt_cache[key]
        opts = set(self.anc_opts(fi, nid))
        # parameters that the enclosing tests mention and that are bound to options
        node = fi.by_id.get(nid)
        p = node.stmt if node is not None else None
        tested_names = set()
        while p is not None and p is not fi.fn:
            par = getattr(p, '_parent', None)
            if isinstance(par, (ast.If, ast.While)):
                tested_names |= {x.id for x in ast.walk(par.test) if isinstance(x, ast.Name)}
            p = par
        for pname, o in bind_opts.items():
            if pname in tested_names and o in self.flow.fin:
                opts.add(o)
        opts = sorted(opts)
        size = 1
        for o in opts:
            size *= len(self.flow.fin[o].values)
        if size > 20000:
            raise TooBig()
        out = set()
        for combo in itertools.product(*[self.domain(o) for o in opts]):
            env = dict(zip(opts, combo))
            p_env = dict(consts)
            for pname, o in bind_opts.items():
                v = env.get(o, self.flow.free_default.get(o, UNKNOWN))
                if v is not UNKNOWN:
                    p_env[pname] = v
            if nid in self.reach.live(fi, env, p_env):
                out.add(tuple(sorted(env.items(), key=lambda kv: kv[0])))
        out = dnf_simplify(out) if len(out) > 1 else out
        self.pt_cache[key] = out
        return out

    def feasible(self, fi: FnInfo, seen=frozenset()) -> Set[tuple]:
        k = id(fi)
        if k in self.feas_cache:
            return self.feas_cache[k]
        if k in seen or len(seen) > 10:
            return {()}
        if self.col.is_factory(fi) is None and fi.fn.name in ENTRY_POINTS(self.flow):
            out = dnf_simplify(dnf_and({((CMD, fi.fn.name),)}, self.accepted()))
            self.feas_cache[k] = out
            return out
        sites = self.col.sites_of(fi)
        if self.col.is_factory(fi) is None and (fi.fn.name in self.flow.referenced or not sites):
            self.feas_cache[k] = {()}
            return {()}
        out: Set[tuple] = set()
        for c_fi, call in sites:
            n = c_fi.stmt_node_of(call)
            if n is None:
                out = {()}
                break
            a = self.point(c_fi, n.id, ())
            b = self.feasible(c_fi, seen | {k})
            out |= dnf_and(a, b)
            if () in out:
                out = {()}
                break
        out = dnf_simplify(out)
        if not seen:
            self.feas_cache[k] = out
        return out

    def accepted(self) -> Set[tuple]:
        """option values that cli.main lets through: evolution.check_arguments(arg, parser) runs before every builder and `parser.error(...)` exits.  The cubes reaching a
        parser.error call are rejected; their complement (over the finite option domains) is returned as a DNF."""
        if getattr(self, '_accepted', None) is not None:
            return self._accepted
        acc: Set[tuple] = {()}
        self.rejected: List[tuple] = []
        for fi in self.flow.fns.get('check_arguments', []):
            for node in fi.cfg.stmt_nodes():
                st = node.stmt
                if not (isinstance(st, ast.Expr) and isinstance(st.value, ast.Call) and isinstance(st.value.func, ast.Attribute) and st.value.func.attr == 'error'
                        and isinstance(st.value.func.value, ast.Name) and st.value.func.value.id == 'parser'):
                    continue
                # a rejection that depends on a free-form option (--grid, --cutoff …) holds for some of its values only: it excludes nothing here
                free_dep = False
                if not hasattr(fi, '_inlined'):
                    fi._inlined = inline_tests(fi.fn)
                st_i = next((x for x in ast.walk(fi._inlined) if isinstance(x, ast.Expr) and getattr(x, 'lineno', None) == st.lineno and getattr(x, 'col_offset', None) == st.col_offset), st)
                p_ = getattr(st_i, '_parent', None)
                while p_ is not None and not isinstance(p_, ast.FunctionDef):
                    if isinstance(p_, (ast.If, ast.While)):
                        for x in ast.walk(p_.test):
                            if isinstance(x, ast.Attribute) and isinstance(x.value, ast.Name) and x.value.id in ARG_NAMES and x.attr not in self.flow.fin:
                                free_dep = True
                    p_ = getattr(p_, '_parent', None)
                if free_dep:
                    continue
                for cube in self.point(fi, node.id, ()):
                    if not cube:
                        continue    # reachable under every finite option value: nothing to exclude
                    self.rejected.append(cube)
                    alt = {((o, v2),) for o, v in cube for v2 in self.domain(o) if v2 != v}
                    acc = dnf_simplify(dnf_and(acc, alt))
        self._accepted = acc
        return acc

    def of(self, x: S) -> Optional[Set[tuple]]:
        """DNF under which every point of the template is live and its function can be called; None if it cannot be represented"""
        k = id(x)
        if k in self.s_cache:
            return self.s_cache[k]
        self._keep.append(x)
        try:
            cur: Set[tuple] = {()}
            done = set()
            for i, (fi, nid) in enumerate(x.pts):
                if (id(fi), nid) in done:
                    continue
                done.add((id(fi), nid))
                cur = dnf_and(cur, self.point(fi, nid, x.pts[i + 1:]))
                cur = dnf_and(cur, self.feasible(fi))
                if not cur:
                    break
            cur = dnf_simplify(cur)
        except TooBig:
            cur = None
        self.s_cache[k] = cur
        return cur

# ---------------------------------------------------------------------------
def check_ids(ctx, rep):
    from props.c19 import Liveness, Readers, literal_type
    flow = Flow(ctx)
    readers = Readers(ctx)
    col = Collector(ctx, flow, readers)
    reach = Reach(flow, col)
    static_live = Liveness(ctx, readers)

    # ---- definitions -----------------------------------------------------------------
    defs: List[Tuple[S, str]] = []
    for fi in col.all_infos():
        for d in ast.walk(fi.fn):
            if enclosing_fn(d) is not fi.fn:
                continue
            idv = None
            if isinstance(d, ast.Dict):
                for k, v in zip(d.keys, d.values):
                    if isinstance(k, ast.Constant) and k.value == 'id':
                        idv = v
                if idv is not None and col.is_factory(fi) is None and static_live.slot_dead(d):
                    continue
            elif isinstance(d, ast.Assign) and len(d.targets) == 1 and isinstance(d.targets[0], ast.Subscript) and isinstance(d.targets[0].slice, ast.Constant) \
                    and d.targets[0].slice.value == 'id':
                idv = d.value
            if idv is None:
                continue
            s, _ = col.strings(idv, fi, 0, True)
            if not s:
                s = [S([STAR])]
            for x in s:
                if not any(isinstance(p, str) and any(ch.isalnum() for ch in p) for p in x.parts) and not x.opts():
                    continue    # a pure wildcard (ids taken from data or from other objects at run time) says nothing about which constant ids exist
                defs.append((x.with_pt(col.pt(fi, d)), f"{fi.fn.name}:{getattr(d, 'lineno', 0)}"))
    # ids derived from existing ids at run time (`json_object['id'] + '.unres'`): wildcard templates, already in the list through the rule above
    if len(defs) < 80:
        raise AnalysisError(f"only {len(defs)} identifier definitions found")

    # ---- dead slots that depend on the option values: X['k'] = <value defining ids> --------------------------------
    # (definition, points of the literal that X is, key) — if under an environment every reaching literal of X is of a type that never reads k, the
    # definitions inside the stored value are not emitted as far as torchtree is concerned
    cond_dead: Dict[int, List[Tuple[FnInfo, str, str]]] = {}
    for fi in [f for infos in flow.fns.values() for f in infos]:
        for st in ast.walk(fi.fn):
            if isinstance(st, ast.Assign) and len(st.targets) == 1 and isinstance(st.targets[0], ast.Subscript) and isinstance(st.targets[0].value, ast.Name) \
                    and isinstance(st.targets[0].slice, ast.Constant) and isinstance(st.targets[0].slice.value, str) and isinstance(st.value, ast.Name) \
                    and enclosing_fn(st) is fi.fn:
                cond_dead.setdefault(id(fi), []).append((fi, st.targets[0].value.id, st.targets[0].slice.value, st.value.id, st))

    dead_plan: Dict[int, list] = {}
    dead_memo: Dict[tuple, Optional[str]] = {}
    _keep_defs: list = []

    def plan_of(defn: S):
        """per point that is `v = <value>`: the consumers of v as slots (or None when some consumer keeps the value alive)"""
        k = id(defn)
        if k in dead_plan:
            return dead_plan[k]
        _keep_defs.append(defn)
        plans = []
        for fi, nid in defn.pts:
            node = fi.by_id.get(nid)
            s0 = node.stmt if node is not None else None
            if not (isinstance(s0, ast.Assign) and len(s0.targets) == 1 and isinstance(s0.targets[0], ast.Name)) or col.is_factory(fi) is not None:
                continue
            vname = s0.targets[0].id
            uses = [n for n in ast.walk(fi.fn) if isinstance(n, ast.Name) and n.id == vname and isinstance(n.ctx, ast.Load) and enclosing_fn(n) is fi.fn]
            consumers = [u for u in uses if not (isinstance(getattr(u, '_parent', None), ast.Subscript) and isinstance(u._parent.ctx, ast.Store) and u._parent.value is u)]
            if not consumers:
                continue
            slots = []
            for u in consumers:
                par = getattr(u, '_parent', None)
                if isinstance(par, ast.Assign) and len(par.targets) == 1 and isinstance(par.targets[0], ast.Subscript) and isinstance(par.targets[0].value, ast.Name) \
                        and isinstance(par.targets[0].slice, ast.Constant) and isinstance(par.targets[0].slice.value, str) and par.value is u:
                    xname, key_ = par.targets[0].value.id, par.targets[0].slice.value
                    lits = []
                    for a in ast.walk(fi.fn):
                        if isinstance(a, ast.Assign) and any(isinstance(t, ast.Name) and t.id == xname for t in a.targets) and isinstance(a.value, ast.Dict) and enclosing_fn(a) is fi.fn:
                            n2 = fi.stmt_node_of(a)
                            if n2 is not None:
                                lits.append((n2.id, literal_type(a.value)))
                    slots.append(('store', fi, key_, lits))
                elif isinstance(par, ast.Dict):
                    key_ = None
                    for k_, v_ in zip(par.keys, par.values):
                        if v_ is u and isinstance(k_, ast.Constant):
                            key_ = k_.value
                    n2 = fi.stmt_node_of(par)
                    slots.append(('dict', fi, key_, [(n2.id if n2 is not None else -1, literal_type(par))]))
                else:
                    slots = None
                    break
            if slots:
                plans.append(slots)
        dead_plan[k] = plans
        return plans

    def dead_under(defn: S, env) -> Optional[str]:
        """the definition is a value `v = …` whose every consumer puts it at a key that the receiving object's reader ignores under env"""
        plans = plan_of(defn)
        if not plans:
            return None
        mk = (id(defn),) + tuple(sorted(env.items(), key=lambda kv: kv[0]))
        if mk in dead_memo:
            return dead_memo[mk]
        out = None
        for slots in plans:
            reasons = []
            for kind, fi, key_, lits in slots:
                why = None
                if key_ is not None:
                    live = reach.live(fi, env)
                    types = [t for nid2, t in lits if nid2 < 0 or nid2 in live]
                    if kind == 'dict' and not types:
                        why = 'literal not built under these option values'
                    elif types and all(t is not None and static_live._reads(t, key_) is False for t in types):
                        why = f"placed at '{key_}' of a {'/'.join(sorted(set(types)))} object, whose reader never reads that key"
                reasons.append(why)
            if reasons and all(reasons):
                real = [w for w in reasons if w != 'literal not built under these option values']
                if real:
                    out = real[0]
                    break
        dead_memo[mk] = out
        return out

    # ---- references ------------------------------------------------------------------
    refs: List[Tuple[S, str, str]] = []
    n_sites = 0
    for fi in col.all_infos():
        for d in ast.walk(fi.fn):
            if not isinstance(d, ast.Dict) or enclosing_fn(d) is not fi.fn:
                continue
            t = literal_type(d)
            if t is None:
                continue
            info = readers.info(t)
            if info is None:
                continue
            if col.is_factory(fi) is None and static_live.slot_dead(d):
                continue
            for k, v in zip(d.keys, d.values):
                if not (isinstance(k, ast.Constant) and k.value in info.ref_keys):
                    continue
                n_sites += 1
                # an untyped mapping under a reference key (`"parameters": {"loc": "tree.root_height", "scale": 1.0}`): the reader resolves each string value
                vals = [(v, k.value)]
                if isinstance(v, ast.Dict) and literal_type(v) is None and not any(isinstance(kk, ast.Constant) and kk.value == 'id' for kk in v.keys):
                    vals = [(vv, f"{k.value}.{kk.value}") for kk, vv in zip(v.keys, v.values) if isinstance(kk, ast.Constant) and isinstance(vv, (ast.Constant, ast.JoinedStr, ast.Name))
                            and not (isinstance(vv, ast.Constant) and not isinstance(vv.value, str))]
                for vv, kname in vals:
                    if isinstance(vv, ast.Name) and vv is not v:
                        continue
                    s, _ = col.strings(vv, fi, 0, False)
                    for x in s:
                        refs.append((x.with_pt(col.pt(fi, d)), f"{t}.{kname}", f"{fi.module.path}:{getattr(vv, 'lineno', d.lineno)}"))
    rep.analysed['C19.R'] = {'definitions': len(defs), 'reference_sites': n_sites, 'reference_strings': len(refs)}
    if n_sites < 60 or len(refs) < 80:
        raise AnalysisError(f"only {n_sites} reference sites / {len(refs)} reference strings found")

    removals = getattr(col, 'removals', {})
    checked = 0
    seen_keys = set()
    static_rx = {}
    for i, (dfn, dl) in enumerate(defs):
        static_rx[i] = re.compile(dfn.regex({}))
    CAP = 3000

    def domain(o):
        return sorted(flow.fin[o].values, key=repr)

    def product_of(dims, cap):
        # dims: option -> distance; nearest tests first, then small domains
        size = 1
        kept = []
        for o in sorted(dims, key=lambda o: (dims[o], len(flow.fin[o].values))):
            n = len(flow.fin[o].values)
            if size * n <= cap:
                kept.append(o)
                size *= n
        return kept

    class _Cmd:
        values = set(ENTRY_POINTS(flow))
    flow.fin[CMD] = _Cmd

    class _Cmd:
        values = set(ENTRY_POINTS(flow))
    flow.fin[CMD] = _Cmd

    def domain(o):
        return sorted(flow.fin[o].values, key=repr)

    cond = Cond(reach)

    dead_opts_memo: Dict[int, Set[str]] = {}

    def dead_opts(dfn: S) -> Set[str]:
        """options that decide which literal receives the value a definition is part of"""
        k = id(dfn)
        if k not in dead_opts_memo:
            out = set()
            for slots in plan_of(dfn):
                for kind, fi, key_, lits in slots:
                    for nid2, _ in lits:
                        if nid2 >= 0:
                            out |= set(cond.anc_opts(fi, nid2))
            dead_opts_memo[k] = out
        return dead_opts_memo[k]

    n_skipped = 0
    grouped: Dict[tuple, list] = {}
    pending: list = []
    for r, slot, W in refs:
        if any(p == STAR for p in r.parts):
            continue
        hole_opts = sorted(r.opts())
        if any(o not in flow.fin for o in hole_opts):
            continue
        r_dnf = cond.of(r)
        if r_dnf is None:
            n_skipped += 1
            continue
        failing = []
        deciding: Set[str] = set()
        n_env = 0
        for cube in sorted(r_dnf, key=repr):
            base = dict(cube)
            free_holes = [o for o in hole_opts if o not in base]
            for hcombo in itertools.product(*[domain(o) for o in free_holes]):
                env0 = {**base, **dict(zip(free_holes, hcombo))}
                name = r.concrete({**flow.free_default, **env0})
                if name is None:
                    continue
                if any(reach.reachable([pt], env0) for pt in removals.get(id(r), [])):
                    continue
                cands = []
                for i, (dfn, dl) in enumerate(defs):
                    if dfn.opts():
                        if re.fullmatch(dfn.regex({}), name):
                            cands.append(i)
                    elif static_rx[i].fullmatch(name):
                        cands.append(i)
                cand_dnfs = []
                extra: Set[str] = set()
                covered = False
                for i in cands:
                    dfn = defs[i][0]
                    d = cond.of(dfn)
                    if d is None:
                        d = {()}
                    # cubes compatible with the reference's own assignment, without the keys it already fixes
                    res = set()
                    for c in d:
                        okc = True
                        rest = []
                        for k_, v_ in c:
                            if k_ in env0:
                                if env0[k_] != v_:
                                    okc = False
                                    break
                            else:
                                rest.append((k_, v_))
                        if okc:
                            res.add(frozenset(rest))
                    if not res:
                        continue
                    dopts = {o for o in dead_opts(dfn) if o in flow.fin and o not in env0}
                    hopts = {o for o in dfn.opts() if o in flow.fin and o not in env0}
                    if frozenset() in res and not dopts and not hopts and not dfn.opts():
                        if not dead_under(dfn, env0):
                            covered = True
                            break
                    cand_dnfs.append((i, res))
                    for c in res:
                        extra |= {k_ for k_, _ in c}
                    extra |= dopts | hopts
                if covered:
                    n_env += 1
                    continue
                extra = sorted(o for o in extra if o in flow.fin)
                size = 1
                for o in extra:
                    size *= len(flow.fin[o].values)
                if size > 50000:
                    n_skipped += 1
                    continue
                bad_env = None
                for xcombo in itertools.product(*[domain(o) for o in extra]):
                    xenv = dict(zip(extra, xcombo))
                    env = {**env0, **xenv}
                    n_env += 1
                    items = set(xenv.items())
                    ok = False
                    for i, res in cand_dnfs:
                        dfn = defs[i][0]
                        if dfn.opts() and not re.fullmatch(dfn.regex({**flow.free_default, **env}), name):
                            continue
                        if any(c <= items for c in res) and not dead_under(dfn, env):
                            ok = True
                            break
                    if not ok:
                        bad_env = env
                        break
                if bad_env is not None:
                    failing.append((name, bad_env))
                    # an option decides this case if some other value of it (everything else unchanged) lets a definition cover the reference
                    for o in extra:
                        for v2 in domain(o):
                            if v2 == bad_env[o]:
                                continue
                            env2 = {**bad_env, o: v2}
                            items2 = {(k_, v_) for k_, v_ in env2.items() if k_ in extra}
                            hit = False
                            for i, res in cand_dnfs:
                                dfn = defs[i][0]
                                if dfn.opts() and not re.fullmatch(dfn.regex({**flow.free_default, **env2}), name):
                                    continue
                                if any(c <= items2 for c in res) and not dead_under(dfn, env2):
                                    hit = True
                                    break
                            if hit:
                                deciding.add(o)
                                break
                    break
            if len(failing) >= 6:
                break
        checked += 1
        fn_name = r.pts[-1][0].fn.name if r.pts else '?'
        key = f"{slot}::{r.text()}@{fn_name}"
        if key in seen_keys:
            continue
        seen_keys.add(key)
        if failing:
            common = set(failing[0][1].items())
            for _, e in failing[1:]:
                common &= set(e.items())
            flags = sorted(o for o, v in common if v is True and o in flow.fin and set(flow.fin[o].values) == {True, False})
            if flags:
                pending.append((slot, fn_name, flags, failing[0][0], failing, W))
                continue
            name, env = failing[0]
            envtxt = ', '.join(f"{k}={v!r}" for k, v in sorted(env.items())) or 'every option value'
            # the option values that decide whether a definition of the id is emitted and that all failing environments share: they name *which* dangling case this is
            under = sorted((o, v) for o, v in common if o in deciding)
            if under:
                key = key + '::under::' + '+'.join(f"{o}={v}" for o, v in under)
            rep.bad('C19.R', key, W, {'environments': [', '.join(f"{k}={v!r}" for k, v in sorted(e.items())) for _, e in failing[:6]], 'count': len(failing)},
                    f"the emitted {slot} refers to '{name}', but under [{envtxt}] no object with that id is emitted (no definition of a matching id is reachable "
                    f"under these option values): torchtree stops with: Object with ID `{name}' not found")
        else:
            rep.ok('C19.R', key, W, {'reach_cubes': len(r_dnf), 'environments_checked': n_env})
    # references that only dangle when a switch is on are one finding per switch and referencing object; a reference that needs several
    # switches is filed under the one that explains most dangling references of that object
    votes: Dict[tuple, int] = {}
    for slot, fn_name, flags, name, failing, W in pending:
        for f in flags:
            votes[(slot, fn_name, f)] = votes.get((slot, fn_name, f), 0) + 1
    for slot, fn_name, flags, name, failing, W in pending:
        best = max(flags, key=lambda f: (votes[(slot, fn_name, f)], f))
        grouped.setdefault((slot, fn_name, (best,)), []).append((name, failing, W))
    for (slot, fn_name, flags), items in sorted(grouped.items()):
        names = sorted({n for n, _, _ in items})
        name, failing, W = items[0]
        env = failing[0][1]
        envtxt = ', '.join(f"{k}={v!r}" for k, v in sorted(env.items()))
        rep.bad('C19.R', f"{slot}@{fn_name}::with::{'+'.join('--' + f for f in flags)}", W,
                {'ids': names, 'example_environment': envtxt},
                f"with {' '.join('--' + f for f in flags)} the {slot} emitted by {fn_name}() refers to {names[:8]}{' …' if len(names) > 8 else ''}, but no object with such an id is "
                f"emitted under e.g. [{envtxt}]: torchtree stops with: Object with ID `{names[0]}' not found")
    rep.analysed['C19.R']['references_not_representable'] = n_skipped
    rep.analysed['C19.R']['references_checked'] = checked


# ---------------------------------------------------------------------------
# C19.G — a size is never None
# ---------------------------------------------------------------------------
def check_none_sizes(ctx, rep):
    """`"full": [arg.X]` makes the size of a parameter out of a command-line option.  When X is a free-form option whose default is None, the emitted `"full": [null]` is
    rejected by torch.full when the file is loaded.  For every such site and every combination of finite option values under which it is reached, check_arguments (which runs
    before every builder) must reject X = None — i.e. some `parser.error(...)` is reached when check_arguments is specialised to that combination with X = None."""
    flow = Flow(ctx)
    readers = None
    from props.c19 import Readers
    col = Collector(ctx, flow, Readers(ctx))
    reach = Reach(flow, col)
    cond = Cond(reach)

    class _Cmd:
        values = set(ENTRY_POINTS(flow))
    flow.fin[CMD] = _Cmd
    guards = flow.fns.get('check_arguments', [])
    if not guards:
        raise AnalysisError('evolution.check_arguments not found')

    import copy
    from sa.cfg import CFG as _CFG
    from sa.util import local_assignments as _la

    guard_cfgs = [(g, _CFG(inline_tests(g.fn))) for g in guards]

    free_in_guards = sorted({x.attr for g in guards for x in ast.walk(g.fn) if isinstance(x, ast.Attribute) and isinstance(x.value, ast.Name) and x.value.id in ARG_NAMES
                             and x.attr not in flow.fin})

    fin_in_guards = sorted({x.attr for g in guards for x in ast.walk(g.fn) if isinstance(x, ast.Attribute) and isinstance(x.value, ast.Name) and x.value.id in ARG_NAMES
                            and x.attr in flow.fin})

    def rejected(env, o) -> bool:
        """some parser.error(...) of check_arguments is reached with option o missing, whatever the *other* free-form options it tests are (each is tried as missing and as
        given); tests the evaluator cannot decide are followed on both edges"""
        others = [x for x in free_in_guards if x != o]
        fin_open = [x for x in fin_in_guards if x not in env]
        doms = [[None, 1]] * len(others) + [sorted(flow.fin[x].values, key=repr) for x in fin_open]
        for combo in itertools.product(*doms):
            e_opts = {**env, **dict(zip(others + fin_open, combo)), o: None}
            hit = False
            for g, cfg in guard_cfgs:
                e = flow.env(g.module, e_opts, {}, {})
                succ = specialised_reach(cfg, e)
                by_id = {n_.id: n_ for n_ in cfg.nodes}
                live = reach_from(succ, [cfg.entry.id], by_id) | {cfg.entry.id}
                for node in cfg.stmt_nodes():
                    st = node.stmt
                    if node.id in live and isinstance(st, ast.Expr) and isinstance(st.value, ast.Call) and isinstance(st.value.func, ast.Attribute) and st.value.func.attr == 'error':
                        hit = True
            if not hit:
                return False
        return True
    n = 0
    for fi in col.all_infos():
        if col.is_factory(fi) is not None:
            continue
        for d in ast.walk(fi.fn):
            if not isinstance(d, ast.Dict) or enclosing_fn(d) is not fi.fn:
                continue
            for k, v in zip(d.keys, d.values):
                if not (isinstance(k, ast.Constant) and ((k.value == 'full' and isinstance(v, (ast.List, ast.Tuple))) or k.value == 'cutoff')):
                    continue
                for el in (v.elts if isinstance(v, (ast.List, ast.Tuple)) else [v]):
                    opts = [x.attr for x in ast.walk(el) if isinstance(x, ast.Attribute) and isinstance(x.value, ast.Name) and x.value.id in ARG_NAMES]
                    for o in opts:
                        if o in flow.fin or flow.free_default.get(o, UNKNOWN) is not None:
                            continue
                        n += 1
                        node = fi.stmt_node_of(d)
                        key = f"{fi.module.name.replace('torchtree.', '')}.{fi.fn.name}::{'full=[arg.' + o + ']' if k.value == 'full' else k.value + '=arg.' + o}#{getattr(d, 'lineno', 0) - fi.fn.lineno}"
                        if node is None:
                            rep.undecided('C19.G', key, f"{fi.module.path}:{d.lineno}", 'statement of the literal not found in the CFG')
                            continue
                        try:
                            dnf = dnf_simplify(dnf_and(cond.point(fi, node.id, ()), cond.feasible(fi)))
                        except TooBig:
                            rep.undecided('C19.G', key, f"{fi.module.path}:{d.lineno}", 'reach condition too large')
                            continue
                        if not dnf:
                            rep.undecided('C19.G', key, f"{fi.module.path}:{d.lineno}", 'the site is not reachable under any accepted option combination the analysis can represent')
                            continue
                        bad = None
                        for cube in sorted(dnf, key=repr):
                            env = {**dict(cube), o: None}
                            env.pop(CMD, None)
                            if not rejected(env, o):
                                bad = cube
                                break
                        envtxt = ', '.join(f"{k_}={v_!r}" for k_, v_ in (bad or ()))
                        rep.check('C19.G', key, bad is None, f"{fi.module.path}:{d.lineno}", {'option': o, 'reach_cubes': len(dnf)},
                                  f"{fi.fn.name} writes `--{o}` into a value the reader needs as a number (\"{k.value}\": {norm_text(v)[:30]}); the option is optional (default None) and "
                                  f"under [{envtxt}] check_arguments lets a missing --{o} through (for some value of the other options it tests): the emitted file contains null "
                                  f"there and torchtree stops in torch.full / torch.linspace when loading it")
    rep.analysed['C19.G'] = {'sites': n}
    if n < 3:
        rep.incomplete('C19.G', '*', '', f"only {n} option-valued sizes found")


# ---------------------------------------------------------------------------
# C19.D — the object a reference resolves to offers what the referencing object reads on it
# ---------------------------------------------------------------------------
def _required_attributes(ctx, cls) -> Dict[str, Set[str]]:
    """JSON key -> attributes the class reads on the object that key refers to (in from_json, in the constructor parameter that receives it and on the member it is stored in)"""
    from sa.members import self_attr
    fj = cls.resolve('from_json')
    if not fj:
        return {}
    fn = fj[1]
    data = fn.args.args[1].arg if len(fn.args.args) > 1 else 'data'
    bound: Dict[str, str] = {}       # local name -> key
    for st in ast.walk(fn):
        if isinstance(st, ast.Assign) and len(st.targets) == 1 and isinstance(st.targets[0], ast.Name) and isinstance(st.value, ast.Call):
            fname = (dotted_name(st.value.func) or '').split('.')[-1]
            if fname in ('process_object', 'process_objects') and st.value.args:
                a0 = st.value.args[0]
                if isinstance(a0, ast.Subscript) and isinstance(a0.value, ast.Name) and a0.value.id == data and isinstance(a0.slice, ast.Constant):
                    bound[st.targets[0].id] = a0.slice.value
    req: Dict[str, Set[str]] = {}

    from sa.cfg import CFG
    LISTISH = {'append', 'extend', 'items', 'keys', 'values', 'get', 'pop', 'insert', 'sort', 'index', 'count', 'copy'}

    def reads_on(scope, name, key):
        """attributes read on `name` by statements that lie on every path through `scope` (a read under a condition is not required of every object)"""
        try:
            cfg = CFG(scope)
        except Exception:
            return
        for node in cfg.stmt_nodes():
            st = node.stmt
            if st is None or isinstance(st, (ast.If, ast.For, ast.While, ast.Try, ast.With)):
                continue
            attrs = {x.attr for x in ast.walk(st) if isinstance(x, ast.Attribute) and isinstance(x.value, ast.Name) and x.value.id == name and isinstance(x.ctx, ast.Load)} - LISTISH
            if attrs and cfg.must_pass(cfg.entry, cfg.exit, [node]):
                req.setdefault(key, set()).update(attrs)
    for nm, key in bound.items():
        reads_on(fn, nm, key)
    # constructor parameter receiving it
    init = cls.resolve('__init__')
    if init:
        params = [a.arg for a in init[1].args.args][1:]
        for c in ast.walk(fn):
            if isinstance(c, ast.Call) and isinstance(c.func, ast.Name) and c.func.id == 'cls':
                binds = dict(zip(params, c.args))
                binds.update({k.arg: k.value for k in c.keywords if k.arg})
                for pname, v in binds.items():
                    if isinstance(v, ast.Name) and v.id in bound:
                        key = bound[v.id]
                        for k2 in cls.internal_mro():
                            i2 = k2.methods.get('__init__')
                            if i2 is None or pname not in [a.arg for a in i2.args.args]:
                                continue
                            reads_on(i2, pname, key)
    return req


def check_reference_types(ctx, rep):
    from props.c19 import Readers, literal_type
    from sa.members import instance_members
    flow = Flow(ctx)
    readers = Readers(ctx)
    col = Collector(ctx, flow, readers)
    reach = Reach(flow, col)
    cond = Cond(reach)

    class _Cmd:
        values = set(ENTRY_POINTS(flow))
    flow.fin[CMD] = _Cmd
    registered = ctx.classes.registered()

    def class_of(tname):
        c = registered.get(tname) or registered.get(tname.split('.')[-1])
        return c
    # definitions with a constant type
    defs = []
    for fi in col.all_infos():
        for d in ast.walk(fi.fn):
            if isinstance(d, ast.Dict) and enclosing_fn(d) is fi.fn:
                t = literal_type(d)
                idv = next((v for k, v in zip(d.keys, d.values) if isinstance(k, ast.Constant) and k.value == 'id'), None)
                if t is None or idv is None:
                    continue
                s, _ = col.strings(idv, fi, 0, True)
                for x in s:
                    if all(isinstance(p, str) for p in x.parts):
                        defs.append((''.join(x.parts), t, x.with_pt(col.pt(fi, d)), f"{fi.module.path}:{d.lineno}"))
    req_cache: Dict[str, Dict[str, Set[str]]] = {}
    mem_cache: Dict[str, Set[str]] = {}
    n = 0
    seen = set()
    for fi in col.all_infos():
        for d in ast.walk(fi.fn):
            if not isinstance(d, ast.Dict) or enclosing_fn(d) is not fi.fn:
                continue
            t = literal_type(d)
            ccls = class_of(t) if t else None
            if ccls is None:
                continue
            if t not in req_cache:
                req_cache[t] = _required_attributes(ctx, ccls)
            req = req_cache[t]
            for k, v in zip(d.keys, d.values):
                if not (isinstance(k, ast.Constant) and k.value in req and req[k.value]):
                    continue
                s, _ = col.strings(v, fi, 0, False)
                for x in s:
                    if not all(isinstance(p, str) for p in x.parts):
                        continue
                    name = ''.join(x.parts)
                    r_s = x.with_pt(col.pt(fi, d))
                    for dname, dt, d_s, dloc in defs:
                        if dname != name:
                            continue
                        pcls = class_of(dt)
                        if pcls is None:
                            continue
                        if dt not in mem_cache:
                            mem_cache[dt] = instance_members(pcls)
                        missing = sorted(a for a in req[k.value] if a not in mem_cache[dt] and not a.startswith('__'))
                        key = f"{t}.{k.value}->{name}:{dt}"
                        if key in seen:
                            continue
                        n += 1
                        if not missing:
                            seen.add(key)
                            rep.ok('C19.D', key, f"{fi.module.path}:{d.lineno}", {'reads': sorted(req[k.value])})
                            continue
                        def variants(fi_, s_):
                            """the template with each call site of its function appended (function parameters tested on the way are then bound by that call)"""
                            sites = col.sites_of(fi_) if col.is_factory(fi_) is None else []
                            out_ = []
                            for c_fi, call in sites:
                                n_ = c_fi.stmt_node_of(call)
                                if n_ is not None:
                                    out_.append(s_.with_pt((c_fi, n_.id)))
                            return out_ or [s_]
                        d_fi = d_s.pts[-1][0] if d_s.pts else None
                        both = set()
                        try:
                            for ra in variants(fi, r_s):
                                ca = cond.of(ra)
                                if ca is None:
                                    both = None
                                    break
                                for db in (variants(d_fi, d_s) if d_fi is not None else [d_s]):
                                    cb = cond.of(db)
                                    if cb is None:
                                        both = None
                                        break
                                    both |= dnf_and(ca, cb)
                                if both is None:
                                    break
                        except TooBig:
                            both = None
                        if both is None:
                            seen.add(key)
                            rep.undecided('C19.D', key, f"{fi.module.path}:{d.lineno}", 'co-reachability of the reference and the definition is not representable')
                            continue
                        if not both:
                            continue
                        seen.add(key)
                        cube = sorted(both, key=repr)[0]
                        envtxt = ', '.join(f"{a}={b!r}" for a, b in cube)
                        rep.bad('C19.D', key, f"{fi.module.path}:{d.lineno}", {'reads': sorted(req[k.value]), 'missing_on': dt, 'defined_at': dloc, 'example_environment': envtxt},
                                f"the emitted {t} refers to '{name}' through its '{k.value}' key and reads {missing} on it, but under [{envtxt}] the object with that id is a {dt}, "
                                f"which has no such member: torchtree stops with AttributeError when the {t} is built or first used")
    rep.analysed['C19.D'] = {'reference_definition_pairs': n}
    if n < 5:
        rep.incomplete('C19.D', '*', '', f"only {n} reference / definition pairs with attribute reads found")


# ---------------------------------------------------------------------------
# C19.O — side channels on the option object are written before they are read
# ---------------------------------------------------------------------------
def check_side_channels(ctx, rep):
    """The builders pass computed values to each other through private attributes of the argparse namespace (`arg._coalescent_init = …` in one function, read with a silent
    fallback — `… if "_coalescent_init" in arg else 100.0` — in another).  In every function that (transitively) calls both a writer and a reader of such an attribute, a call
    that reaches a writer dominates every call that reaches a reader; otherwise the reader silently takes its fallback and the requested value is dropped.  A function that
    initialises the attribute itself before reading it (`if not hasattr(arg, '_x'): arg._x = …`) is not a reader."""
    from sa.cfg import CFG
    table = {}
    for mname, m in ctx.prog.modules.items():
        if mname.startswith('torchtree.cli'):
            for fname, f in m.functions.items():
                table.setdefault(fname, (m, f))
    writes: Dict[str, Set[str]] = {}
    reads: Dict[str, Set[str]] = {}
    for fname, (m, f) in table.items():
        w, r = set(), set()
        for x in ast.walk(f):
            if isinstance(x, ast.Attribute) and isinstance(x.value, ast.Name) and x.value.id in ARG_NAMES and x.attr.startswith('_') and not x.attr.startswith('__'):
                (w if isinstance(x.ctx, ast.Store) else r).add(x.attr)
            if isinstance(x, ast.Compare) and isinstance(x.left, ast.Constant) and isinstance(x.left.value, str) and x.left.value.startswith('_') and len(x.ops) == 1 \
                    and isinstance(x.ops[0], (ast.In, ast.NotIn)) and isinstance(x.comparators[0], ast.Name) and x.comparators[0].id in ARG_NAMES:
                r.add(x.left.value)
        for a in w:
            writes.setdefault(a, set()).add(fname)
        for a in r - w:          # a function that also writes the attribute initialises it lazily
            reads.setdefault(a, set()).add(fname)

    def callees(f):
        out = set()
        for c in ast.walk(f):
            if isinstance(c, ast.Call):
                nm = c.func.id if isinstance(c.func, ast.Name) else (c.func.attr if isinstance(c.func, ast.Attribute) else None)
                if nm in table:
                    out.add(nm)
        return out
    closure: Dict[str, Set[str]] = {}

    def reach(fname, seen=None):
        if fname in closure:
            return closure[fname]
        seen = seen or set()
        out = {fname}
        for g in callees(table[fname][1]):
            if g not in seen:
                out |= reach(g, seen | {fname})
        closure[fname] = out
        return out
    n = 0
    for attr in sorted(set(writes) & set(reads)):
        W, R = writes[attr], reads[attr]
        for fname, (m, f) in sorted(table.items()):
            calls = [(st, c) for st in ast.walk(f) if isinstance(st, ast.stmt) and not isinstance(st, (ast.If, ast.For, ast.While, ast.With, ast.Try, ast.FunctionDef))
                     for c in ast.walk(st) if isinstance(c, ast.Call) and ((isinstance(c.func, ast.Name) and c.func.id in table) or (isinstance(c.func, ast.Attribute) and c.func.attr in table))]
            if not calls:
                continue
            wr = [(st, c) for st, c in calls if reach(c.func.id if isinstance(c.func, ast.Name) else c.func.attr) & W]
            rd = [(st, c) for st, c in calls if reach(c.func.id if isinstance(c.func, ast.Name) else c.func.attr) & R and not (reach(c.func.id if isinstance(c.func, ast.Name) else c.func.attr) & W)]
            if not wr or not rd:
                continue
            cfg = CFG(f)
            for st, c in rd:
                n += 1
                try:
                    rn = cfg.node_of(st)
                    wn = [cfg.node_of(s2) for s2, _ in wr]
                except KeyError:
                    continue
                ok = any(cfg.dominates(w_, rn) and w_ is not rn for w_ in wn)
                # within one statement Python evaluates operands left to right: a writer call written before the reader call runs first
                if not ok:
                    ok = any(s2 is st and (c2.lineno, c2.col_offset) < (c.lineno, c.col_offset) and not any(y is c2 for y in ast.walk(c)) for s2, c2 in wr)
                rname = c.func.id if isinstance(c.func, ast.Name) else c.func.attr
                rep.check('C19.O', f"{m.name.replace('torchtree.', '')}.{fname}::arg.{attr}::written-before-{rname}", ok, f"{m.path}:{st.lineno}",
                          {'writers': sorted(W), 'readers': sorted(R)},
                          f"{fname} calls {rname}() (which reads arg.{attr} with a silent fallback, in {sorted(reach(rname) & R)}) on a path where no call that sets it "
                          f"({sorted(W)}) has run yet: the value requested on the command line is dropped and the default is emitted instead")
    rep.analysed['C19.O'] = {'channels': sorted(set(writes) & set(reads)), 'ordered_call_pairs': n}
    if n < 1:
        rep.incomplete('C19.O', '*', '', 'no function calling both a writer and a reader of a private option attribute found')


# ---------------------------------------------------------------------------
# C19.Z — an option for which 0 and "not given" mean different things is never tested by truthiness
# ---------------------------------------------------------------------------
def check_zero_versus_missing(ctx, rep):
    """Some options carry two distinct "falsy" meanings: `--dates 0` (contemporaneous taxa) versus no `--dates` (None: dates are read from the taxon names).  Where the builders
    themselves tell the two apart (the option is compared with 0 / '' / False somewhere *and* tested against None somewhere), a bare truthiness test (`if arg.x`, `not arg.x`)
    lumps them together and takes the branch meant for one of them under the other."""
    falsy_cmp: Dict[str, list] = {}
    none_cmp: Dict[str, list] = {}
    bare: Dict[str, list] = {}
    for mname, m in sorted(ctx.prog.modules.items()):
        if not mname.startswith('torchtree.cli'):
            continue
        for x in ast.walk(m.tree):
            if isinstance(x, ast.Compare) and len(x.ops) == 1 and isinstance(x.left, ast.Attribute) and isinstance(x.left.value, ast.Name) and x.left.value.id in ARG_NAMES:
                c = x.comparators[0]
                if isinstance(c, ast.Constant):
                    if c.value is None and isinstance(x.ops[0], (ast.Is, ast.IsNot, ast.Eq, ast.NotEq)):
                        none_cmp.setdefault(x.left.attr, []).append((m, x))
                    elif c.value in (0, '', False) and not isinstance(c.value, type(None)) and isinstance(x.ops[0], (ast.Eq, ast.NotEq, ast.Is, ast.IsNot)):
                        falsy_cmp.setdefault(x.left.attr, []).append((m, x))
            # bare truthiness: the option itself is the test of an if / while / conditional expression / operand of not / and / or
            if isinstance(x, ast.Attribute) and isinstance(x.value, ast.Name) and x.value.id in ARG_NAMES and isinstance(x.ctx, ast.Load):
                par = getattr(x, '_parent', None)
                is_test = (isinstance(par, (ast.If, ast.While, ast.IfExp)) and par.test is x) or (isinstance(par, ast.UnaryOp) and isinstance(par.op, ast.Not)) or \
                    (isinstance(par, ast.BoolOp) and any(v is x for v in par.values) and _bool_context(par))
                if is_test:
                    bare.setdefault(x.attr, []).append((m, x))
    both = sorted(set(falsy_cmp) & set(none_cmp))
    for o in both:
        sites = bare.get(o, [])
        if not sites:
            rep.ok('C19.Z', f"--{o}::0-and-missing-never-lumped-together", f"{falsy_cmp[o][0][0].path}:{falsy_cmp[o][0][1].lineno}",
                   {'compared_with_a_falsy_constant': len(falsy_cmp[o]), 'tested_against_None': len(none_cmp[o])})
        for k, (m, x) in enumerate(sites):
            rep.bad('C19.Z', f"--{o}::truthiness-test#{k}", f"{m.path}:{x.lineno}", {'test': norm_text(getattr(x, '_parent', x))[:60]},
                    f"`{norm_text(getattr(x, '_parent', x))[:60]}` tests arg.{o} by truthiness, but elsewhere the builders distinguish arg.{o} == {falsy_cmp[o][0][1].comparators[0].value!r} "
                    f"from arg.{o} is None (line {none_cmp[o][0][1].lineno}): the two cases are lumped together here and the branch written for one of them is taken for the other")
    if len(both) < 1:
        rep.incomplete('C19.Z', '*', '', 'no option that is both compared with a falsy constant and tested against None')


def _bool_context(node) -> bool:
    p = getattr(node, '_parent', None)
    while isinstance(p, (ast.BoolOp, ast.UnaryOp)):
        node, p = p, getattr(p, '_parent', None)
    return isinstance(p, (ast.If, ast.While, ast.IfExp)) and p.test is node


# ---------------------------------------------------------------------------
# C19.O (addition) — define-or-refer objects: whoever runs first carries the definition, so whoever runs first is emitted first
# ---------------------------------------------------------------------------
def lazy_definers(table):
    """attr -> functions that contain `if not hasattr(arg, '_attr'): arg._attr = <definition>` (inline definition on first use, a reference by id afterwards)"""
    out: Dict[str, Set[str]] = {}
    for fname, (m, f) in table.items():
        for st in ast.walk(f):
            if isinstance(st, ast.If) and isinstance(st.test, ast.UnaryOp) and isinstance(st.test.op, ast.Not) and isinstance(st.test.operand, ast.Call) \
                    and isinstance(st.test.operand.func, ast.Name) and st.test.operand.func.id == 'hasattr' and len(st.test.operand.args) == 2 \
                    and isinstance(st.test.operand.args[1], ast.Constant) and isinstance(st.test.operand.args[0], ast.Name) and st.test.operand.args[0].id in ARG_NAMES:
                attr = st.test.operand.args[1].value
                if any(isinstance(x, ast.Attribute) and isinstance(x.ctx, ast.Store) and x.attr == attr for b in st.body for x in ast.walk(b)):
                    out.setdefault(attr, set()).add(fname)
    return out


def check_first_user_is_emitted_first(ctx, rep):
    """The specification list is processed in order and a string is a reference to an object defined EARLIER.  A shared object that is written inline by whichever builder
    asks first (`if not hasattr(arg, '_data_type')`) therefore has to be asked for in the order in which the results are emitted: in every function that calls two builders
    reaching such a definition, the one that is called first is the one that comes first in the list."""
    table = {}
    for mname, m in ctx.prog.modules.items():
        if mname.startswith('torchtree.cli'):
            for fname, f in m.functions.items():
                table.setdefault(fname, (m, f))
    definers = lazy_definers(table)
    if not definers:
        rep.incomplete('C19.O', 'define-or-refer', '', 'no lazily defined shared object found (arg._data_type expected)')
        return

    def callees(f):
        return {c.func.id for c in ast.walk(f) if isinstance(c, ast.Call) and isinstance(c.func, ast.Name) and c.func.id in table}
    closure: Dict[str, Set[str]] = {}

    def reach(fname, seen=frozenset()):
        if fname in closure:
            return closure[fname]
        out = {fname}
        for g in callees(table[fname][1]):
            if g not in seen:
                out |= reach(g, seen | {fname})
        if not seen:
            closure[fname] = out
        return out
    n = 0
    for attr, D in sorted(definers.items()):
        for fname, (m, f) in sorted(table.items()):
            # executed order: statements in source order, calls inside a statement left to right
            calls = []
            for st in [s for s in ast.walk(f) if isinstance(s, ast.stmt) and not isinstance(s, (ast.If, ast.For, ast.While, ast.With, ast.Try, ast.FunctionDef))]:
                for c in ast.walk(st):
                    if isinstance(c, ast.Call) and isinstance(c.func, ast.Name) and c.func.id in table and c.func.id not in D and reach(c.func.id) & D or \
                            (isinstance(c, ast.Call) and isinstance(c.func, ast.Name) and c.func.id in D):
                        calls.append((st, c))
            if len(calls) < 2:
                continue
            calls.sort(key=lambda sc: (sc[1].lineno, sc[1].col_offset))

            # emitted position: where the value of the call (or the local it was assigned to) is put into a list — an element of a list display or the argument of append / insert
            def emitted(st, c):
                names = {t.id for t in (st.targets if isinstance(st, ast.Assign) else []) if isinstance(t, ast.Name)} if any(c is st.value for _ in [0] if isinstance(st, ast.Assign)) else set()
                best = None
                for s2 in ast.walk(f):
                    if isinstance(s2, ast.List):
                        for i, el in enumerate(s2.elts):
                            if el is c or (isinstance(el, ast.Name) and el.id in names):
                                pos = (s2.lineno, s2.col_offset, i)
                                best = pos if best is None or pos < best else best
                    if isinstance(s2, ast.Call) and isinstance(s2.func, ast.Attribute) and s2.func.attr in ('append', 'extend') and s2.args:
                        a = s2.args[0]
                        if a is c or (isinstance(a, ast.Name) and a.id in names):
                            pos = (s2.lineno, s2.col_offset, 0)
                            best = pos if best is None or pos < best else best
                return best
            placed = [(st, c, emitted(st, c)) for st, c in calls]
            placed = [x for x in placed if x[2] is not None]
            if len(placed) < 2:
                continue
            n += 1
            bad = [(a, b) for i, a in enumerate(placed) for b in placed[i + 1:] if b[2] < a[2]]
            first = bad[0] if bad else None
            rep.check('C19.O', f"{m.name.replace('torchtree.', '')}.{fname}::arg.{attr}::first-user-is-emitted-first", not bad, where(m, first[0][1]) if first else where(m, f),
                      {'definers': sorted(D), 'calls_in_execution_order': [c.func.id for _, c, _ in placed]},
                      f"{fname} calls {first[0][1].func.id if first else ''}() before {first[1][1].func.id if first else ''}() but emits its result after it: the object kept in "
                      f"arg.{attr} is written inline by whichever of them runs first and referred to by id by the other, so the specification now refers to '{attr.lstrip('_')}' "
                      f"before the entry that defines it and torchtree rejects the file")
    rep.analysed.setdefault('C19.O', {})['define_or_refer'] = {'attributes': sorted(definers), 'functions_with_two_users': n}
    if n < 3:
        rep.incomplete('C19.O', 'define-or-refer', '', f"only {n} functions calling two users of a lazily defined object found")
