"""C16 — the leapfrog integrator is reversible and volume preserving; Hastings = ΔK.

LeapfrogIntegrator.__call__ is abstractly executed (loop unrolled for N = 1, 2, 3) in the
domain of linear forms over the atoms  q0, p0, g_k = ∇log π(q at the k-th evaluation)  with
coefficients that are polynomials in ε and M⁻¹, and compared with the Störmer–Verlet
reference written in the checker (a composition of shears with palindromic coefficients).
"""
from __future__ import annotations

import ast
from typing import Dict, List, Optional, Tuple

from sa.cfg import CFG
from sa.loader import AnalysisError, Unsupported, dotted_name, norm_text
from sa.members import self_attr
from sa.poly import Rat, ToRat
from sa.report import where
from sa.util import local_assignments, method_calls

INTEGRATOR = 'torchtree.inference.hmc.integrator.LeapfrogIntegrator'
HMCOP = 'torchtree.inference.hmc.operator.HMCOperator'
HAM = 'torchtree.inference.hmc.hamiltonian.Hamiltonian'


class Lin:
    """linear form: atom -> Rat coefficient"""

    def __init__(self, d=None):
        self.d: Dict[str, Rat] = {k: v for k, v in (d or {}).items() if not v.is_zero()}

    @staticmethod
    def atom(a):
        return Lin({a: Rat.const(1)})

    def __add__(self, o):
        d = dict(self.d)
        for k, v in o.d.items():
            d[k] = d[k] + v if k in d else v
        return Lin(d)

    def __neg__(self):
        return Lin({k: -v for k, v in self.d.items()})

    def __sub__(self, o):
        return self + (-o)

    def scale(self, r: Rat):
        return Lin({k: v * r for k, v in self.d.items()})

    def equals(self, o) -> bool:
        keys = set(self.d) | set(o.d)
        for k in keys:
            a = self.d.get(k, Rat.const(0))
            b = o.d.get(k, Rat.const(0))
            if not a.equals(b):
                return False
        return True

    def __repr__(self):
        return ' + '.join(f"({v})*{k}" for k, v in sorted(self.d.items())) or '0'


EPS = Rat.sym('eps')
MINV = Rat.sym('Minv')


NBLK = 2  # the abstract operator holds two parameters of sizes n0, n1 (catches offset / slicing errors)


class Vec:
    """blockwise value: one linear form per parameter block"""

    def __init__(self, blocks):
        self.b = list(blocks)

    @staticmethod
    def atom(a):
        return Vec([Lin.atom(a) for _ in range(NBLK)])

    def __add__(self, o):
        return Vec([x + y for x, y in zip(self.b, o.b)])

    def __sub__(self, o):
        return Vec([x - y for x, y in zip(self.b, o.b)])

    def __neg__(self):
        return Vec([-x for x in self.b])

    def scale(self, r):
        return Vec([x.scale(r) for x in self.b])

    def equals(self, o):
        return all(x.equals(y) for x, y in zip(self.b, o.b))

    def __repr__(self):
        if all(self.b[0].equals(x) for x in self.b[1:]):
            return repr(self.b[0])
        return '[' + ' | '.join(repr(x) for x in self.b) + ']'


class Blk:
    """value of a single parameter block j"""

    def __init__(self, j, lin):
        self.j = j
        self.lin = lin

    def __add__(self, o):
        if isinstance(o, Blk) and o.j == self.j:
            return Blk(self.j, self.lin + o.lin)
        raise Unsupported(None, 'sum of values belonging to different parameter blocks')

    def __sub__(self, o):
        if isinstance(o, Blk) and o.j == self.j:
            return Blk(self.j, self.lin - o.lin)
        raise Unsupported(None, 'difference of values belonging to different parameter blocks')

    def __neg__(self):
        return Blk(self.j, -self.lin)

    def scale(self, r):
        return Blk(self.j, self.lin.scale(r))


def off_add(a, b):
    d = dict(a)
    for k, v in b.items():
        d[k] = d.get(k, 0) + v
    return {k: v for k, v in d.items() if v}


def off_prefix(j):
    return {i: 1 for i in range(j)}


class Exec:
    """abstract execution of the integrator body"""

    def __init__(self, fn: ast.FunctionDef, module, n_steps: int, helpers=None):
        self.fn = fn
        self.module = module
        self.n = n_steps
        self.helpers = helpers or {}
        params = [a.arg for a in fn.args.args]
        # (self, model, parameters, momentum, inverse_mass_matrix)
        if len(params) < 5:
            raise Unsupported(fn, 'integrator signature not understood')
        self.model, self.parameters, self.momentum, self.minv = params[1], params[2], params[3], params[4]
        self.env: Dict[str, object] = {self.momentum: Vec.atom('p0')}
        self.leaf: Optional[Vec] = None  # value the model's leaves hold
        self.fresh = [False] * NBLK
        self.evals: List[Vec] = []  # q at each gradient evaluation
        self.grad_of: Optional[int] = None  # evaluation index whose gradient sits in .grad
        self.problems: List[str] = []
        self.raises: List[str] = []
        self.ret: Optional[Vec] = None
        self.param_names = {self.parameters}

    # -- scalars -----------------------------------------------------------
    def scalar(self, e) -> Optional[Rat]:
        try:
            return ToRat(self._scalar_atom)(e)
        except Unsupported:
            return None

    def _scalar_atom(self, e):
        if self_attr(e) == 'step_size':
            return EPS
        if isinstance(e, ast.Name) and isinstance(self.env.get(e.id), Rat):
            return self.env[e.id]
        return None

    def cur_leaf(self) -> Vec:
        return self.leaf if self.leaf is not None else Vec.atom('q0')

    # -- offsets -------------------------------------------------------------
    def offset(self, e) -> Optional[dict]:
        if isinstance(e, ast.Constant) and e.value == 0:
            return {}
        if isinstance(e, ast.Name) and isinstance(self.env.get(e.id), dict):
            return self.env[e.id]
        if isinstance(e, ast.Subscript) and isinstance(e.value, ast.Attribute) and e.value.attr == 'shape' and isinstance(e.value.value, ast.Name):
            p = self.env.get(e.value.value.id)
            if isinstance(p, tuple) and p[0] == 'param':
                return {p[1]: 1}
        if isinstance(e, ast.BinOp) and isinstance(e.op, ast.Add):
            a, b = self.offset(e.left), self.offset(e.right)
            if a is not None and b is not None:
                return off_add(a, b)
        return None

    # -- values ------------------------------------------------------------
    def value(self, e):
        if isinstance(e, ast.Name):
            v = self.env.get(e.id)
            if isinstance(v, (Vec, Blk)):
                return v
            raise Unsupported(e, f"{e.id} has no tracked value")
        if isinstance(e, ast.UnaryOp) and isinstance(e.op, ast.USub):
            return -self.value(e.operand)
        if isinstance(e, ast.Attribute) and e.attr in ('tensor', 'grad') and isinstance(e.value, ast.Name):
            p = self.env.get(e.value.id)
            if isinstance(p, tuple) and p[0] == 'param':
                if e.attr == 'tensor':
                    return Blk(p[1], self.cur_leaf().b[p[1]])
                if self.grad_of is None:
                    raise Unsupported(e, 'gradient read before any backward()')
                return Blk(p[1], Lin.atom(f"g{self.grad_of}"))
        if isinstance(e, ast.Subscript):
            sl = e.slice
            elts = sl.elts if isinstance(sl, ast.Tuple) else [sl]
            last = elts[-1]
            if isinstance(last, ast.Slice) and last.lower is not None and last.upper is not None:
                base = self.value(e.value)
                lo, hi = self.offset(last.lower), self.offset(last.upper)
                if isinstance(base, Vec) and lo is not None and hi is not None:
                    for j in range(NBLK):
                        if lo == off_prefix(j) and hi == off_prefix(j + 1):
                            return Blk(j, base.b[j])
                    self.problems.append(f"line {e.lineno}: slice [{ast.unparse(last)}] does not select the block of the parameter being updated")
                    # the slice selects some other block: use block 0 of the vector (what start=0 would give)
                    for j in range(NBLK):
                        if lo == off_prefix(j):
                            return Blk(self._cur_param, base.b[j])
                    raise Unsupported(e, 'slice offsets not understood')
            raise Unsupported(e, f"subscript {ast.unparse(e)[:50]} not understood")
        if isinstance(e, ast.Call):
            f = e.func
            if isinstance(f, ast.Attribute) and f.attr in ('clone', 'detach', 'requires_grad_', 'contiguous') and not e.args:
                return self.value(f.value)
            dn = (dotted_name(f) or '').split('.')[-1]
            if dn == 'cat' and e.args and isinstance(e.args[0], (ast.ListComp, ast.GeneratorExp)):
                comp = e.args[0]
                it = comp.generators[0].iter
                if isinstance(it, ast.Name) and it.id in self.param_names:
                    chain = []
                    x = comp.elt
                    while isinstance(x, (ast.Call, ast.Attribute)):
                        if isinstance(x, ast.Call):
                            x = x.func
                        else:
                            chain.append(x.attr)
                            x = x.value
                    chain = list(reversed(chain))
                    if chain[:1] == ['tensor']:
                        return self.cur_leaf()
                    if chain[:1] == ['grad']:
                        if self.grad_of is None:
                            raise Unsupported(e, 'gradient read before any backward()')
                        return Vec.atom(f"g{self.grad_of}")
            raise Unsupported(e, f"call {ast.unparse(e)[:50]} not understood")
        if isinstance(e, ast.BinOp):
            if isinstance(e.op, (ast.Add, ast.Sub)):
                a, b = self.value(e.left), self.value(e.right)
                if type(a) is not type(b):
                    raise Unsupported(e, 'whole vector combined with a single parameter block')
                return a + b if isinstance(e.op, ast.Add) else a - b
            if isinstance(e.op, (ast.Mult, ast.MatMult, ast.Div)):
                sl, sr = self.scalar_or_minv(e.left), self.scalar_or_minv(e.right)
                if isinstance(e.op, ast.Div):
                    if sr is None:
                        raise Unsupported(e, 'division by a non-scalar')
                    return self.value(e.left).scale(Rat.const(1) / sr)
                if sl is not None and sr is None:
                    return self.value(e.right).scale(sl)
                if sr is not None and sl is None:
                    return self.value(e.left).scale(sr)
                if sl is not None and sr is not None:
                    raise Unsupported(e, 'product of two scalars where a vector is expected')
                raise Unsupported(e, f"product {ast.unparse(e)[:50]} of two vectors")
        raise Unsupported(e, f"expression {ast.unparse(e)[:50]} not understood")

    def scalar_or_minv(self, e) -> Optional[Rat]:
        if isinstance(e, ast.Name) and e.id == self.minv:
            return MINV
        if isinstance(e, ast.BinOp) and isinstance(e.op, (ast.Mult, ast.Div, ast.MatMult)):
            a, b = self.scalar_or_minv(e.left), self.scalar_or_minv(e.right)
            if a is not None and b is not None:
                return a * b if not isinstance(e.op, ast.Div) else a / b
            return None
        return self.scalar(e)

    # -- concrete conditions on the step counter --------------------------------
    def concrete(self, e) -> Optional[int]:
        if isinstance(e, ast.Constant) and isinstance(e.value, int):
            return e.value
        if isinstance(e, ast.Name) and isinstance(self.env.get(e.id), int) and not isinstance(self.env.get(e.id), bool):
            return self.env[e.id]
        if self_attr(e) == 'steps':
            return self.n
        if isinstance(e, ast.BinOp) and isinstance(e.op, (ast.Add, ast.Sub)):
            a, b = self.concrete(e.left), self.concrete(e.right)
            if a is not None and b is not None:
                return a + b if isinstance(e.op, ast.Add) else a - b
        return None

    def concrete_test(self, t) -> Optional[bool]:
        if isinstance(t, ast.Compare) and len(t.ops) == 1:
            a, b = self.concrete(t.left), self.concrete(t.comparators[0])
            if a is None or b is None:
                return None
            op = t.ops[0]
            return {ast.Gt: a > b, ast.GtE: a >= b, ast.Lt: a < b, ast.LtE: a <= b, ast.Eq: a == b, ast.NotEq: a != b}.get(type(op))
        if isinstance(t, ast.UnaryOp) and isinstance(t.op, ast.Not):
            v = self.concrete_test(t.operand)
            return None if v is None else not v
        if isinstance(t, ast.BoolOp):
            vs = [self.concrete_test(v) for v in t.values]
            if any(v is None for v in vs):
                return None
            return all(vs) if isinstance(t.op, ast.And) else any(vs)
        return None

    # -- statements -----------------------------------------------------------
    def run(self):
        self.block(self.fn.body)
        return self

    def block(self, stmts):
        for st in stmts:
            if self.ret is not None:
                return
            self.stmt(st)

    def set_leaf_block(self, j, lin, st):
        cur = self.cur_leaf()
        blocks = list(cur.b)
        blocks[j] = lin
        self.leaf = Vec(blocks)
        self.fresh[j] = True

    def stmt(self, st):
        if isinstance(st, (ast.Assert, ast.Pass)) or (isinstance(st, ast.Expr) and isinstance(st.value, ast.Constant)):
            return
        if isinstance(st, ast.Return):
            if st.value is None:
                self.ret = Vec.atom('<none>')
                return
            self.ret = self.value(st.value)
            return
        if isinstance(st, ast.Assign) and len(st.targets) == 1:
            tgt = st.targets[0]
            v = st.value
            if isinstance(tgt, ast.Name):
                name = tgt.id
                if isinstance(v, ast.Call) and isinstance(v.func, ast.Name) and v.func.id == self.model:
                    if not all(self.fresh):
                        self.problems.append(f"line {st.lineno}: the model is evaluated without fresh leaf tensors for every parameter (no set_tensor / re-assignment "
                                             f"since the last backward): gradients accumulate in .grad")
                    self.evals.append(self.cur_leaf())
                    self.env[name] = ('U', len(self.evals) - 1)
                    return
                off = self.offset(v)
                if off is not None:
                    self.env[name] = off
                    return
                sc = self.scalar(v)
                if sc is not None and not any(isinstance(n, ast.Name) and isinstance(self.env.get(n.id), (Vec, Blk)) for n in ast.walk(v)):
                    self.env[name] = sc
                    return
                self.env[name] = self.value(v)
                return
            if isinstance(tgt, ast.Attribute) and tgt.attr == 'tensor' and isinstance(tgt.value, ast.Name):
                p = self.env.get(tgt.value.id)
                if isinstance(p, tuple) and p[0] == 'param':
                    self._cur_param = p[1]
                    val = self.value(v)
                    if not isinstance(val, Blk) or val.j != p[1]:
                        self.problems.append(f"line {st.lineno}: a parameter is assigned a value that is not its own block")
                        if not isinstance(val, Blk):
                            raise Unsupported(st, 'parameter assigned a whole vector')
                    self.set_leaf_block(p[1], val.lin, st)
                    return
            if isinstance(tgt, ast.Attribute) and tgt.attr == 'requires_grad':
                return
            raise Unsupported(st, f"assignment {norm_text(st)[:50]} not understood")
        if isinstance(st, ast.AugAssign) and isinstance(st.target, ast.Name):
            cur = self.env.get(st.target.id)
            if isinstance(cur, dict):
                off = self.offset(st.value)
                if off is None or not isinstance(st.op, ast.Add):
                    raise Unsupported(st, 'offset update not understood')
                self.env[st.target.id] = off_add(cur, off)
                return
            if not isinstance(cur, (Vec, Blk)):
                raise Unsupported(st, 'augmented assignment to an untracked name')
            rhs = self.value(st.value)
            if isinstance(st.op, ast.Add):
                self.env[st.target.id] = cur + rhs
            elif isinstance(st.op, ast.Sub):
                self.env[st.target.id] = cur - rhs
            else:
                raise Unsupported(st, 'augmented operator not understood')
            return
        if isinstance(st, ast.Expr) and isinstance(st.value, ast.Call):
            c = st.value
            dn = dotted_name(c.func) or ''
            if dn.split('.')[-1] in self.helpers and len(c.args) == 2:
                # helper(parameters, tensor): executed in the same abstract state
                h = self.helpers[dn.split('.')[-1]]
                hp = [a.arg for a in h.args.args]
                saved = dict(self.env)
                self.env[hp[0]] = ('params',)
                self.param_names = self.param_names | {hp[0]}
                self.env[hp[1]] = self.value(c.args[1])
                self.fresh = [False] * NBLK
                self.block(h.body)
                self.ret = None
                keep = {k: v for k, v in saved.items()}
                self.env = keep
                return
            if isinstance(c.func, ast.Attribute) and c.func.attr == 'backward' and isinstance(c.func.value, ast.Name):
                u = self.env.get(c.func.value.id)
                if not (isinstance(u, tuple) and u[0] == 'U'):
                    raise Unsupported(st, 'backward() on something that is not the model value')
                self.grad_of = u[1]
                self.fresh = [False] * NBLK
                return
            raise Unsupported(st, f"call {ast.unparse(c)[:50]} not understood")
        if isinstance(st, ast.If):
            calls = [(dotted_name(c.func) or '').split('.')[-1] for c in ast.walk(st.test) if isinstance(c, ast.Call)]
            if 'isnan' in calls or 'isinf' in calls or 'isfinite' in calls:
                for b in st.body:
                    for n in ast.walk(b):
                        if isinstance(n, ast.Raise) and n.exc is not None:
                            f = n.exc.func if isinstance(n.exc, ast.Call) else n.exc
                            self.raises.append((dotted_name(f) or '').split('.')[-1])
                if not all(isinstance(b, ast.Raise) for b in st.body) or st.orelse:
                    raise Unsupported(st, 'NaN guard that does more than raise')
                return
            cv = self.concrete_test(st.test)
            if cv is not None:
                self.block(st.body if cv else st.orelse)
                return
            if any(isinstance(n, ast.Name) and n.id == self.minv for n in ast.walk(st.test)):
                saved = (dict(self.env), self.leaf, list(self.fresh))
                self.block(st.body)
                a = (dict(self.env), self.leaf, list(self.fresh))
                self.env, self.leaf, self.fresh = dict(saved[0]), saved[1], list(saved[2])
                self.block(st.orelse)
                b = (self.env, self.leaf, self.fresh)
                for k in set(a[0]) | set(b[0]):
                    va, vb = a[0].get(k), b[0].get(k)
                    if isinstance(va, Vec) and isinstance(vb, Vec):
                        if not va.equals(vb):
                            self.problems.append(f"line {st.lineno}: diagonal and dense mass-matrix branches update `{k}` differently")
                    elif isinstance(va, (Vec, Blk)) != isinstance(vb, (Vec, Blk)):
                        self.problems.append(f"line {st.lineno}: branches disagree on `{k}`")
                if (a[1] is None) != (b[1] is None) or (a[1] is not None and not a[1].equals(b[1])):
                    self.problems.append(f"line {st.lineno}: diagonal and dense mass-matrix branches leave different positions in the parameters")
                self.env, self.leaf, self.fresh = a
                return
            raise Unsupported(st, 'conditional not understood')
        if isinstance(st, ast.For):
            it = st.iter
            if isinstance(it, ast.Call) and isinstance(it.func, ast.Name) and it.func.id == 'range' and len(it.args) == 1 \
                    and self.concrete(it.args[0]) is not None and isinstance(st.target, ast.Name):
                for k in range(self.concrete(it.args[0])):
                    self.env[st.target.id] = k
                    self.block(st.body)
                return
            if isinstance(it, ast.Name) and it.id in self.param_names and isinstance(st.target, ast.Name):
                for j in range(NBLK):
                    self.env[st.target.id] = ('param', j)
                    self._cur_param = j
                    self.block(st.body)
                return
            raise Unsupported(st, 'loop not understood')
        raise Unsupported(st, f"statement {norm_text(st)[:50]} not understood")


def reference(n: int):
    """Störmer–Verlet with g = ∇log π:  p += ε/2 g(q); [q += ε M⁻¹ p; p += ε g(q)]×n with the last ε/2."""
    q, p = Vec.atom('q0'), Vec.atom('p0')
    evals = [q]
    half = Rat.const(1) / Rat.const(2)
    p = p + Vec.atom('g0').scale(EPS * half)
    for k in range(1, n + 1):
        q = q + p.scale(EPS * MINV)
        evals.append(q)
        p = p + Vec.atom(f"g{k}").scale(EPS * (half if k == n else Rat.const(1)))
    return q, p, evals


def check_momentum_is_promoted_before_in_place_kicks(ctx, rep):
    """C16.P (addition) — the momentum arrives in the precision of the mass matrix, the gradients in that of the parameters.  An in-place kick (`momentum -= ε·dU`) cannot
    change the dtype of the momentum, an out-of-place one (`momentum = momentum − ε/2·dU`) takes the wider of the two.  Every in-place update of the momentum is therefore
    dominated by an out-of-place arithmetic update (or an explicit conversion) of it: with the first kick in place a float32 momentum stays float32 and every later kick is
    rounded to it — reversibility and the Hastings term are then good to 1e-7, not to round-off of the parameters."""
    from sa.cfg import CFG
    cls = ctx.classes.get(INTEGRATOR)
    r = cls.resolve('__call__')
    if r is None:
        raise AnalysisError('LeapfrogIntegrator.__call__ not found')
    fn, m = r[1], r[0].module
    names = [a.arg for a in fn.args.args if 'momentum' in a.arg]
    if len(names) != 1:
        rep.undecided('C16.P', 'LeapfrogIntegrator.__call__::momentum-promoted-before-in-place-kicks', where(m, fn), f"momentum parameter not identified ({names})")
        return
    M = names[0]
    cfg = CFG(fn)
    inplace = [n for n in cfg.stmt_nodes() if isinstance(n.stmt, ast.AugAssign) and isinstance(n.stmt.target, ast.Name) and n.stmt.target.id == M]
    promo = [n for n in cfg.stmt_nodes() if isinstance(n.stmt, ast.Assign) and any(isinstance(t, ast.Name) and t.id == M for t in n.stmt.targets) and (
        (isinstance(n.stmt.value, ast.BinOp) and any(isinstance(x, ast.Name) and x.id == M for x in ast.walk(n.stmt.value))
         and any(isinstance(x, ast.Name) and x.id != M for x in ast.walk(n.stmt.value)))
        or (isinstance(n.stmt.value, ast.Call) and isinstance(n.stmt.value.func, ast.Attribute) and n.stmt.value.func.attr in ('to', 'type', 'double', 'type_as')))]
    bad = [n for n in inplace if not any(cfg.dominates(p_, n) for p_ in promo)]
    key = 'LeapfrogIntegrator.__call__::momentum-promoted-before-in-place-kicks'
    if not inplace:
        rep.ok('C16.P', key, where(m, fn), {'in_place_updates': 0})
    else:
        rep.check('C16.P', key, not bad, where(m, bad[0].stmt if bad else fn), {'in_place_updates': len(inplace), 'out_of_place_updates_before': len(promo)},
                  f"`{norm_text(bad[0].stmt)[:60] if bad else ''}` updates the momentum in place before any out-of-place update has given it the precision of the gradients: with a "
                  f"float32 mass matrix and float64 parameters every kick is rounded to float32 — the trajectory is reversible only to 1e-7 and the Hastings term is a float32 number")


def check_integrator(ctx, rep):
    cls = ctx.classes.get(INTEGRATOR)
    r = cls.resolve('__call__')
    if r is None:
        raise AnalysisError('LeapfrogIntegrator.__call__ not found')
    fn = r[1]
    m = r[0].module
    W = where(m, fn)
    caught = set()
    for n in (1, 2, 3):
        try:
            helpers = {k: v for k, v in ctx.prog.module('torchtree.inference.hmc.integrator').functions.items()}
            ex = Exec(fn, m, n, helpers).run()
        except Unsupported as u:
            rep.undecided('C16.P', f"LeapfrogIntegrator.__call__::steps={n}", where(m, u.node), str(u))
            continue
        qr, pr, er = reference(n)
        facts = {'steps': n, 'momentum_returned': repr(ex.ret), 'position_left_in_model': repr(ex.leaf), 'reference_momentum': repr(pr),
                 'gradient_evaluations': len(ex.evals)}
        ok_p = ex.ret is not None and ex.ret.equals(pr)
        rep.check('C16.P', f"LeapfrogIntegrator.__call__::momentum::steps={n}", ok_p, W, facts,
                  f"with {n} step(s) the returned momentum is {ex.ret!r}; the leapfrog (half step, {n} full position steps, interior full momentum "
                  f"steps, half step, g=∇log π) gives {pr!r}: the map is not the palindromic composition of shears, so it is not reversible / second order")
        ok_q = ex.leaf is not None and ex.leaf.equals(qr)
        rep.check('C16.P', f"LeapfrogIntegrator.__call__::position::steps={n}", ok_q, W, facts,
                  f"with {n} step(s) the position left in the parameters is {ex.leaf!r}, the leapfrog gives {qr!r}")
        ok_e = len(ex.evals) == len(er) and all(a.equals(b) for a, b in zip(ex.evals, er))
        rep.check('C16.H', f"LeapfrogIntegrator.__call__::gradient-at-current-position::steps={n}", ok_e, W,
                  {'evaluated_at': [repr(e) for e in ex.evals], 'reference': [repr(e) for e in er]},
                  "a gradient used in a momentum update is not the gradient at the position reached by the preceding position update "
                  "(momentum updates must depend on q only and position updates on p only: shears)")
        rep.check('C16.G', f"LeapfrogIntegrator.__call__::fresh-gradients::steps={n}", not ex.problems, W, {'problems': ex.problems},
                  '; '.join(ex.problems) or '')
        caught |= set(ex.raises)
    # NaN checks raise the exception the operator catches
    op = ctx.classes.get(HMCOP)
    sfn = op.resolve('_step')[1]
    handled = set()
    for t in [n for n in ast.walk(sfn) if isinstance(n, ast.Try)]:
        for h in t.handlers:
            for x in ((h.type.elts if isinstance(h.type, ast.Tuple) else [h.type]) if h.type is not None else []):
                handled.add((dotted_name(x) or '').split('.')[-1])
    rep.check('C16.G', 'LeapfrogIntegrator.__call__::failures-raise-what-the-operator-catches', bool(caught) and caught <= handled, W,
              {'raised': sorted(caught), 'caught_by_HMCOperator._step': sorted(handled)},
              f"the integrator's NaN guards raise {sorted(caught)} but HMCOperator._step catches {sorted(handled)}: a numerical failure aborts the run "
              f"instead of being retried/rejected")
    # set_tensor: slices are consecutive and assigned through the setter with fresh leaves
    mod = ctx.prog.module('torchtree.inference.hmc.integrator')
    st_fn = mod.functions.get('set_tensor')
    if st_fn is None:
        raise AnalysisError('integrator.set_tensor not found')
    ok = False
    for loop in [n for n in ast.walk(st_fn) if isinstance(n, ast.For)]:
        assigns = [b for b in loop.body if isinstance(b, ast.Assign) and isinstance(b.targets[0], ast.Attribute) and b.targets[0].attr == 'tensor']
        advances = [b for b in loop.body if isinstance(b, ast.AugAssign) and isinstance(b.op, ast.Add)]
        if assigns and advances:
            a = assigns[0]
            fresh = any(isinstance(c, ast.Call) and isinstance(c.func, ast.Attribute) and c.func.attr == 'requires_grad_' for c in ast.walk(a.value))
            sl = [s for s in ast.walk(a.value) if isinstance(s, ast.Slice)]
            adv = advances[0]
            width_same = bool(sl) and sl[0].upper is not None and isinstance(sl[0].upper, ast.BinOp) \
                and ast.unparse(sl[0].upper.right) == ast.unparse(adv.value) and ast.unparse(sl[0].lower) == ast.unparse(adv.target)
            after = loop.body.index(adv) > loop.body.index(a)
            ok = fresh and width_same and after
    rep.check('C16.G', 'set_tensor::consecutive-fresh-leaves', ok, where(mod, st_fn), None,
              "set_tensor must give every parameter its own consecutive slice as a fresh leaf (requires_grad_) through the tensor setter")


def check_operator(ctx, rep):
    op = ctx.classes.get(HMCOP)
    fn = op.resolve('_step')[1]
    m = op.module
    W = where(m, fn)
    cfg = CFG(fn)

    def stmt_of(n):
        while not isinstance(n, ast.stmt):
            n = n._parent
        return n
    ke_calls = method_calls(fn, 'kinetic_energy')
    int_calls = [c for c in ast.walk(fn) if isinstance(c, ast.Call) and self_attr(c.func) == '_integrator']
    samp = method_calls(fn, 'sample_momentum')
    if len(ke_calls) != 2 or len(int_calls) != 1 or not samp:
        raise Unsupported(fn, f"HMCOperator._step: {len(ke_calls)} kinetic_energy, {len(int_calls)} integrator, {len(samp)} sample_momentum calls")
    ints = stmt_of(int_calls[0])
    ni = cfg.node_of(ints)
    int_target = ints.targets[0].id if isinstance(ints, ast.Assign) and isinstance(ints.targets[0], ast.Name) else None
    iargs = [ast.unparse(a) for a in int_calls[0].args]
    # K0 = the kinetic energy evaluated before the integrator on the momentum handed to it; K1 = after, on what it returns
    ke_stmts = [stmt_of(c) for c in ke_calls]
    before = [s_ for s_ in ke_stmts if ni.id in cfg.reachable_after(cfg.node_of(s_)) and cfg.node_of(s_).id not in cfg.reachable_after(ni, avoid={cfg.node_of(stmt_of(x)).id for x in samp})]
    after = [s_ for s_ in ke_stmts if s_ not in before]
    if len(before) != 1 or len(after) != 1:
        raise Unsupported(fn, 'cannot tell the kinetic energy before the integrator from the one after it')
    k0s, k1s = before[0], after[0]
    K0, K1 = k0s.targets[0].id, k1s.targets[0].id
    n0, n1 = cfg.node_of(k0s), cfg.node_of(k1s)
    c0 = [c for c in ke_calls if stmt_of(c) is k0s][0]
    c1 = [c for c in ke_calls if stmt_of(c) is k1s][0]
    args0 = [ast.unparse(a) for a in c0.args]
    args1 = [ast.unparse(a) for a in c1.args]
    same_m = len(args0) == 2 and len(args1) == 2 and args0[1] == args1[1]
    # every draw of the momentum that can reach the integrator call must pass through the K0 evaluation on its way
    pvars = {stmt_of(x).targets[0].id for x in samp if isinstance(stmt_of(x), ast.Assign) and isinstance(stmt_of(x).targets[0], ast.Name)}
    pvar = sorted(pvars)[0] if len(pvars) == 1 else None
    fresh_ok = pvar is not None
    stale = []
    # a "draw" is every statement that gives the momentum variable a new value before the integrator reads it: the draws from N(0, M) and anything that mixes, rescales or
    # replaces the drawn value afterwards (partial refreshment with the momentum of the previous step, …)
    ints_stmt = stmt_of(int_calls[0])
    redefs = [st for st in ast.walk(fn) if isinstance(st, (ast.Assign, ast.AugAssign)) and st is not ints_stmt
              and any(isinstance(t, ast.Name) and t.id == pvar for t in (st.targets if isinstance(st, ast.Assign) else [st.target]))]
    seen_stmts = {id(stmt_of(x)) for x in samp}
    extra_defs = [st for st in redefs if id(st) not in seen_stmts]
    _stmt_of = stmt_of
    def stmt_of(x, _orig=_stmt_of):
        return x if isinstance(x, ast.stmt) else _orig(x)
    samp = list(samp) + extra_defs
    for x in samp:
        d = cfg.node_of(stmt_of(x))
        others = {cfg.node_of(stmt_of(y)).id for y in samp if y is not x}
        if ni.id in cfg.reachable_after(d, avoid=others):
            # paths d -> integrator that avoid other draws must go through K0
            reach = cfg.reachable_after(d, avoid=others | {n0.id})
            if ni.id in reach:
                fresh_ok = False
                stale.append(stmt_of(x).lineno)
    mom_ok = pvar is not None and args0[:1] == [pvar] and args1[:1] == [int_target]
    int_ok = pvar is not None and pvar in iargs and (len(args0) > 1 and args0[1] in iargs)
    order_ok = cfg.dominates(ni, n1) and ni.id not in cfg.reachable_after(n1, avoid={cfg.node_of(stmt_of(x)).id for x in samp})
    facts = {'K0': norm_text(k0s), 'K1': norm_text(k1s), 'integrator_call': norm_text(ints)[:120], 'sampled_momentum': pvar, 'draws_not_followed_by_K0': stale}
    rep.check('C16.K', 'HMCOperator._step::kinetic-energies-bracket-the-integrator', order_ok and same_m and mom_ok and int_ok and fresh_ok, W, facts,
              "K0 must be the kinetic energy of the very momentum handed to the integrator (re-evaluated after every fresh draw, e.g. on the retry path) and K1 that "
              "of the momentum it returns, both with the same inverse mass matrix that the integrator uses"
              + (f"; the draw at line {stale[0]} reaches the integrator without K0 being recomputed" if stale else ''))
    rets = [n for n in ast.walk(fn) if isinstance(n, ast.Return) and isinstance(n.value, ast.BinOp)]
    ok = len(rets) == 1 and isinstance(rets[0].value.op, ast.Sub) and isinstance(rets[0].value.left, ast.Name) and rets[0].value.left.id == K0 \
        and isinstance(rets[0].value.right, ast.Name) and rets[0].value.right.id == K1
    rep.check('C16.K', 'HMCOperator._step::returns-K0-minus-K1', ok, W, {'return': norm_text(rets[0]) if rets else None},
              f"the Hastings term must be `{K0} - {K1}` (initial minus final kinetic energy) so that log-density change + Hastings = −ΔH")
    # failure: after max_trials returns +inf
    inf_ret = any(isinstance(n, ast.Return) and any(isinstance(c, ast.Constant) and c.value in ('inf',) for c in ast.walk(n.value))
                  or isinstance(n, ast.Return) and 'inf' in ast.unparse(n.value) for n in ast.walk(fn) if isinstance(n, ast.Return))
    rep.check('C16.K', 'HMCOperator._step::gives-up-with-infinite-hastings', inf_ret, W, None,
              "after repeated numerical failures the operator must return an infinite Hastings term (the MCMC loop then rejects)")
    # the cached inverse mass matrix is the inverse of the mass matrix the momentum is drawn from, refreshed when it changes
    ufn = op.resolve('update_mass_matrices')
    if ufn is None:
        raise Unsupported(op.node, 'update_mass_matrices not found')
    stores = [st for st in ast.walk(ufn[1]) if isinstance(st, ast.Assign) and any(self_attr(t) == 'inverse_mass_matrix' for t in st.targets)]
    okinv = len(stores) >= 1
    forms = []
    for st in stores:
        v = st.value
        if isinstance(v, ast.BinOp) and isinstance(v.op, ast.Div) and isinstance(v.left, ast.Constant) and float(v.left.value) == 1.0 and self_attr(v.right) == 'mass_matrix':
            forms.append('1/M')
        elif isinstance(v, ast.Call) and (dotted_name(v.func) or '') in ('torch.inverse', 'torch.linalg.inv') and v.args and self_attr(v.args[0]) == 'mass_matrix':
            forms.append('inv(M)')
        elif isinstance(v, ast.Call) and (dotted_name(v.func) or '') == 'torch.cholesky_inverse' and v.args and isinstance(v.args[0], ast.Call) \
                and (dotted_name(v.args[0].func) or '') in ('torch.linalg.cholesky', 'torch.cholesky') and self_attr(v.args[0].args[0]) == 'mass_matrix':
            forms.append('cholesky_inverse(cholesky(M))')
        else:
            forms.append('?' + norm_text(v)[:40])
            okinv = False
    rep.check('C16.K', 'HMCOperator.update_mass_matrices::inverse-of-the-mass-matrix', okinv and set(forms) >= {'1/M'} and len(forms) >= 2, where(m, ufn[1]), {'forms': forms},
              f"inverse_mass_matrix must be 1/M (diagonal) and inv(M) (dense) of the mass matrix the momentum is drawn from; found {forms}: "
              f"kinetic energy and integrator then use a matrix that is not M⁻¹, so the Hastings term is not the change of the operator's own Hamiltonian")
    hfn = op.resolve('handle_parameter_changed')
    refreshed = hfn is not None and any(self_attr(c.func) == 'update_mass_matrices' for c in ast.walk(hfn[1]) if isinstance(c, ast.Call))
    init = op.resolve('__init__')[1]
    listens = any(isinstance(c, ast.Call) and isinstance(c.func, ast.Attribute) and c.func.attr == 'add_parameter_listener' and c.args
                  and isinstance(c.args[0], ast.Name) and c.args[0].id == 'self' for c in ast.walk(init))
    rep.check('C16.K', 'HMCOperator::inverse-refreshed-when-mass-matrix-changes', refreshed and listens, where(m, op.node), {'listens': listens, 'handler_refreshes': refreshed},
              "the operator must listen to its mass-matrix parameter and recompute the cached inverse when it changes (mass-matrix adaptation)")
    # Hamiltonian pair: sample N(0, M)  <->  K = 1/2 p^T M^-1 p
    ham = ctx.classes.get(HAM)
    kfn = ham.resolve('kinetic_energy')[1]
    kp = [a.arg for a in kfn.args.args]
    pm, im = kp[1], kp[2]

    def katom(e):
        if isinstance(e, ast.Name) and e.id == pm:
            return Rat.sym('p')
        if isinstance(e, ast.Name) and e.id == im:
            return Rat.sym('Minv')
        return None

    def dot(tr, e):
        if len(e.args) == 2:
            return tr(e.args[0]) * tr(e.args[1])
        return None
    def einsum(tr, e):
        """einsum("…a,ab,…b->…", p, Minv, p): a quadratic form exactly when the two indices of the matrix are contracted with the two vectors, one each"""
        if not (e.args and isinstance(e.args[0], ast.Constant) and isinstance(e.args[0].value, str)) or len(e.args) != 4:
            return None
        spec = e.args[0].value.replace(' ', '')
        if '->' not in spec:
            return None
        ins, out = spec.split('->')
        parts = [x.replace('...', '') for x in ins.split(',')]
        ops = [tr(a) for a in e.args[1:]]
        if len(parts) != 3 or out.replace('...', ''):
            return None
        mats = [i for i, x in enumerate(parts) if len(x) == 2]
        vecs = [i for i, x in enumerate(parts) if len(x) == 1]
        if len(mats) != 1 or len(vecs) != 2:
            return None
        a, b = parts[mats[0]]
        prod = ops[0] * ops[1] * ops[2]
        if a != b and sorted(parts[v] for v in vecs) == sorted([a, b]):
            return prod
        return prod * Rat.sym('contraction_that_is_not_a_quadratic_form')

    def summed(tr, e):
        # (p * Minv * p).sum(-1): the sum over the components is what dot() does
        if isinstance(e.func, ast.Attribute) and e.func.attr == 'sum' and len(e.args) <= 1:
            return tr(e.func.value)
        return None
    vals = []
    for st in ast.walk(kfn):
        if isinstance(st, ast.Assign):
            try:
                v = st.value
                # a @ b inside: treat as product
                class MM(ast.NodeTransformer):
                    def visit_BinOp(self, node):
                        self.generic_visit(node)
                        if isinstance(node.op, ast.MatMult):
                            return ast.BinOp(left=node.left, op=ast.Mult(), right=node.right)
                        return node
                import copy
                v2 = MM().visit(copy.deepcopy(v))
                vals.append(ToRat(katom, funcs={'dot': dot, 'einsum': einsum, 'sum': summed})(v2))
            except Unsupported:
                vals.append(None)
    want = Rat.sym('p') * Rat.sym('p') * Rat.sym('Minv') * Rat.const(1) / Rat.const(2)
    if any(v is None for v in vals):
        # a branch written in a form the translation does not read (a triangular solve, an einsum …) is not a violation: it is not decided
        rep.undecided('C16.K', 'Hamiltonian.kinetic_energy::half-p-Minv-p', where(ham.module, kfn), 'a branch of the kinetic energy is not an arithmetic expression of the momentum and the inverse mass matrix',
                      {'branches': [repr(v) for v in vals]})
    else:
        ok = len(vals) >= 1 and all(v.equals(want) for v in vals)
        rep.check('C16.K', 'Hamiltonian.kinetic_energy::half-p-Minv-p', ok, where(ham.module, kfn), {'branches': [repr(v) for v in vals]},
                  "kinetic energy must be ½·pᵀM⁻¹p in both the diagonal and the dense branch")
    sfn = ham.resolve('sample_momentum')[1]
    mm = [a.arg for a in sfn.args.args][1]
    good = 0
    bad = []
    unknown = []
    for c in ast.walk(sfn):
        if isinstance(c, ast.Call):
            nm = (dotted_name(c.func) or '').split('.')[-1]
            if nm == 'Normal' and len(c.args) >= 2:
                s = c.args[1]
                if isinstance(s, ast.Call) and isinstance(s.func, ast.Attribute) and s.func.attr == 'sqrt' and isinstance(s.func.value, ast.Name) and s.func.value.id == mm:
                    good += 1
                else:
                    bad.append(f"Normal scale {ast.unparse(s)}")
            if nm == 'MultivariateNormal':
                kws = {kw.arg: kw.value for kw in c.keywords}

                def is_m(e):
                    return isinstance(e, ast.Name) and e.id == mm

                def fn_of_m(e, names):
                    """e is f(M) for f in names — directly, or through one method of the class whose body applies f to its own parameter"""
                    if isinstance(e, ast.Call) and (dotted_name(e.func) or '').split('.')[-1] in names and e.args and is_m(e.args[0]):
                        return True
                    if isinstance(e, ast.Call) and self_attr(e.func) and len(e.args) == 1 and is_m(e.args[0]):
                        r_ = ham.resolve(e.func.attr)
                        if r_ is not None and len(r_[1].args.args) == 2:
                            p_ = r_[1].args.args[1].arg
                            return any(isinstance(x, ast.Call) and (dotted_name(x.func) or '').split('.')[-1] in names and x.args and isinstance(x.args[0], ast.Name)
                                       and x.args[0].id == p_ for x in ast.walk(r_[1]))
                    return False
                if ('covariance_matrix' in kws and is_m(kws['covariance_matrix'])) or ('scale_tril' in kws and fn_of_m(kws['scale_tril'], ('cholesky',))) \
                        or ('precision_matrix' in kws and fn_of_m(kws['precision_matrix'], ('inverse', 'inv'))):
                    good += 1
                elif ('covariance_matrix' in kws and fn_of_m(kws['covariance_matrix'], ('inverse', 'inv', 'cholesky', 'sqrt'))) or ('scale_tril' in kws and is_m(kws['scale_tril'])) \
                        or ('precision_matrix' in kws and is_m(kws['precision_matrix'])):
                    bad.append(f"MultivariateNormal({', '.join(f'{k}={ast.unparse(v)}' for k, v in kws.items())})")
                else:
                    unknown.append(f"MultivariateNormal({', '.join(f'{k}={ast.unparse(v)}' for k, v in kws.items())})")
    if unknown and not bad:
        rep.undecided('C16.K', 'Hamiltonian.sample_momentum::N(0,M)', where(ham.module, sfn), f"the covariance of the momentum draw is given in a form that is not read: {unknown}")
    else:
        rep.check('C16.K', 'Hamiltonian.sample_momentum::N(0,M)', good == 2 and not bad, where(ham.module, sfn), {'problems': bad},
                  f"momentum must be drawn from N(0, M) (std √M diagonal / covariance M, scale_tril cholesky(M) or precision M⁻¹ dense) to match K = ½pᵀM⁻¹p; found {bad}")
    # potential energy is minus the joint
    pfn = ham.resolve('potential_energy')[1]
    ok = any(isinstance(st, ast.Assign) and isinstance(st.value, ast.UnaryOp) and isinstance(st.value.op, ast.USub)
             and isinstance(st.value.operand, ast.Call) and self_attr(st.value.operand.func) == 'joint' for st in ast.walk(pfn))
    rep.check('C16.K', 'Hamiltonian.potential_energy::minus-log-joint', ok, where(ham.module, pfn), None, "potential energy must be −joint()")


def check_no_selection_on_the_outcome(ctx, rep):
    """C16.K (addition) — a trajectory that was integrated is handed to the Metropolis test; only a *failure to evaluate* (the ValueError raised by the integrator's NaN guards)
    leads to a new momentum draw.  Inside the retry `try` of HMCOperator._step nothing may raise on the basis of the computed energies: a `raise` there replaces proposals by
    fresh ones depending on their Hamiltonian, which conditions the kernel on the outcome without the corresponding term in the acceptance ratio."""
    cls = ctx.classes.get('torchtree.inference.hmc.operator.HMCOperator')
    fn = cls.resolve('_step')[1]
    tries = [t for t in ast.walk(fn) if isinstance(t, ast.Try) and any(isinstance(h.type, ast.Name) and h.type.id == 'ValueError' for h in t.handlers if h.type is not None)]
    if len(tries) != 1:
        rep.undecided('C16.K', 'HMCOperator._step::retry-block', where(cls.module, fn), f"{len(tries)} try/except ValueError blocks")
        return
    raises = [r for st in tries[0].body for r in ast.walk(st) if isinstance(r, ast.Raise)]
    rep.check('C16.K', 'HMCOperator._step::integrated-proposals-always-reach-the-acceptance-test', not raises, where(cls.module, raises[0] if raises else tries[0]),
              {'raises_inside_the_retry_block': [norm_text(getattr(r, '_parent', r))[:80] for r in raises]},
              f"HMCOperator._step raises inside its retry block ({[norm_text(r)[:40] for r in raises]}): a trajectory that was integrated successfully is thrown away and redrawn "
              f"depending on its outcome (e.g. its energy error) instead of being submitted to the acceptance test on H0 − H1; the transition kernel is then conditioned on that "
              f"outcome and no longer leaves the target invariant")


def _runs_a_trajectory(fn):
    """the function calls an integrator: `self._integrator(…)` or a parameter of its own named like one, used as a callable"""
    params = {a.arg for a in fn.args.args + fn.args.kwonlyargs}
    for c in ast.walk(fn):
        if isinstance(c, ast.Call):
            if self_attr(c.func) in ('_integrator', 'integrator'):
                return c
            if isinstance(c.func, ast.Name) and c.func.id in params and 'integrator' in c.func.id:
                return c
    return None


def check_one_trajectory_per_proposal(ctx, rep):
    """C16.K (addition) — the position the trajectory starts from is the state the caller evaluated the target at (MCMC keeps log p(q) of the current state and decides on
    log p(q') − log p(q) + K0 − K1).  Inside a proposal the only trajectory that is integrated is therefore the one bracketed by K0 and K1: nothing reachable from `_step`
    before or after it runs the integrator (the step-size search of adaptation.py integrates trajectories and leaves the chain where the last one ended — it belongs to the
    constructor, before the chain exists)."""
    cls = ctx.classes.get('torchtree.inference.hmc.operator.HMCOperator')
    step = cls.resolve('_step')
    if step is None:
        raise AnalysisError('HMCOperator._step not found')
    hmc_functions = {}
    for mname, m in ctx.prog.modules.items():
        if mname.startswith('torchtree.inference.hmc'):
            for fname, f in m.functions.items():
                hmc_functions[fname] = (m, f)
    seen, stack, offenders, visited = set(), [('HMCOperator._step', cls.module, step[1])], [], 0
    while stack:
        qual, mod, fn = stack.pop()
        if id(fn) in seen:
            continue
        seen.add(id(fn))
        visited += 1
        if fn is not step[1]:
            c = _runs_a_trajectory(fn)
            if c is not None:
                offenders.append((qual, mod, c))
                continue
        for c in ast.walk(fn):
            if not isinstance(c, ast.Call):
                continue
            a = self_attr(c.func)
            if a:
                r = cls.resolve(a)
                if r is not None:
                    stack.append((f"{r[0].name}.{a}", r[0].module, r[1]))
            elif isinstance(c.func, ast.Name) and c.func.id in hmc_functions:
                m2, f2 = hmc_functions[c.func.id]
                stack.append((c.func.id, m2, f2))
    own = [c for c in ast.walk(step[1]) if isinstance(c, ast.Call) and self_attr(c.func) == '_integrator']
    if len(_positive_trajectory_runners(ctx)) < 1:
        raise AnalysisError('C16.K self-check: no function of the hmc package is recognised as running trajectories (find_reasonable_step_size expected)')
    rep.check('C16.K', 'HMCOperator._step::one-trajectory-per-proposal', not offenders and len(own) == 1, where(offenders[0][1], offenders[0][2]) if offenders else where(cls.module, step[1]),
              {'functions_reachable_from_the_proposal': visited, 'integrator_calls_in_step': len(own), 'others': [q for q, _, _ in offenders]},
              f"{offenders[0][0] if offenders else 'HMCOperator._step'} integrates a trajectory inside the proposal besides the one whose kinetic energies are returned: the chain is moved "
              f"away from the state the caller evaluated the target at, so the acceptance test combines log p(q') − log p(q) of one starting point with K0 − K1 of another — "
              f"it is no longer decided on the Hamiltonian difference of the proposal")


def _positive_trajectory_runners(ctx):
    out = []
    for mname, m in ctx.prog.modules.items():
        if mname.startswith('torchtree.inference.hmc'):
            for fname, f in m.functions.items():
                if _runs_a_trajectory(f) is not None:
                    out.append(fname)
    return out


SIZE_POSITIVE = """
def f(parameters, joint):
    a = torch.ones(len(parameters))
    b = torch.ones(sum(p.shape[-1] for p in parameters))
    c = torch.eye(len(self.parameters), dtype=parameters[0].dtype)
    d = torch.zeros(len(samples))
"""


def _object_count_sizes(tree):
    out = []
    for c in ast.walk(tree):
        if isinstance(c, ast.Call) and (dotted_name(c.func) or '') in ('torch.ones', 'torch.eye', 'torch.zeros', 'torch.full', 'torch.empty') and c.args:
            for x in ast.walk(c.args[0]):
                if isinstance(x, ast.Call) and isinstance(x.func, ast.Name) and x.func.id == 'len' and x.args:
                    a = x.args[0]
                    nm = a.id if isinstance(a, ast.Name) else (a.attr if isinstance(a, ast.Attribute) else '')
                    if nm in ('parameters', '_parameters'):
                        out.append(c)
    return out


def check_momentum_space_dimension(ctx, rep):
    """C16.K (addition) — vectors and matrices of the momentum space (mass matrix, momentum, variance estimates) have one entry per *coordinate*.  A tensor created in the hmc
    package with a size `len(parameters)` has one entry per Parameter object; for a vector-valued parameter it broadcasts silently ((1,) against (d,)), K(p0) then has one
    degree of freedom while K(p1) sums over d, and K0 − K1 is not the kinetic-energy change of the integrated momentum."""
    t = ast.parse(SIZE_POSITIVE)
    if [norm_text(c)[:30] for c in _object_count_sizes(t)] != ['torch.ones(len(parameters))', 'torch.eye(len(self.parameters)']:
        raise AnalysisError('C16.K self-check of the object-count size pattern failed')
    n = 0
    for mname, m in sorted(ctx.prog.modules.items()):
        if not mname.startswith('torchtree.inference.hmc'):
            continue
        n += 1
        hits = _object_count_sizes(m.tree)
        for k, c in enumerate(hits):
            rep.bad('C16.K', f"{mname.replace('torchtree.', '')}::size-from-the-number-of-parameter-objects#{k}", where(m, c), {'construct': norm_text(c)[:80]},
                    f"`{norm_text(c)[:60]}` sizes a momentum-space tensor by the number of Parameter objects, not by the number of coordinates: with a vector-valued parameter the "
                    f"mass matrix / momentum has the wrong dimension and broadcasts silently (the kinetic energies before and after the trajectory then live in different spaces)")
        if not hits:
            rep.ok('C16.K', f"{mname.replace('torchtree.', '')}::momentum-space-sizes", where(m, m.tree), None)
    if n < 4:
        rep.incomplete('C16.K', 'hmc::momentum-space-sizes', '', f"only {n} hmc modules found")


def run(ctx, rep):
    from sa import callbind
    callbind.run_for(ctx, rep, 'C16', 13)
    rep.explanation = (
        "Abstract execution of LeapfrogIntegrator.__call__ (loop unrolled for 1, 2 and 3 steps) in the domain of linear forms over "
        "q0, p0 and the gradients g_k at the successive evaluation points, with coefficients polynomial in the step size and M⁻¹; "
        "the result (returned momentum, position left in the parameters, the point of every gradient evaluation) must equal the "
        "Störmer–Verlet reference, which is a palindromic composition of shears — hence volume preserving, time reversible and "
        "second order.  Leaf freshness between backward() calls is tracked as a typestate.  HMCOperator._step is checked by "
        "dominance and def-use: K0 before / K1 after the integrator with the same M⁻¹, Hastings = K0 − K1; the momentum draw and "
        "the kinetic energy are a consistent pair."
    )
    rep.rule('C16.P', "returned momentum and final position equal the Störmer–Verlet leapfrog for 1, 2, 3 steps (palindromic ½,1,…,1,½ coefficients)")
    rep.rule('C16.H', "every gradient used in a momentum update is evaluated at the position produced by the preceding position update (shear structure)")
    rep.rule('C16.G', "leaves are re-created between backward() calls (no gradient accumulation); NaN guards raise the exception HMCOperator catches")
    rep.rule('C16.K', "HMCOperator returns K(p0) − K(p1) with both kinetic energies from the same M⁻¹ bracketing the integrator call; sample_momentum ↔ kinetic_energy consistent")
    rep.assumptions += ["Normal(0, s) has variance s²; MultivariateNormal(covariance_matrix=M) has covariance M", "U.backward() adds ∇U into .grad of the current leaves"]
    rep.not_decided += ["the O(ε²) energy error numerically", "round-off"]
    for f, rule in ((check_integrator, 'C16.P'), (check_operator, 'C16.K'), (check_no_selection_on_the_outcome, 'C16.K'), (check_momentum_space_dimension, 'C16.K'),
                    (check_one_trajectory_per_proposal, 'C16.K'), (check_momentum_is_promoted_before_in_place_kicks, 'C16.P')):
        try:
            f(ctx, rep)
        except Unsupported as u:
            rep.undecided(rule, f.__name__, f"line {getattr(u.node, 'lineno', 0)}", str(u))
    # the operator's cached M⁻¹ follows the mass matrix through change notifications only: no silent in-place write to a parameter in the hmc package
    from props import c11
    c11.check_inplace(ctx, rep, rule='C16.K', only=lambda m, fn: m.name.startswith('torchtree.inference.hmc'))
    # nothing computed from the mass matrix (a factor, an inverse) is kept across calls under a key that ignores its value
    from sa.report import RuleProxy
    c11.check_memo_keys(ctx, RuleProxy(rep, 'C16.K', 'memo::'), only=lambda m: m.name.startswith('torchtree.inference.hmc'))
    # the Hamiltonian is evaluated for the momentum it is given (C11.K)
    c11.check_call_arguments(ctx, RuleProxy(rep, 'C16.K', 'call-arguments::'), rule='C16.K', module_prefix='torchtree.inference.hmc')
