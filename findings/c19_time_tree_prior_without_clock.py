"""C19 (fixed): `torchtree-cli <cmd> --coalescent X` or `--birth-death X` without `--clock` was accepted and emitted a configuration that torchtree cannot run: the tree is an
UnRootedTreeModel (no node heights; with a birth-death prior the id tree.root_height does not exist).  The CLI now rejects the combination in check_arguments.
Run: PYTHONPATH=<tree> /venv/bin/python findings/c19_time_tree_prior_without_clock.py   (exit 1 = defect present)"""
import json, os, subprocess, sys, tempfile
REPO = os.environ.get('PYTHONPATH', '/repo').split(':')[0]
bad = 0
for prior in (['--coalescent', 'constant'], ['--birth-death', 'constant']):
    cmd = [sys.executable, '-c', 'from torchtree.cli.cli import main; main()', 'advi', '-i', f'{REPO}/data/fluA.fa', '-t', f'{REPO}/data/fluA.tree'] + prior
    r = subprocess.run(cmd, capture_output=True, text=True)
    if r.returncode != 0:
        print(' '.join(prior), '-> rejected by the CLI:', r.stderr.strip().splitlines()[-1][:110])
        continue
    with tempfile.NamedTemporaryFile('w', suffix='.json', delete=False) as fp:
        fp.write(r.stdout)
    run = subprocess.run([sys.executable, '-c', 'from torchtree.torchtree import main; main()', fp.name], capture_output=True, text=True, cwd=tempfile.gettempdir())
    os.unlink(fp.name)
    if run.returncode != 0 or 'ERROR' in run.stderr or 'Traceback' in run.stderr:
        bad += 1
        print(' '.join(prior), '-> configuration emitted, torchtree fails:', ([l for l in run.stderr.strip().splitlines() if 'Error' in l or 'ERROR' in l] or ['?'])[-1][:110])
    else:
        print(' '.join(prior), '-> runs')
print('DEFECT present' if bad else 'OK')
sys.exit(1 if bad else 0)
