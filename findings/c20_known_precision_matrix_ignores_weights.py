"""KNOWN (C20.V): GMRF.precision_matrix() ignores the weights / time-aware scaling that GMRF._call applies to the
squared differences: for a weighted field the Gaussian quadratic form of the published matrix is not the density's
(the GMRF block-update operator builds its proposal from this matrix).  Exit 1 while the defect is present."""
import torch
from torchtree.core.parameter import Parameter
from torchtree.distributions.gmrf import GMRF
torch.set_default_dtype(torch.float64)
x = Parameter('x', torch.tensor([0.3, -0.5, 1.2, 0.4]))
tau = Parameter('tau', torch.tensor([2.0]))
w = torch.tensor([0.5, 2.0, 1.5])
g = GMRF('g', x, tau, weights=w)
dens = g()
Q = g.precision_matrix()
dim = x.shape[-1] - 1
quad = 0.5 * dim * tau.tensor.log() - 0.5 * (x.tensor @ Q @ x.tensor) - 0.5 * dim * torch.log(torch.tensor(2 * torch.pi))
print('density', dens.item(), 'quadratic form of the published matrix', quad.item())
ok = torch.allclose(dens, quad)
print('OK' if ok else 'FAIL: published precision matrix does not describe the weighted density')
raise SystemExit(0 if ok else 1)
