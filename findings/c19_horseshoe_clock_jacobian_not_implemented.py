"""C19 (fixed): `--clock horseshoe` wraps the branch rates in a RescaledRateTransform (a deterministic rescaling to the mean rate; the prior sits on the unscaled rates) and
create_jacobians listed it in joint.jacobian like any TransformedParameter; its log_abs_det_jacobian only raises NotImplementedError, so the first evaluation of the target
stopped.  create_jacobians now leaves it out.
Run: PYTHONPATH=<tree> /venv/bin/python findings/c19_horseshoe_clock_jacobian_not_implemented.py   (exit 1 = defect present)"""
import os, subprocess, sys, tempfile
REPO = os.environ.get('PYTHONPATH', '/repo').split(':')[0]
bad = 0
for cmd_name, extra in (('advi', ['--iter', '2', '--samples', '2']), ('hmc', ['--iter', '2'])):
    cmd = [sys.executable, '-c', 'from torchtree.cli.cli import main; main()', cmd_name, '-i', f'{REPO}/data/fluA.fa', '-t', f'{REPO}/data/fluA.tree', '--clock', 'horseshoe',
           '--coalescent', 'constant'] + extra
    r = subprocess.run(cmd, capture_output=True, text=True)
    if r.returncode != 0:
        print(cmd_name, 'rejected by the CLI:', r.stderr.strip().splitlines()[-1][:100])
        continue
    listed = '"branchmodel.rates"' in r.stdout.split('"joint.jacobian"')[1].split(']')[0] if '"joint.jacobian"' in r.stdout else False
    with tempfile.NamedTemporaryFile('w', suffix='.json', delete=False) as fp:
        fp.write(r.stdout)
    run = subprocess.run([sys.executable, '-c', 'from torchtree.torchtree import main; main()', fp.name], capture_output=True, text=True, cwd=tempfile.gettempdir())
    os.unlink(fp.name)
    nie = 'NotImplementedError' in run.stderr
    print(f"{cmd_name} --clock horseshoe: branchmodel.rates listed in joint.jacobian: {listed}; run: {'NotImplementedError' if nie else 'ok'}")
    bad += nie
print('DEFECT present' if bad else 'OK')
sys.exit(1 if bad else 0)
