"""C04 — transition probabilities are exp(Qt) of a properly normalised rate matrix."""
from __future__ import annotations

import ast
import copy
from fractions import Fraction
from typing import Dict, List, Optional, Tuple

from sa.loader import AnalysisError, Unsupported, dotted_name, norm_text
from sa.members import self_attr
from sa.poly import Rat, ToRat
from sa.report import where
from sa.util import backward_slice, local_assignments

NUC = 'torchtree.evolution.substitution_model.nucleotide'
GEN = 'torchtree.evolution.substitution_model.general'
ABS = 'torchtree.evolution.substitution_model.abstract'
COD = 'torchtree.evolution.substitution_model.codon'


def last_index(e: ast.Subscript) -> Optional[int]:
    sl = e.slice
    elts = sl.elts if isinstance(sl, ast.Tuple) else [sl]
    last = elts[-1]
    if isinstance(last, ast.Constant) and isinstance(last.value, int):
        return last.value
    return None


def matrix_atom(names: Dict[str, str]):
    """pi[..., k] -> pi_k, rates[..., k] -> r_k, kappa -> kappa"""
    def atom(e):
        if isinstance(e, ast.Subscript) and isinstance(e.value, ast.Name) and e.value.id in names:
            k = last_index(e)
            if k is not None:
                return Rat.sym(f"{names[e.value.id]}{k}")
        if isinstance(e, ast.Name) and e.id in names:
            return Rat.sym(names[e.id])
        return None
    return atom


def find_cat_matrix(fn: ast.FunctionDef) -> Tuple[List[ast.AST], ast.Call]:
    for n in ast.walk(fn):
        if isinstance(n, ast.Call) and isinstance(n.func, ast.Attribute) and n.func.attr == 'reshape':
            inner = n.func.value
            if isinstance(inner, ast.Call) and (dotted_name(inner.func) or '').endswith('cat') and inner.args \
                    and isinstance(inner.args[0], (ast.Tuple, ast.List)):
                return list(inner.args[0].elts), n
    raise Unsupported(fn, 'literal torch.cat((…)).reshape(…) matrix not found')


def reshape_is_square(call: ast.Call, n: int) -> bool:
    for a in ast.walk(call):
        if isinstance(a, ast.Tuple) and len(a.elts) == 2 and all(isinstance(x, ast.Constant) and x.value == n for x in a.elts):
            return True
    return False


def check_literal(ctx, rep, clsname: str, roles: Dict[str, str], kind: str):
    cls = ctx.classes.get(f"{NUC}.{clsname}")
    fn = cls.resolve('q')[1]
    W = where(cls.module, fn)
    entries, resh = find_cat_matrix(fn)
    if len(entries) != 16:
        rep.bad('C04.L', f"{clsname}.q::16-entries", W, {'entries': len(entries)}, f"{clsname}.q builds {len(entries)} entries, not a 4×4 matrix")
        return
    rep.check('C04.L', f"{clsname}.q::row-major-4x4", reshape_is_square(resh, 4), W, None, "the 16 entries are not reshaped to (…,4,4) row-major")
    # concatenation axis must be the last
    cat = resh.func.value
    ax = cat.args[1] if len(cat.args) > 1 else next((kw.value for kw in cat.keywords if kw.arg == 'dim'), None)
    rep.check('C04.L', f"{clsname}.q::cat-last-axis", isinstance(ax, ast.UnaryOp) and isinstance(ax.operand, ast.Constant) and ax.operand.value == 1, W, None,
              "entries must be concatenated along the last axis")
    # the names that stand for the parameters in the entries are the parameters (views of them, or a common rescaling): no clamp / floor / epsilon on the way
    NONLINEAR = ('clamp', 'clamp_min', 'clamp_max', 'clip', 'abs', 'relu', 'round', 'floor', 'ceil', 'nan_to_num', 'maximum', 'minimum', 'fmax', 'fmin', 'where', 'exp', 'log',
                 'softplus', 'sqrt', 'pow', 'square')
    assigns = {}
    for st in ast.walk(fn):
        if isinstance(st, ast.Assign) and len(st.targets) == 1 and isinstance(st.targets[0], ast.Name):
            assigns.setdefault(st.targets[0].id, []).append(st.value)

    def alterations(e, depth=0):
        out = []
        while True:
            if isinstance(e, ast.Subscript):
                e = e.value
            elif isinstance(e, ast.Call) and isinstance(e.func, ast.Attribute) and e.func.attr in NONLINEAR:
                out.append(e.func.attr)
                e = e.func.value if not (isinstance(e.func.value, ast.Name) and e.func.value.id == 'torch') else (e.args[0] if e.args else e)
            elif isinstance(e, ast.Call) and isinstance(e.func, ast.Attribute) and not (isinstance(e.func.value, ast.Name) and e.func.value.id == 'torch'):
                e = e.func.value          # unsqueeze / expand / reshape …
            elif isinstance(e, ast.BinOp) and isinstance(e.op, (ast.Mult, ast.Div)):
                e = e.left                # a common factor does not change the normalised matrix
            elif isinstance(e, ast.BinOp) and isinstance(e.op, (ast.Add, ast.Sub)):
                out.append('+ ' + ast.unparse(e.right)[:20])
                e = e.left
            elif isinstance(e, ast.Name) and e.id in assigns and depth < 5:
                for v in assigns[e.id]:
                    out += alterations(v, depth + 1)
                return out
            else:
                return out
    for local in roles:
        if local in assigns:
            alt = sorted(set(a for v in assigns[local] for a in alterations(v)))
            rep.check('C04.L', f"{clsname}.q::{local}-enters-the-matrix-unaltered", not alt, where(cls.module, fn), {'alterations': alt},
                      f"{clsname}.q builds its entries from `{local}`, which is the parameter passed through {alt}: the matrix is no longer the one of the parameter values "
                      f"(values below a floor / beyond a clamp all give the same matrix)")
    tr = ToRat(matrix_atom(roles))
    Q = [[None] * 4 for _ in range(4)]
    for idx, e in enumerate(entries):
        try:
            Q[idx // 4][idx % 4] = tr(e)
        except Unsupported as u:
            rep.undecided('C04.L', f"{clsname}.q::entry[{idx // 4}][{idx % 4}]", where(cls.module, e), str(u))
            return
    pi = [Rat.sym(f"pi{k}") for k in range(4)]
    for i in range(4):
        s = Q[i][0] + Q[i][1] + Q[i][2] + Q[i][3]
        rep.check('C04.L', f"{clsname}.q::row{i}-sums-to-zero", s.is_zero(), where(cls.module, entries[4 * i + i]), {'row_sum': repr(s)},
                  f"row {i} of {clsname}'s rate matrix sums to {s!r}, not 0: rows of exp(Qt) do not sum to one")
    names = 'ACGT'
    for i in range(4):
        for j in range(4):
            if i == j:
                continue
            sg = Q[i][j].sign_on_positive()
            rep.check('C04.L', f"{clsname}.q::offdiag[{names[i]}{names[j]}]-nonnegative", sg == 1, where(cls.module, entries[4 * i + j]),
                      {'entry': repr(Q[i][j])}, f"off-diagonal entry {names[i]}→{names[j]} = {Q[i][j]!r} is not a positive combination of the parameters")
    for i in range(4):
        for j in range(i + 1, 4):
            ok = (pi[i] * Q[i][j]).equals(pi[j] * Q[j][i])
            rep.check('C04.L', f"{clsname}.q::detailed-balance[{names[i]}{names[j]}]", ok, where(cls.module, entries[4 * i + j]),
                      {'Qij': repr(Q[i][j]), 'Qji': repr(Q[j][i])},
                      f"π_{names[i]}·Q[{names[i]}{names[j]}] ≠ π_{names[j]}·Q[{names[j]}{names[i]}]: the model is not reversible with the stated frequencies "
                      f"(the symmetrised eigendecomposition then gives a wrong P(t))")
    if kind == 'HKY':
        kappa = Rat.sym('kappa')
        transitions = {(0, 2), (2, 0), (1, 3), (3, 1)}
        for i in range(4):
            for j in range(4):
                if i == j:
                    continue
                want = (kappa if (i, j) in transitions else Rat.const(1)) * pi[j]
                rep.check('C04.L', f"HKY.q::kappa-placement[{names[i]}{names[j]}]", Q[i][j].equals(want), where(cls.module, entries[4 * i + j]),
                          {'entry': repr(Q[i][j]), 'expected': repr(want)},
                          f"HKY entry {names[i]}→{names[j]} is {Q[i][j]!r}, expected {want!r} (κ multiplies exactly the transitions A↔G, C↔T)")
    if kind == 'GTR':
        order = {(0, 1): 0, (0, 2): 1, (0, 3): 2, (1, 2): 3, (1, 3): 4, (2, 3): 5}
        for (i, j), k in order.items():
            for (a, b) in ((i, j), (j, i)):
                want = Rat.sym(f"r{k}") * pi[b]
                rep.check('C04.L', f"GTR.q::rate-placement[{names[a]}{names[b]}]", Q[a][b].equals(want), where(cls.module, entries[4 * a + b]),
                          {'entry': repr(Q[a][b]), 'expected': repr(want)},
                          f"GTR entry {names[a]}→{names[b]} is {Q[a][b]!r}, expected {want!r} (rates ordered AC, AG, AT, CG, CT, GT)")


def num(e) -> Optional[Fraction]:
    try:
        r = ToRat(lambda x: None)(e)
        if not r.symbols():
            n = r.num.get((), Fraction(0))
            d = r.den.get((), Fraction(0))
            return n / d
    except (Unsupported, ZeroDivisionError):
        pass
    return None


def check_jc69(ctx, rep):
    cls = ctx.classes.get(f"{NUC}.JC69")
    qfn = cls.resolve('q')[1]
    W = where(cls.module, qfn)
    lit = None
    for n in ast.walk(qfn):
        if isinstance(n, ast.List) and len(n.elts) == 4 and all(isinstance(r, ast.List) and len(r.elts) == 4 for r in n.elts):
            lit = n
    if lit is None:
        raise Unsupported(qfn, 'JC69.q literal matrix not found')
    M = [[num(x) for x in r.elts] for r in lit.elts]
    if any(v is None for r in M for v in r):
        raise Unsupported(lit, 'JC69.q literal is not numeric')
    for i in range(4):
        rep.check('C04.L', f"JC69.q::row{i}-sums-to-zero", sum(M[i]) == 0, W, {'row': [str(v) for v in M[i]]}, f"row {i} of JC69.q does not sum to zero")
    off = {M[i][j] for i in range(4) for j in range(4) if i != j}
    rep.check('C04.L', 'JC69.q::equal-positive-offdiagonals', len(off) == 1 and min(off) > 0, W, {'offdiag': sorted(map(str, off))}, "JC69 off-diagonal rates must be equal and positive")
    normv = -sum(Fraction(1, 4) * M[i][i] for i in range(4))
    rep.check('C04.L', 'JC69.q::normalised', normv == 1, W, {'norm': str(normv)}, f"JC69.q has −Σπ_iQ_ii = {normv}, not 1 expected substitution per unit time")
    eig = M[0][0] - M[0][1]  # non-zero eigenvalue of a matrix with equal off-diagonals
    # closed form
    pfn = cls.resolve('p_t')[1]
    check_closed_form(rep, cls, pfn, S=Fraction(4), eig=eig, key='JC69')


def check_closed_form(rep, cls, pfn, S, eig, key, Ssym: Optional[str] = None):
    """a, b as polynomials in e = exp(k·d): a+(S−1)b = 1, a(1)=1, b(1)=0, k = eigenvalue of q."""
    W = where(cls.module, pfn)
    defs = {}
    for st in pfn.body:
        if isinstance(st, ast.Assign) and isinstance(st.targets[0], ast.Name):
            defs[st.targets[0].id] = st.value
    exps: Dict[str, Rat] = {}

    def atom(e):
        if isinstance(e, ast.Call) and (dotted_name(e.func) or '').split('.')[-1] == 'exp' and e.args:
            arg = e.args[0]
            # k * d
            def a2(x):
                if isinstance(x, ast.Name):
                    return Rat.sym(x.id)
                if self_attr(x) == Ssym and Ssym:
                    return Rat.sym('S')
                return None
            r = ToRat(a2)(arg)
            exps[repr(r)] = r
            return Rat.sym('e')
        if Ssym and self_attr(e) == Ssym:
            return Rat.sym('S')
        return None
    cand = {}
    for name, v in defs.items():
        try:
            r = ToRat(atom)(v)
            if 'e' in r.symbols():
                cand[name] = r
        except Unsupported:
            continue
    if len(cand) != 2:
        raise Unsupported(pfn, f"{key}.p_t: expected two closed-form expressions in exp(k·d), found {sorted(cand)}")
    # a is the one with value 1 at e=1
    a = b = None
    for name, r in cand.items():
        v1 = r.subst('e', 1)
        if v1.equals(1):
            a = (name, r)
        elif v1.is_zero():
            b = (name, r)
    facts = {k: repr(v) for k, v in cand.items()}
    rep.check('C04.J', f"{key}.p_t::P(0)=I", a is not None and b is not None, W, facts,
              f"{key}.p_t: at t=0 (e=1) the diagonal term must be 1 and the off-diagonal term 0")
    if a is None or b is None:
        return
    Sr = Rat.sym('S') if Ssym else Rat.const(S)
    tot = a[1] + (Sr - 1) * b[1]
    rep.check('C04.J', f"{key}.p_t::rows-sum-to-one", tot.equals(1), W, {**facts, 'a+(S-1)b': repr(tot)},
              f"{key}.p_t: a + (S−1)·b = {tot!r}, not 1: rows of P(t) are not probability vectors")
    # exponent rate
    ok = False
    got = None
    if len(exps) == 1:
        r = list(exps.values())[0]
        dsyms = [s for s in r.symbols() if s != 'S']
        if len(dsyms) == 1:
            k = r.diff(dsyms[0])
            got = repr(k)
            want = (-Sr / (Sr - 1)) if Ssym else Rat.const(eig)
            ok = k.equals(want)
    rep.check('C04.J', f"{key}.p_t::exponent-is-eigenvalue-of-q", ok, W, {'rate': got, 'exponents': sorted(exps)},
              f"{key}.p_t uses exp({got}·t) but the non-zero eigenvalue of its normalised q() is {(-Sr / (Sr - 1)) if Ssym else eig}: P(t) ≠ exp(Qt)")
    # sign of b's coefficient etc. implied by the identities; placement of a on the diagonal
    return a[0], b[0]


def check_jc69_layout(ctx, rep, names):
    cls = ctx.classes.get(f"{NUC}.JC69")
    pfn = cls.resolve('p_t')[1]
    entries, resh = find_cat_matrix(pfn)
    a, b = names
    diag = [i for i, e in enumerate(entries) if isinstance(e, ast.Name) and e.id == a]
    offd = [i for i, e in enumerate(entries) if isinstance(e, ast.Name) and e.id == b]
    rep.check('C04.J', 'JC69.p_t::layout', diag == [0, 5, 10, 15] and len(offd) == 12 and reshape_is_square(resh, 4), where(cls.module, pfn),
              {'diagonal_positions': diag}, "JC69.p_t must place the diagonal term at positions 0,5,10,15 of the row-major 4×4 layout")


def check_general_jc69(ctx, rep):
    cls = ctx.classes.get(f"{GEN}.GeneralJC69")
    qfn = cls.resolve('q')[1]
    # q: full(1/(S-1)) with diagonal -1
    ok_off = ok_diag = False
    for n in ast.walk(qfn):
        if isinstance(n, ast.Call) and (dotted_name(n.func) or '').endswith('full') and len(n.args) >= 2:
            try:
                v = ToRat(lambda e: Rat.sym('S') if self_attr(e) == 'state_count' else None)(n.args[1])
                ok_off = v.equals(Rat.const(1) / (Rat.sym('S') - 1))
            except Unsupported:
                pass
        if isinstance(n, ast.Assign) and isinstance(n.targets[0], ast.Subscript) and num(n.value) == -1:
            ok_diag = True
    rep.check('C04.L', 'GeneralJC69.q::normalised-equal-rates', ok_off and ok_diag, where(cls.module, qfn), None,
              "GeneralJC69.q must have off-diagonals 1/(S−1) and diagonal −1 (rows sum to zero, one expected substitution per unit time)")
    pfn = cls.resolve('p_t')[1]
    names = check_closed_form(rep, cls, pfn, S=None, eig=None, key='GeneralJC69', Ssym='state_count')
    if names:
        a, b = names
        # P filled with b, diagonal overwritten with a
        fills = [st for st in pfn.body if isinstance(st, ast.Assign) and isinstance(st.targets[0], ast.Name) and any(
            isinstance(x, ast.Name) and x.id == b for x in ast.walk(st.value)) and st.targets[0].id not in (a, b)]
        diag_store = [st for st in pfn.body if isinstance(st, ast.Assign) and isinstance(st.targets[0], ast.Subscript)
                      and any(isinstance(x, ast.Name) and x.id == a for x in ast.walk(st.value))]
        ok = bool(fills) and bool(diag_store)
        if ok:
            sl = diag_store[0].targets[0].slice
            elts = sl.elts if isinstance(sl, ast.Tuple) else [sl]
            rng = [ast.unparse(x) for x in elts if isinstance(x, ast.Call)]
            ok = len(rng) == 2 and rng[0] == rng[1]
        rep.check('C04.J', 'GeneralJC69.p_t::layout', ok, where(cls.module, pfn), None,
                  "GeneralJC69.p_t must fill the matrix with the off-diagonal term and overwrite [range(S), range(S)] with the diagonal term")


# ---------------------------------------------------------------------------
def is_diag_of_freq(e: ast.AST, defs) -> bool:
    for x in backward_slice(e, defs):
        for n in ast.walk(x):
            if isinstance(n, ast.Call) and isinstance(n.func, ast.Attribute) and n.func.attr in ('diag', 'diag_embed'):
                return True
            if isinstance(n, ast.Call) and (dotted_name(n.func) or '').endswith('eye'):
                return True
    return False


def mentions_freq(e, defs) -> bool:
    """the value (not merely the shape / dtype / device) of the frequencies enters e"""
    for x in backward_slice(e, defs):
        for n in ast.walk(x):
            if self_attr(n) in ('frequencies', '_frequencies') or (isinstance(n, ast.Name) and n.id == 'frequencies'):
                p = getattr(n, '_parent', None)
                if isinstance(p, ast.Attribute) and p.attr in ('shape', 'dtype', 'device', 'ndim'):
                    continue
                return True
    return False


def check_builder(ctx, rep, qual: str, meth: str, symmetric: bool):
    cls = ctx.classes.get(qual)
    r = cls.resolve(meth)
    if r is None:
        raise AnalysisError(f"{qual}.{meth} not found")
    fn = r[1]
    W = where(cls.module, fn)
    key = f"{cls.name}.{meth}"
    defs = local_assignments(fn)
    body = [st for st in ast.walk(fn) if isinstance(st, ast.stmt)]
    # the exchangeability matrix: the local that receives the two triangle stores
    sub_stores: Dict[str, int] = {}
    for st in fn.body:
        if isinstance(st, ast.Assign) and isinstance(st.targets[0], ast.Subscript) and isinstance(st.targets[0].value, ast.Name):
            sub_stores[st.targets[0].value.id] = sub_stores.get(st.targets[0].value.id, 0) + 1
    # product Q = R @ diag(π)   or element-wise Q = R * π (π broadcast along the last axis)
    prod = None
    for st in fn.body:
        if isinstance(st, ast.Assign) and isinstance(st.value, ast.BinOp) and isinstance(st.value.op, (ast.MatMult, ast.Mult)) and isinstance(st.targets[0], ast.Name):
            ops = (st.value.left, st.value.right)
            has_R = any(isinstance(o, ast.Name) and sub_stores.get(o.id, 0) >= 1 and o.id != st.targets[0].id for o in ops)
            if has_R and any(mentions_freq(o, defs) for o in ops if not (isinstance(o, ast.Name) and sub_stores.get(o.id, 0) >= 1)) and prod is None:
                prod = st
    if prod is None:
        raise Unsupported(fn, f"{key}: product of the exchangeability matrix with the frequencies not found")
    Qn = prod.targets[0].id
    L, Rr = prod.value.left, prod.value.right
    if isinstance(prod.value.op, ast.MatMult):
        right_is_diag = is_diag_of_freq(Rr, defs) and mentions_freq(Rr, defs)
        left_is_diag = is_diag_of_freq(L, defs) and mentions_freq(L, defs)
        ok_side = right_is_diag and not left_is_diag
    else:
        # element-wise: the frequency vector must vary along the last (column) axis: π, π.unsqueeze(-2), π[..., None, :]
        fexpr = Rr if mentions_freq(Rr, defs) else L
        if not mentions_freq(Rr, defs):
            L = Rr
        col = True
        for x in backward_slice(fexpr, defs):
            for n2 in ast.walk(x):
                if isinstance(n2, ast.Call) and isinstance(n2.func, ast.Attribute) and n2.func.attr == 'unsqueeze' and n2.args:
                    col = col and num(n2.args[0]) == -2
                if isinstance(n2, ast.Subscript) and isinstance(n2.slice, ast.Tuple) and n2.slice.elts and isinstance(n2.slice.elts[-1], ast.Constant) \
                        and n2.slice.elts[-1].value is None:
                    col = False
                if isinstance(n2, ast.Call) and isinstance(n2.func, ast.Attribute) and n2.func.attr in ('t', 'transpose', 'reshape', 'view'):
                    col = False
        ok_side = col
    rep.check('C04.B', f"{key}::frequencies-on-the-right", ok_side, where(cls.module, prod), {'product': norm_text(prod)},
              f"{key}: the exchangeability matrix must be scaled by the frequencies along its columns (R @ diag(π), i.e. Q_ij = r_ij·π_j); `{norm_text(prod.value)}` gives "
              f"Q_ij = π_i·r_ij, which is not reversible with respect to π")
    # exchangeability stores
    if isinstance(L, ast.Name):
        Rn = L.id
        stores = [st for st in fn.body if isinstance(st, ast.Assign) and isinstance(st.targets[0], ast.Subscript)
                  and isinstance(st.targets[0].value, ast.Name) and st.targets[0].value.id == Rn]

        def idx_pair(sub):
            sl = sub.slice
            elts = sl.elts if isinstance(sl, ast.Tuple) else [sl]
            idx = [ast.unparse(x) for x in elts if not (isinstance(x, ast.Constant) and x.value is Ellipsis)]
            return tuple(idx[-2:])
        pairs = [(idx_pair(st.targets[0]), st) for st in stores]
        ok = len(pairs) == 2 and pairs[0][0] == tuple(reversed(pairs[1][0])) and pairs[0][0][0] != pairs[0][0][1]
        rep.check('C04.B', f"{key}::both-triangles-filled", ok, W, {'stores': [p[0] for p in pairs]},
                  f"{key}: the exchangeabilities must be written to [i,j] and to [j,i]")
        if ok:
            a, b = ast.unparse(pairs[0][1].value), ast.unparse(pairs[1][1].value)
            if symmetric:
                rep.check('C04.B', f"{key}::symmetric-exchangeabilities", a == b, W, {'upper': a, 'lower': b},
                          f"{key}: upper and lower triangle are filled from different values: π_iQ_ij ≠ π_jQ_ji")
            else:
                rep.check('C04.B', f"{key}::two-halves-of-the-mapping", a != b and '[:dim]' in a.replace(' ', '') and '[dim:]' in b.replace(' ', ''), W,
                          {'upper': a, 'lower': b}, f"{key}: upper triangle must use the first half of the mapping and the lower triangle the second half")
            # upper indices are triu_indices(offset=1)
            idxvar = pairs[0][0][0].split('[')[0]
            tri = [v for v in defs.get(idxvar, []) if isinstance(v, ast.Call) and (dotted_name(v.func) or '').endswith('triu_indices')]
            ok_t = bool(tri) and ((len(tri[0].args) >= 3 and num(tri[0].args[2]) == 1) or any(kw.arg == 'offset' and num(kw.value) == 1 for kw in tri[0].keywords))
            rep.check('C04.B', f"{key}::strict-upper-triangle", ok_t, W, None, f"{key}: indices must be triu_indices(n, n, offset=1) (diagonal excluded)")
    # diagonal overwritten after the product with -sum over the last axis
    diag_stores = [st for st in fn.body if isinstance(st, ast.Assign) and isinstance(st.targets[0], ast.Subscript)
                   and isinstance(st.targets[0].value, ast.Name) and st.targets[0].value.id == Qn]
    ok = False
    facts = {}
    if len(diag_stores) == 1:
        st = diag_stores[0]
        v = st.value
        neg = isinstance(v, ast.UnaryOp) and isinstance(v.op, ast.USub)
        inner = v.operand if neg else v
        is_sum = isinstance(inner, ast.Call) and (dotted_name(inner.func) or '').endswith('sum') and inner.args and isinstance(inner.args[0], ast.Name) and inner.args[0].id == Qn
        axis = None
        if is_sum:
            ax = inner.args[1] if len(inner.args) > 1 else next((kw.value for kw in inner.keywords if kw.arg in ('dim', 'axis')), None)
            axis = num(ax) if ax is not None else None
        sl = st.targets[0].slice
        elts = sl.elts if isinstance(sl, ast.Tuple) else [sl]
        rng = [ast.unparse(x) for x in elts if isinstance(x, ast.Call)]
        two_d = not any(isinstance(x, ast.Constant) and x.value is Ellipsis for x in elts)
        after = fn.body.index(st) > fn.body.index(prod)
        ok = neg and is_sum and (axis == -1 or (two_d and axis == 1)) and len(rng) == 2 and rng[0] == rng[1] and after
        facts = {'store': norm_text(st), 'axis': str(axis)}
        later = [s2 for s2 in fn.body[fn.body.index(st) + 1:] if isinstance(s2, (ast.Assign, ast.AugAssign)) and any(
            isinstance(n, ast.Name) and n.id == Qn and isinstance(n.ctx, ast.Store) or
            (isinstance(n, ast.Subscript) and isinstance(n.value, ast.Name) and n.value.id == Qn and isinstance(n.ctx, ast.Store)) for n in ast.walk(s2))]
        # a later scaling of the whole matrix (Q = Q * c, Q = Q / c) keeps rows summing to zero; anything else does not
        def is_scaling(s2):
            return isinstance(s2, ast.Assign) and isinstance(s2.targets[0], ast.Name) and isinstance(s2.value, ast.BinOp) \
                and isinstance(s2.value.op, (ast.Mult, ast.Div)) and isinstance(s2.value.left, ast.Name) and s2.value.left.id == Qn \
                and not any(isinstance(n, ast.Name) and n.id == Qn for n in ast.walk(s2.value.right))
        later = [s2 for s2 in later if not is_scaling(s2)]
        ok = ok and not later
    rep.check('C04.B', f"{key}::diagonal-is-minus-row-sum", ok, W, facts,
              f"{key}: after the product the diagonal must be overwritten with −Σ_j Q_ij over the last (column) axis and Q not modified afterwards; "
              f"otherwise rows do not sum to zero")
    rets = [n for n in ast.walk(fn) if isinstance(n, ast.Return)]
    rep.check('C04.B', f"{key}::returns-Q", len(rets) == 1 and isinstance(rets[0].value, ast.Name) and rets[0].value.id == Qn, W, None, f"{key} must return the matrix it normalised")


class _Sym3:
    """evaluates a norm() body on a symbolic 3×3 rate matrix with zero row sums (independent off-diagonal entries: no reversibility assumed) and frequencies π0..π2.
    Values: Rat (scalar), ('v', [Rat]*3) vector along the last axis, ('c', [Rat]*3) column (vector with a trailing unit axis), ('m', [[Rat]*3]*3) matrix."""
    N = 3

    def __init__(self, q_name):
        n = self.N
        off = {(i, j): Rat.sym(f"q{i}{j}") for i in range(n) for j in range(n) if i != j}
        self.Q = [[off[(i, j)] if i != j else None for j in range(n)] for i in range(n)]
        for i in range(n):
            d = Rat.const(0)
            for j in range(n):
                if j != i:
                    d = d - off[(i, j)]
            self.Q[i][i] = d
        self.pi = [Rat.sym(f"pi{k}") for k in range(n)]
        self.env = {q_name: ('m', self.Q)}

    def want(self):
        out = Rat.const(0)
        for i in range(self.N):
            out = out - self.pi[i] * self.Q[i][i]
        return out

    def bin(self, a, b, f):
        n = self.N
        if isinstance(a, Rat) and isinstance(b, Rat):
            return f(a, b)
        if isinstance(a, Rat):
            a = ('m', [[a] * n for _ in range(n)]) if b[0] == 'm' else (b[0], [a] * n)
        if isinstance(b, Rat):
            b = ('m', [[b] * n for _ in range(n)]) if a[0] == 'm' else (a[0], [b] * n)
        ka, kb = a[0], b[0]
        if ka == kb and ka in ('v', 'c'):
            return (ka, [f(x, y) for x, y in zip(a[1], b[1])])
        if ka == 'm' and kb == 'm':
            return ('m', [[f(a[1][i][j], b[1][i][j]) for j in range(n)] for i in range(n)])
        if ka == 'm' and kb == 'v':      # [n, n] op [n]: along columns
            return ('m', [[f(a[1][i][j], b[1][j]) for j in range(n)] for i in range(n)])
        if ka == 'v' and kb == 'm':
            return ('m', [[f(a[1][j], b[1][i][j]) for j in range(n)] for i in range(n)])
        if ka == 'm' and kb == 'c':      # [n, n] op [n, 1]: along rows
            return ('m', [[f(a[1][i][j], b[1][i]) for j in range(n)] for i in range(n)])
        if ka == 'c' and kb == 'm':
            return ('m', [[f(a[1][i], b[1][i][j]) for j in range(n)] for i in range(n)])
        if {ka, kb} == {'v', 'c'}:
            col, row = (a, b) if ka == 'c' else (b, a)
            return ('m', [[f(col[1][i], row[1][j]) if ka == 'c' else f(row[1][j], col[1][i]) for j in range(n)] for i in range(n)])
        raise Unsupported(None, 'operand kinds')

    def axes(self, call, pos):
        a = call.args[pos] if len(call.args) > pos else next((k.value for k in call.keywords if k.arg in ('dim', 'axis')), None)
        if a is None:
            return None
        v = ast.literal_eval(a)
        return tuple(v) if isinstance(v, (tuple, list)) else (v,)

    def ev(self, e):
        n = self.N
        if isinstance(e, ast.Name):
            if e.id in self.env:
                return self.env[e.id]
            raise Unsupported(e, f"name {e.id}")
        if isinstance(e, ast.Constant) and isinstance(e.value, (int, float)):
            return Rat.const(str(e.value))
        if self_attr(e) in ('frequencies',) or (isinstance(e, ast.Attribute) and e.attr == 'tensor' and self_attr(e.value) == '_frequencies'):
            return ('v', self.pi)
        if isinstance(e, ast.UnaryOp) and isinstance(e.op, ast.USub):
            return self.bin(Rat.const(-1), self.ev(e.operand), lambda x, y: x * y)
        if isinstance(e, ast.BinOp) and isinstance(e.op, (ast.Add, ast.Sub, ast.Mult, ast.Div)):
            f = {ast.Add: lambda x, y: x + y, ast.Sub: lambda x, y: x - y, ast.Mult: lambda x, y: x * y, ast.Div: lambda x, y: x / y}[type(e.op)]
            return self.bin(self.ev(e.left), self.ev(e.right), f)
        if isinstance(e, ast.Call) and isinstance(e.func, ast.Attribute):
            nm = e.func.attr
            torch_fn = isinstance(e.func.value, ast.Name) and e.func.value.id == 'torch'
            recv = self.ev(e.args[0] if torch_fn else e.func.value)
            pos = 1 if torch_fn else 0
            if nm == 'unsqueeze':
                ax = self.axes(e, pos)
                if isinstance(recv, tuple) and recv[0] == 'v' and ax == (-1,):
                    return ('c', recv[1])
                if isinstance(recv, tuple) and recv[0] == 'v' and ax == (-2,):
                    return recv
                raise Unsupported(e, 'unsqueeze')
            if nm == 'diagonal' and isinstance(recv, tuple) and recv[0] == 'm':
                kw = {k.arg: ast.literal_eval(k.value) for k in e.keywords}
                if kw.get('dim1') == -2 and kw.get('dim2') == -1 and not kw.get('offset'):
                    return ('v', [recv[1][i][i] for i in range(n)])
                raise Unsupported(e, 'diagonal axes')
            if nm in ('triu', 'tril') and isinstance(recv, tuple) and recv[0] == 'm':
                d = next((ast.literal_eval(k.value) for k in e.keywords if k.arg == 'diagonal'), ast.literal_eval(e.args[pos]) if len(e.args) > pos else 0)
                keep = (lambda i, j: j - i >= d) if nm == 'triu' else (lambda i, j: j - i <= d)
                return ('m', [[recv[1][i][j] if keep(i, j) else Rat.const(0) for j in range(n)] for i in range(n)])
            if nm == 'sum':
                ax = self.axes(e, pos)
                if isinstance(recv, tuple) and recv[0] == 'v' and ax in ((-1,), None):
                    out = Rat.const(0)
                    for x in recv[1]:
                        out = out + x
                    return out
                if isinstance(recv, tuple) and recv[0] == 'm':
                    if ax in ((-2, -1), (-1, -2), None):
                        out = Rat.const(0)
                        for r_ in recv[1]:
                            for x in r_:
                                out = out + x
                        return out
                    if ax == (-1,):
                        return ('v', [sum_rats(r_) for r_ in recv[1]])
                    if ax == (-2,):
                        return ('v', [sum_rats([recv[1][i][j] for i in range(n)]) for j in range(n)])
                raise Unsupported(e, 'sum axes')
            if nm in ('clone', 'contiguous'):
                return recv
        raise Unsupported(e, f"expression {ast.unparse(e)[:40]} outside the vocabulary of the norm evaluator")

    def run(self, fn):
        for st in fn.body:
            if isinstance(st, ast.Expr) and isinstance(st.value, ast.Constant):
                continue
            if isinstance(st, ast.Assign) and len(st.targets) == 1 and isinstance(st.targets[0], ast.Name):
                self.env[st.targets[0].id] = self.ev(st.value)
                continue
            if isinstance(st, ast.Return) and st.value is not None:
                return self.ev(st.value)
            raise Unsupported(st, 'statement outside the vocabulary of the norm evaluator')
        raise Unsupported(fn, 'no return')


def sum_rats(xs):
    out = Rat.const(0)
    for x in xs:
        out = out + x
    return out


# ---------------------------------------------------------------------------
def check_norm_and_ptn(ctx, rep):
    acls = ctx.classes.get(f"{ABS}.AbstractSubstitutionModel")

    def minus_sum_pi_qii(nfn):
        rets = [n for n in ast.walk(nfn) if isinstance(n, ast.Return)]
        if len(rets) != 1 or len(nfn.args.args) < 2:
            return False, None
        ret = rets[0].value
        Qp = nfn.args.args[1].arg
        ok = False
        if isinstance(ret, ast.UnaryOp) and isinstance(ret.op, ast.USub) and isinstance(ret.operand, ast.Call) and (dotted_name(ret.operand.func) or '').endswith('sum'):
            s_ = ret.operand
            if s_.args and isinstance(s_.args[0], ast.BinOp) and isinstance(s_.args[0].op, ast.Mult):
                parts = [s_.args[0].left, s_.args[0].right]
                dg = [p_ for p_ in parts if isinstance(p_, ast.Call) and (dotted_name(p_.func) or '').endswith('diagonal') and p_.args
                      and isinstance(p_.args[0], ast.Name) and p_.args[0].id == Qp]
                fr = [p_ for p_ in parts if self_attr(p_) == 'frequencies']
                ax = num(s_.args[1]) if len(s_.args) > 1 else None
                dims = {kw.arg: num(kw.value) for p_ in dg for kw in p_.keywords}
                ok = len(dg) == 1 and len(fr) == 1 and ax == -1 and dims.get('dim1') == -2 and dims.get('dim2') == -1
        return ok, ret
    # the norm every concrete model resolves to (the base implementation, or an override): one expected substitution per unit time UNDER THE MODEL'S FREQUENCIES
    seen = {}
    for cls in [acls] + ctx.classes.subclasses(f"{ABS}.AbstractSubstitutionModel", strict=True):
        r = cls.resolve('norm')
        if r is None or id(r[1]) in seen:
            continue
        seen[id(r[1])] = True
        ok, ret = minus_sum_pi_qii(r[1])
        uses_freqs = any(self_attr(x) in ('frequencies', '_frequencies') for x in ast.walk(r[1]))
        if not ok and uses_freqs:
            # another form that uses the model's frequencies: evaluated on a symbolic 3×3 generator (zero row sums, no reversibility assumed — the norm also serves the
            # non-reversible models) and compared with −Σ π_i Q_ii as a polynomial identity
            try:
                ev3 = _Sym3(r[1].args.args[1].arg)
                got = ev3.run(r[1])
                if not isinstance(got, Rat):
                    raise Unsupported(r[1], 'norm does not reduce to a scalar')
                rep.check('C04.N', f"{r[0].name}.norm::minus-sum-pi-Qii", got.equals(ev3.want()), where(r[0].module, r[1]), {'value_on_a_symbolic_generator': repr(got)[:200], 'expected': repr(ev3.want())[:200]},
                          f"{r[0].name}.norm evaluates to {got!r} on a generator with zero row sums, not −Σ_i π_i·Q_ii = {ev3.want()!r}: it agrees only when π_i·Q_ij = π_j·Q_ji, but the same "
                          f"norm scales the non-reversible models")
            except Unsupported as u:
                rep.undecided('C04.N', f"{r[0].name}.norm::minus-sum-pi-Qii", where(r[0].module, r[1]), str(u))
            continue
        rep.check('C04.N', f"{r[0].name}.norm::minus-sum-pi-Qii", ok, where(r[0].module, r[1]), {'return': norm_text(ret) if ret is not None else None},
                  f"{r[0].name}.norm must be −Σ_i π_i·Q_ii with π the model's frequencies (diagonal over the last two axes, summed over the last axis): with another weighting the "
                  f"branch lengths are no longer expected substitutions per site under the model's frequencies")
    for qual, meth, sink in ((f"{ABS}.SymmetricSubstitutionModel", 'p_t', 'eigen'), (f"{ABS}.NonSymmetricSubstitutionModel", 'p_t', 'matrix_exp'),
                             (f"{GEN}.EmpiricalSubstitutionModel", '__init__', 'eigen')):
        cls = ctx.classes.get(qual)
        fn = cls.methods.get(meth)
        if fn is None:
            raise AnalysisError(f"{qual}.{meth} not found")
        defs = local_assignments(fn)
        sinks = [c for c in ast.walk(fn) if isinstance(c, ast.Call) and ((isinstance(c.func, ast.Attribute) and c.func.attr == sink))]
        key = f"{cls.name}.{meth}::normalised-before-{sink}"
        if not sinks:
            rep.bad('C04.N', key, where(cls.module, fn), None, f"{cls.name}.{meth}: call to {sink} not found")
            continue
        ok = False
        for c in sinks:
            for x in backward_slice(c.args[0], defs):
                for n in ast.walk(x):
                    if isinstance(n, ast.BinOp) and isinstance(n.op, ast.Div):
                        num_q = any((isinstance(y, ast.Call) and self_attr(y.func) == 'q') or self_attr(y) == 'Q' for z in backward_slice(n.left, defs) for y in ast.walk(z))
                        den_norm = any(isinstance(y, ast.Call) and self_attr(y.func) == 'norm' for z in backward_slice(n.right, defs) for y in ast.walk(z))
                        # inline form: -sum(diagonal(Q) * frequencies)
                        den_inline = any(isinstance(y, ast.Call) and (dotted_name(y.func) or '').endswith('diagonal') for z in backward_slice(n.right, defs) for y in ast.walk(z)) \
                            and any(self_attr(y) in ('frequencies', '_frequencies') for z in backward_slice(n.right, defs) for y in ast.walk(z)) \
                            and any(isinstance(y, ast.UnaryOp) and isinstance(y.op, ast.USub) for z in backward_slice(n.right, defs) for y in ast.walk(z))
                        if num_q and (den_norm or den_inline):
                            ok = True
        rep.check('C04.N', key, ok, where(cls.module, fn), None,
                  f"{cls.name}.{meth}: the matrix handed to {sink} is not q() divided by its norm: branch lengths are no longer expected substitutions per site")
    # time enters as Q*t / e*t
    ns = ctx.classes.get(f"{ABS}.NonSymmetricSubstitutionModel").methods['p_t']
    bl = ns.args.args[1].arg
    ok = any(isinstance(c, ast.Call) and (dotted_name(c.func) or '').endswith('matrix_exp') and isinstance(c.args[0], ast.BinOp)
             and isinstance(c.args[0].op, ast.Mult) and any(isinstance(y, ast.Name) and y.id == bl for y in ast.walk(c.args[0])) for c in ast.walk(ns))
    rep.check('C04.E', 'NonSymmetricSubstitutionModel.p_t::matrix_exp(Q*t)', ok, where(ctx.classes.get(f"{ABS}.NonSymmetricSubstitutionModel").module, ns), None,
              "non-reversible models must return matrix_exp(Q·t)")
    # … one matrix per (branch, category) of every sample: Q [..., n, n] gets the two axes of the branch lengths [..., B, K] in FRONT of its matrix axes, t gets the two matrix
    # axes behind: the numbers of inserted axes agree (2 and 2).  With fewer axes on Q its sample axis is aligned with the category / branch axis of t.
    def inserted(e, behind):
        k = 0
        while True:
            if isinstance(e, ast.Call) and isinstance(e.func, ast.Attribute) and e.func.attr == 'unsqueeze' and len(e.args) == 1:
                if ast.unparse(e.args[0]) == ('-1' if behind else '-3'):
                    k += 1
                    e = e.func.value
                    continue
                return None, e
            if isinstance(e, ast.Subscript) and isinstance(e.slice, ast.Tuple) and e.slice.elts and isinstance(e.slice.elts[0], ast.Constant) and e.slice.elts[0].value is Ellipsis:
                rest = e.slice.elts[1:]
                nones = [x for x in rest if isinstance(x, ast.Constant) and x.value is None]
                fulls = [x for x in rest if isinstance(x, ast.Slice) and x.lower is None and x.upper is None]
                if len(nones) + len(fulls) != len(rest) or (behind and fulls) or (not behind and len(fulls) != 2):
                    return None, e
                k += len(nones)
                e = e.value
                continue
            return k, e
    for c in ast.walk(ns):
        if isinstance(c, ast.Call) and (dotted_name(c.func) or '').endswith('matrix_exp') and c.args and isinstance(c.args[0], ast.BinOp) and isinstance(c.args[0].op, ast.Mult):
            sides = [c.args[0].left, c.args[0].right]
            t_side = next((x for x in sides if any(isinstance(y, ast.Name) and y.id == bl for y in ast.walk(x))), None)
            q_side = next((x for x in sides if x is not t_side), None)
            if t_side is None or q_side is None:
                continue
            kt, _ = inserted(t_side, True)
            kq, _ = inserted(q_side, False)
            if kt is None or kq is None:
                rep.undecided('C04.E', 'NonSymmetricSubstitutionModel.p_t::one-matrix-per-branch-and-category', where(ctx.classes.get(f"{ABS}.NonSymmetricSubstitutionModel").module, c),
                              'the axes inserted on Q and on the branch lengths are not written as unsqueeze(-3) / unsqueeze(-1) / [..., None, None]')
            else:
                rep.check('C04.E', 'NonSymmetricSubstitutionModel.p_t::one-matrix-per-branch-and-category', kt == 2 and kq == 2, where(ctx.classes.get(f"{ABS}.NonSymmetricSubstitutionModel").module, c),
                          {'axes_inserted_in_front_of_the_matrix_axes_of_Q': kq, 'axes_appended_to_the_branch_lengths': kt},
                          f"matrix_exp receives Q with {kq} axes inserted in front of its matrix axes and branch lengths with {kt} axes appended: the product needs 2 and 2 "
                          f"([..., 1, 1, n, n] · [..., B, K, 1, 1]); otherwise the sample axis of a batched rate matrix is aligned with the category axis of the branch lengths and "
                          f"P(t) of one sample is computed from the rate matrix of another")


def flatten_matmul(e) -> List[ast.AST]:
    if isinstance(e, ast.BinOp) and isinstance(e.op, ast.MatMult):
        return flatten_matmul(e.left) + flatten_matmul(e.right)
    # strip reshape / parentheses
    if isinstance(e, ast.Call) and isinstance(e.func, ast.Attribute) and e.func.attr in ('reshape', 'view', 'contiguous', 'expand'):
        return flatten_matmul(e.func.value)
    return [e]


def check_conjugation(ctx, rep, qual: str, setup_meth: str, use_meth: str):
    cls = ctx.classes.get(qual)
    sfn = cls.methods.get(setup_meth)
    ufn = cls.methods.get(use_meth)
    if sfn is None or ufn is None:
        raise AnalysisError(f"{qual}.{setup_meth}/{use_meth} not found")
    key = f"{cls.name}.{use_meth}"
    W = where(cls.module, ufn)
    sdefs = local_assignments(sfn)
    # attribute definitions in setup (self.sqrt_pi = …) count as names
    for st in ast.walk(sfn):
        if isinstance(st, ast.Assign):
            for t in st.targets:
                for el in (t.elts if isinstance(t, ast.Tuple) else [t]):
                    a = self_attr(el)
                    if a:
                        sdefs.setdefault('self.' + a, []).append(st.value)

    def name_of(e):
        if isinstance(e, ast.Name):
            return e.id
        a = self_attr(e)
        return 'self.' + a if a else None

    def role(e) -> str:
        """A (sqrt π diag), Ainv, V, Vinv, D (diag exp), Q, ?"""
        n = name_of(e)
        if n and n in sdefs:
            v = sdefs[n][-1]
            txt = ast.unparse(v)
            is_diag = isinstance(v, ast.Call) and isinstance(v.func, ast.Attribute) and v.func.attr in ('diag_embed', 'diag')
            if is_diag and 'sqrt' in txt:
                inner = v.func.value
                inv = any(isinstance(x, ast.BinOp) and isinstance(x.op, ast.Div) and num(x.left) == 1 for x in ast.walk(inner)) or 'rsqrt' in txt \
                    or any(isinstance(x, ast.Call) and isinstance(x.func, ast.Attribute) and x.func.attr == 'reciprocal' for x in ast.walk(inner))
                return 'Ainv' if inv else 'A'
            if any(isinstance(x, ast.Call) and isinstance(x.func, ast.Attribute) and x.func.attr == 'eigen' for x in ast.walk(v)):
                # tuple unpack (e, v) = eigen(S): second is V
                for st in ast.walk(sfn):
                    if isinstance(st, ast.Assign) and isinstance(st.targets[0], ast.Tuple) and st.value is v:
                        names = [name_of(x) for x in st.targets[0].elts]
                        return 'V' if names.index(n) == 1 else 'E'
            if any(isinstance(x, ast.BinOp) and isinstance(x.op, ast.Div) for x in ast.walk(v)) and 'Q' in txt or 'q()' in txt:
                return 'Q'
        if isinstance(e, ast.Call) and isinstance(e.func, ast.Attribute):
            if e.func.attr == 'inverse' and role(e.func.value) == 'V':
                return 'Vinv'
            if e.func.attr == 'transpose' and role(e.func.value) == 'V':
                return 'Vt'
            if e.func.attr == 'diag_embed' and any(isinstance(x, ast.Call) and (dotted_name(x.func) or '').endswith('exp') for x in ast.walk(e.func.value)):
                return 'D'
        if isinstance(e, ast.Attribute) and e.attr in ('mT', 'T') and role(e.value) == 'V':
            return 'Vt'
        return '?'
    # S = A @ Q @ Ainv handed to eigen
    eig_calls = [c for c in ast.walk(sfn) if isinstance(c, ast.Call) and isinstance(c.func, ast.Attribute) and c.func.attr == 'eigen']
    if not eig_calls:
        raise Unsupported(sfn, f"{key}: eigen call not found")
    arg = eig_calls[0].args[0]
    if isinstance(arg, ast.Name) and arg.id in sdefs:
        arg = sdefs[arg.id][-1]
    sword = [role(x) for x in flatten_matmul(arg)]
    rep.check('C04.E', f"{key}::symmetrisation", sword == ['A', 'Q', 'Ainv'], where(cls.module, eig_calls[0]), {'word': sword},
              f"{cls.name}: the matrix handed to eigh must be diag(√π)·Q·diag(1/√π) (symmetric for reversible Q); found {' · '.join(sword)}")
    # eigh ⇒ V orthonormal; eig ⇒ only inverse allowed
    eigfn = cls.resolve('eigen')
    is_eigh = eigfn is not None and any((dotted_name(c.func) or '').endswith('eigh') for c in ast.walk(eigfn[1]) if isinstance(c, ast.Call))
    rets = [n for n in ast.walk(ufn) if isinstance(n, ast.Return) and n.value is not None]
    if not rets:
        raise Unsupported(ufn, f"{key}: no return")
    # name of the symmetrised matrix handed to eigen (S): exp(S·t) = diag(√π)·exp(Q·t)·diag(1/√π), so a path that exponentiates S directly must undo the similarity
    s_name = eig_calls[0].args[0].id if isinstance(eig_calls[0].args[0], ast.Name) else None

    def role2(e):
        r0 = role(e)
        if r0 != '?':
            return r0
        n = name_of(e)
        v = sdefs[n][-1] if n and n in sdefs else e
        for c in ast.walk(v):
            if isinstance(c, ast.Call) and (dotted_name(c.func) or '').endswith('matrix_exp') and c.args:
                inner = c.args[0]
                if s_name and any(isinstance(x, ast.Name) and x.id == s_name for x in ast.walk(inner)) and any(isinstance(x, ast.Name) and x.id == ufn.args.args[1].arg for x in ast.walk(inner)):
                    return 'EXPS'
        return '?'
    # the eigen path is the (last) return whose word contains V; every other return is an alternative path and must be a correct reconstruction as well
    words = [[role2(x) for x in flatten_matmul(r.value)] for r in rets]
    main = next((i for i in range(len(rets) - 1, -1, -1) if 'V' in words[i]), len(rets) - 1)
    for i, (r, word) in enumerate(zip(rets, words)):
        norm_word = ['Vinv' if (w == 'Vt' and is_eigh) else w for w in word]
        if i == main:
            rep.check('C04.E', f"{key}::reconstruction-word", norm_word == ['Ainv', 'V', 'D', 'Vinv', 'A'], W, {'word': word, 'eigh': is_eigh},
                      f"{cls.name}.{use_meth} must return diag(1/√π)·V·diag(exp(λt))·V⁻¹·diag(√π); found {' · '.join(word)} — a transposed or swapped product is "
                      f"invisible under equal frequencies (JC69) but wrong for skewed ones")
        else:
            ok_alt = norm_word in (['Ainv', 'EXPS', 'A'], ['Ainv', 'V', 'D', 'Vinv', 'A'])
            if '?' in norm_word and not ok_alt:
                rep.undecided('C04.E', f"{key}::alternative-return#{i}", where(cls.module, r), f"return path with an unrecognised factor: {' · '.join(word)}")
            else:
                rep.check('C04.E', f"{key}::alternative-return#{i}", ok_alt, where(cls.module, r), {'word': word},
                          f"{cls.name}.{use_meth} has a second return path that returns {' · '.join(word)}; with S = diag(√π)·Q·diag(1/√π) the transition matrix is "
                          f"diag(1/√π)·exp(S·t)·diag(√π): the similarity is undone the wrong way round, entry (i, j) is scaled by π_i/π_j (rows no longer sum to one unless the "
                          f"frequencies are equal)")
    rets = [rets[main]]
    # D = diag(exp(e * t))
    bl = ufn.args.args[1].arg
    okD = False
    for x in flatten_matmul(rets[0].value):
        if role(x) == 'D':
            ex = [c for c in ast.walk(x) if isinstance(c, ast.Call) and (dotted_name(c.func) or '').endswith('exp')]
            if ex and isinstance(ex[0].args[0], ast.BinOp) and isinstance(ex[0].args[0].op, ast.Mult):
                mult = ex[0].args[0]
                has_t = any(isinstance(y, ast.Name) and y.id == bl for y in ast.walk(mult))
                has_e = any(role(y) == 'E' for y in ast.walk(mult) if isinstance(y, (ast.Name, ast.Attribute)))
                okD = has_t and has_e
    rep.check('C04.E', f"{key}::exp-of-eigenvalues-times-t", okD, W, None, f"{cls.name}.{use_meth}: the middle factor must be diag(exp(eigenvalues · branch lengths))")


AUDITED_P_T = {
    # class -> which rule audits its p_t (every p_t of the package must be listed: a new implementation is reported, not silently trusted)
    'SubstitutionModel': 'abstract declaration',
    'AbstractSubstitutionModel': 'abstract',
    'SymmetricSubstitutionModel': 'C04.E conjugation',
    'NonSymmetricSubstitutionModel': 'C04.E matrix_exp',
    'JC69': 'C04.J closed form',
    'GeneralJC69': 'C04.J closed form',
    'EmpiricalSubstitutionModel': 'C04.E conjugation (precomputed)',
}


def check_p_t_inventory(ctx, rep):
    n = 0
    for mname, m in sorted(ctx.prog.modules.items()):
        if not mname.startswith('torchtree.evolution.substitution_model'):
            continue
        for cname, cnode in m.classes.items():
            for fn in [b for b in cnode.body if isinstance(b, ast.FunctionDef) and b.name == 'p_t']:
                n += 1
                key = f"{cname}.p_t::audited-implementation"
                is_abstract = any((dotted_name(d) or '').endswith('abstractmethod') for d in fn.decorator_list)
                if cname in AUDITED_P_T or is_abstract:
                    rep.ok('C04.E', key, where(m, fn), {'audited_by': AUDITED_P_T[cname]})
                else:
                    rep.incomplete('C04.E', key, where(m, fn), f"{cname}.p_t is a transition-probability implementation none of the rules audits (the audited ones are "
                                  f"{sorted(AUDITED_P_T)}): its agreement with exp(Q·t) of the class's own q() is not decided")
    if n < 5:
        raise AnalysisError(f"only {n} p_t implementations found")
    # eigen(): decomposes exactly the matrix it is given
    for mname, m in sorted(ctx.prog.modules.items()):
        if not mname.startswith('torchtree.evolution.substitution_model'):
            continue
        for cname, cnode in m.classes.items():
            for fn in [b for b in cnode.body if isinstance(b, ast.FunctionDef) and b.name == 'eigen']:
                arg = fn.args.args[1].arg if len(fn.args.args) > 1 else None
                rets = [r for r in ast.walk(fn) if isinstance(r, ast.Return) and r.value is not None]
                key = f"{cname}.eigen::decomposes-its-argument-unchanged"
                verdict = None
                why = ''
                if len(rets) == 1 and isinstance(rets[0].value, ast.Call) and (dotted_name(rets[0].value.func) or '').split('.')[-1] in ('eigh', 'eig', 'eigvalsh', 'eigvals') \
                        and rets[0].value.args:
                    a0 = rets[0].value.args[0]
                    if isinstance(a0, ast.Name) and a0.id == arg and len([st for st in fn.body if not (isinstance(st, ast.Expr) and isinstance(st.value, ast.Constant))]) == 1:
                        verdict = True
                    elif any(isinstance(x, ast.Name) and x.id == arg for x in ast.walk(a0)) and not (isinstance(a0, ast.Name)):
                        verdict = False
                        why = f"{cname}.eigen decomposes `{ast.unparse(a0)[:60]}` instead of the matrix it is given: the reconstructed P(t) is exp of a different generator (rows no longer sum to one)"
                if verdict is None:
                    rep.undecided('C04.E', key, where(m, fn), 'eigen() not a single return of eigh/eig of its argument')
                else:
                    rep.check('C04.E', key, verdict, where(m, fn), None, why)


def check_time_enters_as_it_is(ctx, rep) -> int:
    """(E) time enters p_t as it is: no floor / clamp / absolute value on the branch lengths (P(0) = I and P(s)P(t) = P(s + t) need t itself)"""
    nt = 0
    for mname, m in sorted(ctx.prog.modules.items()):
        if not mname.startswith('torchtree.evolution.substitution_model'):
            continue
        for fn in [f for f in ast.walk(m.tree) if isinstance(f, ast.FunctionDef)]:
            cl_ = getattr(fn, '_parent', None)
            scope = f"{cl_.name}.{fn.name}" if isinstance(cl_, ast.ClassDef) else fn.name
            if fn.name.startswith('p_t') and len(fn.args.args) > 1:
                t = fn.args.args[1].arg
                nt += 1
                alt = [c for c in ast.walk(fn) if isinstance(c, ast.Call) and isinstance(c.func, ast.Attribute) and c.func.attr in ('clamp', 'clamp_min', 'clamp_max', 'clip', 'abs', 'relu', 'maximum', 'minimum', 'round')
                       and any(isinstance(x, ast.Name) and x.id == t for x in ast.walk(c))]
                rep.check('C04.E', f"{mname.split('.')[-1]}::{scope}::time-enters-as-it-is", not alt, where(m, alt[0] if alt else fn), {'alterations': [norm_text(x)[:50] for x in alt]},
                          f"{scope}: `{norm_text(alt[0])[:50] if alt else ''}` alters the branch lengths before the exponential: P(0) is no longer the identity and P(s)P(t) ≠ P(s + t) "
                          f"whenever an argument is below the floor")
    return nt


def run(ctx, rep):
    from sa import callbind
    callbind.run_for(ctx, rep, 'C04', 14)
    rep.explanation = (
        "Literal rate matrices (HKY, GTR, JC69) are turned into polynomials over π, κ, r and checked as identities: rows sum to zero, "
        "off-diagonals are positive combinations, detailed balance for all six pairs, κ / rate placement.  Closed forms (JC69, GeneralJC69) "
        "are checked as polynomial identities in e=exp(kt) and S (rows sum to one, P(0)=I) and their exponent against the eigenvalue of the "
        "model's own q().  Generic builders are checked by ordered def-use facts (both triangles, R·diag(π), diagonal = −row sum, nothing "
        "after).  Normalisation precedes every eigendecomposition / matrix exponential.  The eigen-reconstruction is checked as a word in the "
        "free group: diag(1/√π)·V·D·V⁻¹·diag(√π) with the symmetrised matrix diag(√π)·Q·diag(1/√π)."
    )
    rep.rule('C04.L', "literal rate matrices: rows sum to zero, positive off-diagonals, detailed balance, parameter placement (polynomial identities)")
    rep.rule('C04.J', "closed forms: rows sum to one, P(0)=I, exponent = non-zero eigenvalue of the model's normalised q(), diagonal layout")
    rep.rule('C04.B', "builders: both triangles filled, R @ diag(π) with π on the right, diagonal overwritten with −row sum after the product, nothing writes Q afterwards")
    rep.rule('C04.N', "norm = −Σπ_iQ_ii and every p_t / eigen setup divides q() by it before exponentiating")
    rep.rule('C04.E', "eigen-reconstruction is the conjugation diag(1/√π)·V·diag(exp(λt))·V⁻¹·diag(√π) of the symmetrised matrix; non-reversible: matrix_exp(Q·t)")
    rep.assumptions += ["torch.linalg.eigh returns orthonormal eigenvectors (Vᵀ = V⁻¹)", "torch.cat(…, -1).reshape(…,(4,4)) is row-major"]
    rep.not_decided += ["numerical accuracy of eigh / matrix_exp", "semigroup law numerically", "batched broadcasting", "empirical rate tables (LG, WAG values)"]
    rep.rule('C04.X', "a position obtained by enumerating a filtered list (sense codons) is never used to index the table it was filtered from (all 64 codons)")
    steps = [
        ('C04.L', lambda: check_literal(ctx, rep, 'HKY', {'pi': 'pi', 'kappa': 'kappa'}, 'HKY')),
        ('C04.L', lambda: check_literal(ctx, rep, 'GTR', {'pi': 'pi', 'rates': 'r'}, 'GTR')),
        ('C04.J', lambda: check_jc69(ctx, rep)),
        ('C04.J', lambda: check_general_jc69(ctx, rep)),
        ('C04.B', lambda: check_builder(ctx, rep, f"{GEN}.GeneralSymmetricSubstitutionModel", 'q', True)),
        ('C04.B', lambda: check_builder(ctx, rep, f"{GEN}.GeneralNonSymmetricSubstitutionModel", 'q', False)),
        ('C04.B', lambda: check_builder(ctx, rep, f"{GEN}.EmpiricalSubstitutionModel", 'create_rate_matrix', True)),
        ('C04.B', lambda: check_builder(ctx, rep, f"{COD}.MG94", 'q', True)),
        ('C04.N', lambda: check_norm_and_ptn(ctx, rep)),
        ('C04.E', lambda: check_conjugation(ctx, rep, f"{ABS}.SymmetricSubstitutionModel", 'p_t', 'p_t')),
        ('C04.E', lambda: check_conjugation(ctx, rep, f"{GEN}.EmpiricalSubstitutionModel", '__init__', 'p_t')),
        ('C04.E', lambda: check_p_t_inventory(ctx, rep)),
        ('C04.X', lambda: check_filtered_indices(ctx, rep)),
        ('C04.E', lambda: check_no_argument_blind_memo(ctx, rep)),
    ]
    for i, (rule, f) in enumerate(steps):
        try:
            f()
        except Unsupported as u:
            rep.undecided(rule, f"step{i}", f"line {getattr(u.node, 'lineno', 0)}", str(u))
    # three small structural clauses (round 19)
    from sa.util import backward_slice as _bs, local_assignments as _la
    ne = nt = 0
    for mname, m in sorted(ctx.prog.modules.items()):
        if not mname.startswith('torchtree.evolution.substitution_model'):
            continue
        for fn in [f for f in ast.walk(m.tree) if isinstance(f, ast.FunctionDef)]:
            cl_ = getattr(fn, '_parent', None)
            scope = f"{cl_.name}.{fn.name}" if isinstance(cl_, ast.ClassDef) else fn.name
            defs_ = _la(fn)
            # (N) whatever is handed to eigen() went through the division by the norm — in every method that (re)builds the decomposition, not only in __init__
            for c in ast.walk(fn):
                if isinstance(c, ast.Call) and self_attr(c.func) == 'eigen' and c.args:
                    ne += 1
                    sl_ = _bs(c.args[0], defs_)
                    normalised = any(isinstance(x, ast.BinOp) and isinstance(x.op, ast.Div) for e_ in sl_ for x in ast.walk(e_))
                    if not normalised and isinstance(cl_, ast.ClassDef):
                        # the division may live in a method of the class that hands back the normalised matrix
                        for x in [y for e_ in sl_ for y in ast.walk(e_) if isinstance(y, ast.Call) and self_attr(y.func)]:
                            ci_ = ctx.classes.find(f"{mname}.{cl_.name}")
                            r_ = ci_.resolve(x.func.attr) if ci_ is not None else None
                            if r_ is not None and any(isinstance(z, ast.BinOp) and isinstance(z.op, ast.Div) for z in ast.walk(r_[1])):
                                normalised = True
                    rep.check('C04.N', f"{mname.split('.')[-1]}::{scope}::eigen-of-the-normalised-matrix", normalised, where(m, c), {'argument': norm_text(c.args[0])[:80]},
                              f"{scope} decomposes `{norm_text(c.args[0])[:60]}`, a matrix that was not divided by the normalisation −Σπ_iQ_ii: P(t) built from it runs at the raw "
                              f"rate of the table (WAG: 5.7 % too fast) — exp(Qt) of a matrix that is not scaled to one substitution per unit time")
    nt = check_time_enters_as_it_is(ctx, rep)
    if ne < 2 or nt < 5:
        rep.incomplete('C04.N', 'round-19-clauses', '', f"only {ne} eigen calls / {nt} p_t methods found")
    # (B) MG94: each of kappa / alpha / beta multiplies the pairs of ITS class and leaves the others alone (factor one): a select between two parameters gives the pairs
    # that are in neither class (two or three nucleotides apart) the second parameter
    try:
        mg = ctx.classes.get(f"{COD}.MG94").resolve('q')[1]
        wh = [c for c in ast.walk(mg) if isinstance(c, ast.Call) and (dotted_name(c.func) or '') == 'torch.where' and len(c.args) == 3]
        params_ = {'kappa', 'alpha', 'beta'}
        bad_w = [c for c in wh if any(isinstance(x, ast.Name) and x.id in params_ for x in ast.walk(c.args[1])) and any(isinstance(x, ast.Name) and x.id in params_ for x in ast.walk(c.args[2]))]
        if len(wh) < 2:
            rep.undecided('C04.B', 'MG94.q::each-parameter-selected-against-one', where(ctx.classes.get(f"{COD}.MG94").module, mg), f"only {len(wh)} selects found in MG94.q")
        else:
            rep.check('C04.B', 'MG94.q::each-parameter-selected-against-one', not bad_w, where(ctx.classes.get(f"{COD}.MG94").module, bad_w[0] if bad_w else mg), {'selects': len(wh)},
                      f"MG94.q selects between two parameters (`{norm_text(bad_w[0])[:60] if bad_w else ''}`): codon pairs that belong to neither class get the second one instead of the "
                      f"neutral factor 1, so the rate matrix is not the model's")
    except AttributeError:
        rep.undecided('C04.B', 'MG94.q::each-parameter-selected-against-one', '', 'MG94.q not found')
    # "single and batched": the entries of a batched rate matrix belong to one sample each.  The polynomial rules above decide one sample; that the samples are kept apart is
    # decided by the C10.P rules on the substitution-model modules (axes addressed from the end, no new first axis on a parameter in the branch chosen by the rank of ANOTHER
    # parameter, no row of the first sample standing in for all)
    from props import c10
    from sa.report import RuleProxy
    only_sub = lambda mname: mname.startswith('torchtree.evolution.substitution_model')
    # P(s) that was returned stays P(s): no p_t hands out a buffer it refreshes in place at the next call (the semigroup law is stated on values held side by side)
    from props import c11 as _c11b
    _c11b.check_handed_out_buffers(ctx, RuleProxy(rep, 'C04.J', 'returned::'), only=lambda m: only_sub(m.name))
    nax = c10.check_front_axes(ctx, RuleProxy(rep, 'C04.L', 'batched::'), only=only_sub)
    c10.check_first_sample_rows(ctx, RuleProxy(rep, 'C04.L', 'batched::'), rule='C04.L', only=only_sub)
    if nax < 20:
        rep.incomplete('C04.L', 'batched::axes', '', f"only {nax} axis operations with a constant axis found in the substitution models")
    # JC69 layout needs the names found by the closed-form step
    try:
        cls = ctx.classes.get(f"{NUC}.JC69")
        pfn = cls.resolve('p_t')[1]
        names = {}
        for st in pfn.body:
            if isinstance(st, ast.Assign) and isinstance(st.targets[0], ast.Name) and any(
                    isinstance(c, ast.Call) and (dotted_name(c.func) or '').endswith('exp') for c in ast.walk(st.value)):
                v1 = None
                try:
                    r = ToRat(lambda e: Rat.sym('e') if isinstance(e, ast.Call) and (dotted_name(e.func) or '').endswith('exp') else None)(st.value)
                    v1 = r.subst('e', 1)
                except Unsupported:
                    pass
                if v1 is not None and v1.equals(1):
                    names['a'] = st.targets[0].id
                elif v1 is not None and v1.is_zero():
                    names['b'] = st.targets[0].id
        if len(names) == 2:
            check_jc69_layout(ctx, rep, (names['a'], names['b']))
    except Unsupported as u:
        rep.undecided('C04.J', 'JC69.p_t::layout', '', str(u))


# ---------------------------------------------------------------------------
# C04.X — positions in a filtered list are not positions in the table it was filtered from
# ---------------------------------------------------------------------------
INDEX_POSITIVE = """
def __init__(self, data_type):
    triplets = [t for t, aa in zip(data_type.triplets[:64], data_type.table[:64]) if aa != '*']
    for i, ((idx1, codon1), (idx2, codon2)) in enumerate(combinations(enumerate(triplets), 2)):
        if data_type.table[idx1] == data_type.table[idx2]:
            self.synonymous[i] = 1.0
    sense = [aa for aa in data_type.table[:64] if aa != '*']
    for j, aa in enumerate(sense):
        ok = sense[j] == aa
"""


def filtered_index_misuse(fn):
    """[(subscript node, index variable, filtered list, table)]: an index obtained by enumerating a list that was FILTERED out of some tables (a comprehension with an
    `if`) is used to subscript one of those tables: position k of the filtered list is not position k of the table as soon as one element was filtered out before it."""
    filtered = {}     # name -> set of source expression texts (with and without a trailing slice)
    for st in ast.walk(fn):
        if isinstance(st, ast.Assign) and len(st.targets) == 1 and isinstance(st.targets[0], ast.Name) and isinstance(st.value, ast.ListComp) and any(g.ifs for g in st.value.generators):
            srcs = set()
            for g in st.value.generators:
                for x in ast.walk(g.iter):
                    if isinstance(x, (ast.Attribute, ast.Name)) and not (isinstance(x, ast.Name) and x.id in ('zip', 'enumerate', 'range', 'len')):
                        srcs.add(ast.unparse(x))
            filtered[st.targets[0].id] = srcs

    def index_vars(target, it):
        """names bound to positions of a filtered list by `for target in it`"""
        out = {}
        if isinstance(it, ast.Call) and isinstance(it.func, ast.Name) and it.func.id == 'enumerate' and it.args:
            inner = it.args[0]
            if isinstance(inner, ast.Name) and inner.id in filtered and isinstance(target, (ast.Tuple, ast.List)) and target.elts and isinstance(target.elts[0], ast.Name):
                out[target.elts[0].id] = inner.id
            # enumerate(combinations(enumerate(F), 2)): ((i1, x1), (i2, x2)) are (position, element) pairs of F
            if isinstance(inner, ast.Call) and isinstance(inner.func, (ast.Name, ast.Attribute)) and (dotted_name(inner.func) or '').split('.')[-1] in ('combinations', 'permutations', 'product') \
                    and inner.args and isinstance(target, (ast.Tuple, ast.List)) and len(target.elts) == 2:
                out.update(index_vars_of_pairs(target.elts[1], inner.args[0]))
        if isinstance(it, ast.Call) and (dotted_name(it.func) or '').split('.')[-1] in ('combinations', 'permutations', 'product') and it.args:
            out.update(index_vars_of_pairs(target, it.args[0]))
        return out

    def index_vars_of_pairs(target, seq):
        out = {}
        if isinstance(seq, ast.Call) and isinstance(seq.func, ast.Name) and seq.func.id == 'enumerate' and seq.args and isinstance(seq.args[0], ast.Name) and seq.args[0].id in filtered \
                and isinstance(target, (ast.Tuple, ast.List)):
            for pair in target.elts:
                if isinstance(pair, (ast.Tuple, ast.List)) and pair.elts and isinstance(pair.elts[0], ast.Name):
                    out[pair.elts[0].id] = seq.args[0].id
        return out
    idx = {}
    for st in ast.walk(fn):
        if isinstance(st, ast.For):
            idx.update(index_vars(st.target, st.iter))
        if isinstance(st, (ast.ListComp, ast.GeneratorExp, ast.SetComp, ast.DictComp)):
            for g in st.generators:
                idx.update(index_vars(g.target, g.iter))
    out = []
    for x in ast.walk(fn):
        if isinstance(x, ast.Subscript) and isinstance(x.slice, ast.Name) and x.slice.id in idx:
            base = x.value
            while isinstance(base, ast.Subscript):
                base = base.value
            bt = ast.unparse(base)
            f = idx[x.slice.id]
            if bt != f and bt in filtered[f]:
                out.append((x, x.slice.id, f, bt))
    return out


def check_filtered_indices(ctx, rep):
    t = ast.parse(INDEX_POSITIVE).body[0]
    got = [(v, f, tb) for _, v, f, tb in filtered_index_misuse(t)]
    if sorted(got) != [('idx1', 'triplets', 'data_type.table'), ('idx2', 'triplets', 'data_type.table')]:
        raise AnalysisError(f"C04.X self-check: misuse sites of the embedded example are {got}")
    n = 0
    for mname, m in sorted(ctx.prog.modules.items()):
        if not (mname.startswith('torchtree.evolution.substitution_model') or mname == 'torchtree.evolution.datatype'):
            continue
        for fn in ast.walk(m.tree):
            if not isinstance(fn, ast.FunctionDef):
                continue
            n += 1
            cl = getattr(fn, '_parent', None)
            scope = f"{cl.name}.{fn.name}" if isinstance(cl, ast.ClassDef) else fn.name
            for node, var, flt, table in filtered_index_misuse(fn):
                rep.bad('C04.X', f"{scope}::{ast.unparse(node)[:50]}", where(m, node), {'index': var, 'filtered_list': flt, 'table': table},
                        f"{scope}: `{ast.unparse(node)[:60]}` looks up `{table}` at `{var}`, which is a position in `{flt}` — a list FILTERED out of `{table}` (stop codons removed): after the "
                        f"first removed element the positions no longer coincide, so states are paired with the amino acid of another codon")
    rep.ok('C04.X', 'substitution-models::positions-of-filtered-lists-stay-with-the-filtered-list', '', {'functions_scanned': n})
    if n < 40:
        rep.incomplete('C04.X', '*', '', f"only {n} functions scanned")


def check_no_argument_blind_memo(ctx, rep):
    """C04.E — an eigen system / transition matrix kept across calls must be keyed by what it was computed from (C11.M rules on the substitution models): a decomposition
    stored once per class is handed to every other model of that class hierarchy, whatever its rate matrix"""
    from props import c11
    from sa.report import RuleProxy
    c11.check_memo_keys(ctx, RuleProxy(rep, 'C04.E', 'memo::'), only=lambda m: m.name.startswith('torchtree.evolution.substitution_model'))
    rep.ok('C04.E', 'memo::substitution-models::scanned', '', {'memo_sites': rep.analysed.get('memo_sites[C11.M]', 0)})
