from sa.selftest import Mut

NUC = 'torchtree/evolution/substitution_model/nucleotide.py'
GEN = 'torchtree/evolution/substitution_model/general.py'
ABS = 'torchtree/evolution/substitution_model/abstract.py'
COD = 'torchtree/evolution/substitution_model/codon.py'

def T(id, file, old, new, expect=None, benign=False):
    return Mut(id, file, '', old, new, expect=expect, benign=benign, mode='text')

CORPUS = [
    T('c04-hky-diag-missing-term', NUC, "                -(pi[..., 0] + pi[..., 2] + kappa * pi[..., 3]),", "                -(pi[..., 0] + pi[..., 2] + pi[..., 3]),",
      expect=[('C04.L', 'HKY.q::row1-sums-to-zero')]),
    T('c04-hky-kappa-on-transversion', NUC, "                kappa * pi[..., 2],\n                pi[..., 3],\n                pi[..., 0],", "                pi[..., 2],\n                kappa * pi[..., 3],\n                pi[..., 0],",
      expect=[('C04.L', 'HKY.q::kappa-placement[AG]'), ('C04.L', 'HKY.q::detailed-balance')]),
    T('c04-hky-index-typo', NUC, "                kappa * pi[..., 0],\n                pi[..., 1],\n                -(kappa * pi[..., 0] + pi[..., 1] + pi[..., 3]),",
      "                kappa * pi[..., 0],\n                pi[..., 2],\n                -(kappa * pi[..., 0] + pi[..., 2] + pi[..., 3]),",
      expect=[('C04.L', 'HKY.q::detailed-balance[CG]')]),
    T('c04-gtr-rate-swap', NUC, "                rates[..., 3] * pi[..., 2],\n                rates[..., 4] * pi[..., 3],", "                rates[..., 4] * pi[..., 2],\n                rates[..., 3] * pi[..., 3],",
      expect=[('C04.L', 'GTR.q::rate-placement'), ('C04.L', 'GTR.q::detailed-balance')]),
    T('c04-jc69-rate', NUC, "a = 0.25 + 3.0 / 4.0 * torch.exp(-4.0 / 3.0 * d)", "a = 0.25 + 3.0 / 4.0 * torch.exp(-d)", expect=[('C04.J', 'JC69.p_t::exponent')]),
    T('c04-jc69-b-coefficient', NUC, "b = 0.25 - 0.25 * torch.exp(-4.0 / 3.0 * d)", "b = 0.25 - 0.75 * torch.exp(-4.0 / 3.0 * d)", expect=[('C04.J', 'JC69.p_t')]),
    T('c04-jc69-layout', NUC, "torch.cat((a, b, b, b, b, a, b, b, b, b, a, b, b, b, b, a), -1)", "torch.cat((a, b, b, b, a, b, b, b, b, b, a, b, b, b, b, a), -1)", expect=[('C04.J', 'JC69.p_t::layout')]),
    T('c04-jc69-q-literal', NUC, "[1.0 / 3, -1.0, 1.0 / 3, 1.0 / 3],", "[1.0 / 3, -1.0, 1.0 / 3, 1.0 / 4],", expect=[('C04.L', 'JC69.q::row1')]),
    T('c04-generaljc-exponent', GEN, "            -self.state_count / (self.state_count - 1.0) * d\n        )\n        b = (", "            -(self.state_count - 1.0) / self.state_count * d\n        )\n        b = (",
      expect=[('C04.J', 'GeneralJC69.p_t')]),
    T('c04-generaljc-q', GEN, "            1.0 / (self.state_count - 1),", "            1.0 / self.state_count,", expect=[('C04.L', 'GeneralJC69.q')]),
    T('c04-sym-pi-left', GEN, "        Q = R @ pi\n        Q[..., range(self.state_count), range(self.state_count)] = -torch.sum(Q, dim=-1)\n        return Q\n\n    @classmethod\n    def from_json(cls, data, dic):\n        id_ = data['id']\n        data_type = process_object(data['data_type'], dic)\n        rates = process_object(data['rates'], dic)\n        frequencies = process_object(data['frequencies'], dic)\n        if 'mapping' not in data:\n            mapping_count = data_type.state_count * (data_type.state_count - 1) // 2",
      "        Q = pi @ R\n        Q[..., range(self.state_count), range(self.state_count)] = -torch.sum(Q, dim=-1)\n        return Q\n\n    @classmethod\n    def from_json(cls, data, dic):\n        id_ = data['id']\n        data_type = process_object(data['data_type'], dic)\n        rates = process_object(data['rates'], dic)\n        frequencies = process_object(data['frequencies'], dic)\n        if 'mapping' not in data:\n            mapping_count = data_type.state_count * (data_type.state_count - 1) // 2",
      expect=[('C04.B', 'GeneralSymmetricSubstitutionModel.q::frequencies-on-the-right')]),
    T('c04-empirical-column-sum', GEN, "Q[range(state_count), range(state_count)] = -torch.sum(Q, dim=1)", "Q[range(state_count), range(state_count)] = -torch.sum(Q, dim=0)",
      expect=[('C04.B', 'EmpiricalSubstitutionModel.create_rate_matrix::diagonal')]),
    T('c04-empirical-one-triangle', GEN, "        R[tril_indices[1], tril_indices[0]] = rates\n", "", expect=[('C04.B', 'EmpiricalSubstitutionModel.create_rate_matrix::both-triangles')]),
    T('c04-mg94-diag-before-product', COD, "        Q = R @ self.frequencies.diag_embed()\n        Q[..., range(dim), range(dim)] = -torch.sum(Q, dim=-1)\n",
      "        Q = R @ self.frequencies.diag_embed()\n        Q[..., range(dim), range(dim)] = -torch.sum(Q, dim=-1)\n        Q = Q * 1.0\n", benign=True),
    T('c04-mg94-no-diag', COD, "        Q[..., range(dim), range(dim)] = -torch.sum(Q, dim=-1)\n", "", expect=[('C04.B', 'MG94.q::diagonal')]),
    T('c04-nonsym-same-half', GEN, "R[..., indices[1], indices[0]] = self.rates[..., self.mapping.tensor[dim:]]", "R[..., indices[1], indices[0]] = self.rates[..., self.mapping.tensor[:dim]]",
      expect=[('C04.B', 'GeneralNonSymmetricSubstitutionModel.q::two-halves')]),
    T('c04-norm-no-frequencies', ABS, "return -torch.sum(torch.diagonal(Q, dim1=-2, dim2=-1) * self.frequencies, -1)", "return -torch.sum(torch.diagonal(Q, dim1=-2, dim2=-1), -1)",
      expect=[('C04.N', 'norm')]),
    T('c04-pt-not-normalised', ABS, "        S = sqrt_pi @ Q @ sqrt_pi_inv", "        S = sqrt_pi @ Q_unnorm @ sqrt_pi_inv", expect=[('C04.N', 'SymmetricSubstitutionModel.p_t')]),
    T('c04-nonsym-not-normalised', ABS, "            Q.unsqueeze(-3).unsqueeze(-3) * branch_lengths.unsqueeze(-1).unsqueeze(-1)", "            Q_unnorm.unsqueeze(-3).unsqueeze(-3) * branch_lengths.unsqueeze(-1).unsqueeze(-1)",
      expect=[('C04.N', 'NonSymmetricSubstitutionModel.p_t')]),
    T('c04-conjugation-swapped', ABS, "            (sqrt_pi_inv @ v).reshape(", "            (sqrt_pi @ v).reshape(", expect=[('C04.E', 'SymmetricSubstitutionModel.p_t::reconstruction-word')]),
    T('c04-conjugation-transposed', ABS, "            @ (v.inverse() @ sqrt_pi).reshape(", "            @ (sqrt_pi @ v.inverse()).reshape(", expect=[('C04.E', 'SymmetricSubstitutionModel.p_t::reconstruction-word')]),
    T('c04-symmetrisation-swapped', ABS, "        S = sqrt_pi @ Q @ sqrt_pi_inv", "        S = sqrt_pi_inv @ Q @ sqrt_pi", expect=[('C04.E', 'SymmetricSubstitutionModel.p_t::symmetrisation')]),
    T('c04-empirical-conjugation', GEN, "            (self.sqrt_pi_inv @ self.v).reshape(", "            (self.v @ self.sqrt_pi_inv).reshape(", expect=[('C04.E', 'EmpiricalSubstitutionModel.p_t::reconstruction-word')]),
    T('c04-empirical-not-normalised', GEN, "        self.e, self.v = self.eigen(self.sqrt_pi @ Q @ self.sqrt_pi_inv)", "        self.e, self.v = self.eigen(self.sqrt_pi @ self.Q @ self.sqrt_pi_inv)",
      expect=[('C04.N', 'EmpiricalSubstitutionModel.__init__')]),
    # benign
    T('c04-benign-transpose-for-inverse', ABS, "            @ (v.inverse() @ sqrt_pi).reshape(", "            @ (v.transpose(-1, -2) @ sqrt_pi).reshape(", benign=True),
    T('c04-benign-hky-reorder-terms', NUC, "                -(pi[..., 1] + kappa * pi[..., 2] + pi[..., 3]),", "                -(pi[..., 3] + pi[..., 1] + pi[..., 2] * kappa),", benign=True),
    Mut('c04-eigen-of-perturbed-matrix', 'torchtree/evolution/substitution_model/abstract.py', 'SymmetricSubstitutionModel.eigen', 'return torch.linalg.eigh(Q)', 'return torch.linalg.eigh(Q + 1e-08 * torch.eye(Q.shape[-1]))',
        expect=[('C04.E', 'SymmetricSubstitutionModel.eigen::decomposes-its-argument-unchanged')]),
    Mut('c04-matrix-exp-fallback-similarity-reversed', 'torchtree/evolution/substitution_model/abstract.py', '', "        offset = branch_lengths.dim() - e.dim() + 1\n", "        offset = branch_lengths.dim() - e.dim() + 1\n        if S.requires_grad and bool((e[..., 1:] - e[..., :-1] <= 1.0e-7).any()):\n            shape = e.shape[:-1] + (1,) * offset + S.shape[-2:]\n            exp_S = torch.matrix_exp(S.reshape(shape) * branch_lengths.unsqueeze(-1).unsqueeze(-1))\n            return sqrt_pi.expand(S.shape).reshape(shape) @ exp_S @ sqrt_pi_inv.expand(S.shape).reshape(shape)\n", expect=[('C04.E', 'SymmetricSubstitutionModel.p_t::alternative-return')], mode='text'),
    Mut('c04-benign-matrix-exp-fallback', 'torchtree/evolution/substitution_model/abstract.py', '', "        offset = branch_lengths.dim() - e.dim() + 1\n", "        offset = branch_lengths.dim() - e.dim() + 1\n        if S.requires_grad and bool((e[..., 1:] - e[..., :-1] <= 1.0e-7).any()):\n            shape = e.shape[:-1] + (1,) * offset + S.shape[-2:]\n            exp_S = torch.matrix_exp(S.reshape(shape) * branch_lengths.unsqueeze(-1).unsqueeze(-1))\n            return sqrt_pi_inv.expand(S.shape).reshape(shape) @ exp_S @ sqrt_pi.expand(S.shape).reshape(shape)\n", benign=True, mode='text'),
]
CORPUS += [
    Mut('c04-gtr-rates-floored', 'torchtree/evolution/substitution_model/nucleotide.py', 'GTR.q', 'rates = self.rates.unsqueeze(0)', 'rates = self.rates.clamp(min=0.0001).unsqueeze(0)',
        expect=[('C04.L', 'GTR.q::rates-enters-the-matrix-unaltered')]),
    Mut('c04-benign-gtr-rates-rescaled-by-their-maximum', 'torchtree/evolution/substitution_model/nucleotide.py', 'GTR.q', 'rates = self.rates.unsqueeze(0)',
        'rates = (self.rates / self.rates.max(-1, keepdim=True)[0]).unsqueeze(0)', benign=True),
    Mut('c04-general-nonsymmetric-normalised-by-another-distribution', 'torchtree/evolution/substitution_model/general.py', '', "    def handle_parameter_changed(self, variable, index, event):\n        self.fire_model_changed()\n\n    def q(self) -> torch.Tensor:\n        indices = torch.triu_indices(self.state_count, self.state_count, 1)\n        R = torch.zeros(\n            self._rates.tensor.shape[:-1] + (self.state_count, self.state_count),\n            dtype=self._rates.dtype,\n",
        "    def norm(self, Q) -> torch.Tensor:\n        pi = torch.softmax(torch.diagonal(Q, dim1=-2, dim2=-1), -1)\n        return -torch.sum(torch.diagonal(Q, dim1=-2, dim2=-1) * pi, -1)\n\n    def handle_parameter_changed(self, variable, index, event):\n        self.fire_model_changed()\n\n    def q(self) -> torch.Tensor:\n        indices = torch.triu_indices(self.state_count, self.state_count, 1)\n        R = torch.zeros(\n            self._rates.tensor.shape[:-1] + (self.state_count, self.state_count),\n            dtype=self._rates.dtype,\n",
        mode='text', expect=[('C04.N', 'GeneralNonSymmetricSubstitutionModel.norm::minus-sum-pi-Qii')]),
    Mut('c04-mg94-amino-acid-looked-up-at-a-filtered-position', 'torchtree/evolution/substitution_model/codon.py', 'MG94.__init__', 'triplets = numpy.array(data_type.triplets)[coding_indices].tolist()',
        "triplets = [t for t, a in zip(data_type.triplets[:64], data_type.table[:64]) if a != '*']\nsame = [data_type.table[i] == data_type.table[j] for (i, c1), (j, c2) in combinations(enumerate(triplets), 2)]",
        expect=[('C04.X', 'MG94.__init__::data_type.table[i]')]),
    Mut('c04-benign-mg94-amino-acid-of-the-filtered-list', 'torchtree/evolution/substitution_model/codon.py', 'MG94.__init__', 'triplets = numpy.array(data_type.triplets)[coding_indices].tolist()',
        "triplets = [t for t, a in zip(data_type.triplets[:64], data_type.table[:64]) if a != '*']\nsense = [a for a in data_type.table[:64] if a != '*']\nsame = [sense[i] == sense[j] for (i, c1), (j, c2) in combinations(enumerate(triplets), 2)]",
        benign=True),
    Mut('c04-eigen-system-kept-once-per-class', 'torchtree/evolution/substitution_model/general.py', '', "    def p_t(self, branch_lengths: torch.Tensor) -> torch.Tensor:\n        offset = branch_lengths.dim() - self.e.dim() + 1\n",
        "    _eigen_system = None\n\n    def eigen(self, Q: torch.Tensor) -> torch.Tensor:\n        if self._eigen_system is None:\n            EmpiricalSubstitutionModel._eigen_system = super().eigen(Q)\n        return self._eigen_system\n\n    def p_t(self, branch_lengths: torch.Tensor) -> torch.Tensor:\n        offset = branch_lengths.dim() - self.e.dim() + 1\n",
        mode='text', expect=[('C04.E', 'memo::torchtree.evolution.substitution_model.general.EmpiricalSubstitutionModel.eigen::self._eigen_system')]),
]
CORPUS += [
    Mut('c04-benign-norm-written-with-the-method-form-of-sum', 'torchtree/evolution/substitution_model/abstract.py', 'AbstractSubstitutionModel.norm', 'return -torch.sum(torch.diagonal(Q, dim1=-2, dim2=-1) * self.frequencies, -1)',
        'return -(self.frequencies * torch.diagonal(Q, dim1=-2, dim2=-1)).sum(-1)', benign=True),
    Mut('c04-benign-norm-as-the-total-flux', 'torchtree/evolution/substitution_model/abstract.py', 'AbstractSubstitutionModel.norm', 'return -torch.sum(torch.diagonal(Q, dim1=-2, dim2=-1) * self.frequencies, -1)',
        'flux = self.frequencies.unsqueeze(-1) * Q\nreturn (torch.triu(flux, diagonal=1) + torch.tril(flux, diagonal=-1)).sum((-2, -1))', benign=True),
    Mut('c04-norm-from-the-upper-triangle-only', 'torchtree/evolution/substitution_model/abstract.py', 'AbstractSubstitutionModel.norm', 'return -torch.sum(torch.diagonal(Q, dim1=-2, dim2=-1) * self.frequencies, -1)',
        'flux = self.frequencies.unsqueeze(-1) * Q\nreturn 2.0 * torch.triu(flux, diagonal=1).sum((-2, -1))', expect=[('C04.N', 'AbstractSubstitutionModel.norm::minus-sum-pi-Qii')]),
]
CORPUS += [
    Mut('c04-rate-matrix-multiplied-without-its-branch-axes', 'torchtree/evolution/substitution_model/abstract.py', '',
        "            Q.unsqueeze(-3).unsqueeze(-3) * branch_lengths.unsqueeze(-1).unsqueeze(-1)\n", "            Q * branch_lengths[..., None, None]\n", mode='text',
        expect=[('C04.E', 'NonSymmetricSubstitutionModel.p_t::one-matrix-per-branch-and-category')]),
    Mut('c04-benign-branch-axes-written-with-none', 'torchtree/evolution/substitution_model/abstract.py', '',
        "            Q.unsqueeze(-3).unsqueeze(-3) * branch_lengths.unsqueeze(-1).unsqueeze(-1)\n", "            Q[..., None, None, :, :] * branch_lengths[..., None, None]\n", mode='text', benign=True),
    Mut('c04-gtr-rates-axis-under-the-rank-of-the-frequencies', 'torchtree/evolution/substitution_model/nucleotide.py', '',
        "        if len(self.frequencies.shape[:-1]) != len(self.rates.shape[:-1]):\n            pi = self.frequencies.unsqueeze(0).unsqueeze(-2)\n            rates = self.rates.unsqueeze(-2)\n        elif len(self.frequencies.shape) == 1:",
        "        if len(self.frequencies.shape) == 1:", mode='text', expect=[('C04.L', 'batched::evolution.substitution_model.nucleotide.GTR.q::self.rates.unsqueeze(0)')]),
]
CORPUS += [
    Mut('c04-branch-lengths-floored-before-the-exponential', 'torchtree/evolution/substitution_model/abstract.py', 'SymmetricSubstitutionModel.p_t', 'Q_unnorm = self.q()', 'branch_lengths = branch_lengths.clamp(min=1e-06)\nQ_unnorm = self.q()',
        expect=[('C04.E', 'abstract::SymmetricSubstitutionModel.p_t::time-enters-as-it-is')]),
    Mut('c04-mg94-beta-for-every-pair-that-is-not-synonymous', 'torchtree/evolution/substitution_model/codon.py', '', "            * (torch.where(self.synonymous == 1.0, alpha, ones))\n            * (torch.where(self.non_synonymous == 1.0, beta, ones))\n",
        "            * (torch.where(self.synonymous == 1.0, alpha, beta))\n", mode='text', expect=[('C04.B', 'MG94.q::each-parameter-selected-against-one')]),
]
CORPUS += [
    Mut('c04-benign-normalisation-in-a-method-of-its-own', 'torchtree/evolution/substitution_model/abstract.py', '', "    def eigen(self, Q: torch.Tensor) -> torch.Tensor:\n        return torch.linalg.eigh(Q)\n",
        "    def normalised_q(self) -> torch.Tensor:\n        Q_unnorm = self.q()\n        return Q_unnorm / self.norm(Q_unnorm).unsqueeze(-1).unsqueeze(-1)\n\n    def eigen(self, Q: torch.Tensor) -> torch.Tensor:\n        return torch.linalg.eigh(Q)\n",
        mode='text', benign=True),
]
