"""C08 — coalescent priors equal the Kingman density of their demographic function.

Decided: the event-bookkeeping prologue shared by all coalescent implementations (marks,
sorting, lineage count, C(k,2), intervals), the sign / gating of the terms of each returned
log density, and the θ-lookup mark — extracted by dataflow role and cross-checked over all
copies (a deviant copy is a violation).
"""
from __future__ import annotations

import ast
from typing import Dict, List, Optional, Tuple

from sa.loader import AnalysisError, Unsupported, dotted_name, norm_text
from sa.members import self_attr
from sa.poly import Rat, ToRat
from sa.report import where
from sa.util import backward_slice, local_assignments

MOD = 'torchtree.evolution.coalescent'


def method_name(call: ast.Call) -> str:
    return (dotted_name(call.func) or (call.func.attr if isinstance(call.func, ast.Attribute) else '')).split('.')[-1]


def const_num(e):
    if isinstance(e, ast.Constant) and isinstance(e.value, (int, float)):
        return e.value
    if isinstance(e, ast.UnaryOp) and isinstance(e.op, ast.USub) and isinstance(e.operand, ast.Constant):
        return -e.operand.value
    return None


def last_slice(sub: ast.Subscript) -> Optional[str]:
    sl = sub.slice
    last = sl.elts[-1] if isinstance(sl, ast.Tuple) else sl
    if isinstance(last, ast.Slice):
        lo = ast.unparse(last.lower) if last.lower is not None else ''
        hi = ast.unparse(last.upper) if last.upper is not None else ''
        return f"{lo}:{hi}"
    return None


class Prologue:
    def __init__(self):
        self.facts: Dict[str, object] = {}
        self.names: Dict[str, str] = {}
        self.problems: List[str] = []


def assignments_in_order(fn) -> List[ast.Assign]:
    out = [st for st in ast.walk(fn) if isinstance(st, ast.Assign)]
    out.sort(key=lambda s: (s.lineno, s.col_offset))
    return out


def extract_prologue(fn: ast.FunctionDef) -> Prologue:
    p = Prologue()
    assigns = assignments_in_order(fn)
    sorts = [st for st in assigns if isinstance(st.value, ast.Call) and method_name(st.value) == 'argsort' and isinstance(st.targets[0], ast.Name)]
    if len(sorts) != 1:
        raise Unsupported(fn, f"{len(sorts)} argsort calls")
    srt = sorts[0]
    I = srt.targets[0].id
    call = srt.value
    H = call.args[0].id if call.args and isinstance(call.args[0], ast.Name) else None
    if H is None:
        raise Unsupported(srt, 'argsort of a non-name')
    desc = next((kw.value for kw in call.keywords if kw.arg == 'descending'), None)
    p.facts['ascending'] = desc is None or (isinstance(desc, ast.Constant) and desc.value is False)
    # gathers through the same permutation
    gathers = [st for st in assigns if isinstance(st.value, ast.Call) and method_name(st.value) == 'gather' and len(st.value.args) == 3
               and isinstance(st.value.args[2], ast.Name) and st.value.args[2].id == I and st.lineno > srt.lineno]
    HS = MS = M = None
    for g in gathers:
        src = g.value.args[0]
        axis = const_num(g.value.args[1])
        if isinstance(src, ast.Name) and src.id == H:
            HS = g.targets[0].id
            p.facts['heights_gather_axis'] = axis
        elif isinstance(src, ast.Name):
            MS = g.targets[0].id
            M = src.id
            p.facts['marks_gather_axis'] = axis
    p.facts['same_permutation_for_heights_and_marks'] = HS is not None and MS is not None
    if HS is None:
        raise Unsupported(fn, 'sorted heights are not gathered with the argsort permutation')
    if MS is None:
        # the marks that feed the lineage count are not permuted with the heights: find them through the cumsum
        for st in assigns:
            v = st.value
            if isinstance(v, ast.Subscript) and isinstance(v.value, ast.Call) and method_name(v.value) == 'cumsum' and isinstance(v.value.func, ast.Attribute) \
                    and isinstance(v.value.func.value, ast.Name):
                MS = v.value.func.value.id
        if MS is None:
            raise Unsupported(fn, 'mark vector not found')
        src = [st for st in assigns if isinstance(st.targets[0], ast.Name) and st.targets[0].id == MS]
        M = src[-1].value.id if src and isinstance(src[-1].value, ast.Name) else MS
    p.names.update({'H': H, 'HS': HS, 'M': M, 'MS': MS, 'I': I})
    # marks: cat of full(shape, V)/counts
    mdefs = [st for st in assigns if isinstance(st.targets[0], ast.Name) and st.targets[0].id == M and isinstance(st.value, ast.Call)
             and method_name(st.value) == 'cat' and st.lineno < srt.lineno]
    if not mdefs:
        raise Unsupported(fn, 'mark vector is not built by torch.cat')
    mcat = mdefs[-1].value
    parts = mcat.args[0].elts if isinstance(mcat.args[0], (ast.List, ast.Tuple)) else []
    marks = []
    shapes = []
    for part in parts:
        if isinstance(part, ast.Call) and method_name(part) == 'full' and len(part.args) >= 2:
            marks.append(const_num(part.args[1]))
            shapes.append(ast.unparse(part.args[0]).replace(' ', ''))
        elif isinstance(part, ast.Name):
            marks.append('counts')
            shapes.append(part.id)
        else:
            marks.append('?')
            shapes.append(ast.unparse(part)[:30])
    ax = mcat.args[1] if len(mcat.args) > 1 else next((kw.value for kw in mcat.keywords if kw.arg == 'dim'), None)
    p.facts['marks'] = marks
    p.facts['mark_shapes'] = shapes
    p.facts['marks_cat_axis'] = const_num(ax) if ax is not None else None
    # heights: parameter itself or cat([... , grid], -1) in every branch
    hdefs = [st for st in assigns if isinstance(st.targets[0], ast.Name) and st.targets[0].id == H and st.lineno < srt.lineno]
    hparts = []
    for hd in hdefs:
        v = hd.value
        if isinstance(v, ast.Call) and method_name(v) == 'cat' and isinstance(v.args[0], (ast.List, ast.Tuple)):
            hparts.append([ast.unparse(x) for x in v.args[0].elts])
        elif isinstance(v, ast.Call) and method_name(v) == 'expand':
            hparts.append([ast.unparse(v.func.value)])
        else:
            hparts.append([ast.unparse(v)[:40]])
    p.facts['height_parts'] = hparts if hparts else [[H]]
    # lineage count
    lc = [st for st in assigns if isinstance(st.value, ast.Subscript) and isinstance(st.value.value, ast.Call) and method_name(st.value.value) == 'cumsum'
          and isinstance(st.value.value.func, ast.Attribute) and isinstance(st.value.value.func.value, ast.Name) and st.value.value.func.value.id == MS]
    if len(lc) != 1:
        raise Unsupported(fn, 'lineage count = marks_sorted.cumsum(-1)[..., :-1] not found')
    LC = lc[0].targets[0].id
    p.facts['lineage_count_slice'] = last_slice(lc[0].value)
    p.facts['lineage_count_axis'] = const_num(lc[0].value.value.args[0]) if lc[0].value.value.args else None
    p.names['LC'] = LC
    # C(k,2)
    l2 = None
    for st in assigns:
        if isinstance(st.targets[0], ast.Name) and any(isinstance(n, ast.Name) and n.id == LC for n in ast.walk(st.value)) and st is not lc[0]:
            try:
                r = ToRat(lambda e: Rat.sym('k') if isinstance(e, ast.Name) and e.id == LC else None)(st.value)
            except Unsupported:
                continue
            l2 = (st.targets[0].id, r)
            break
    if l2 is None:
        raise Unsupported(fn, 'C(k,2) expression not found')
    k = Rat.sym('k')
    p.facts['choose2_is_k(k-1)/2'] = l2[1].equals(k * (k - 1) / 2)
    p.facts['choose2'] = repr(l2[1])
    p.names['L2'] = l2[0]
    # intervals X[..., 1:] - X[..., :-1] with X derived from the sorted heights
    ivs = []
    for st in assigns:
        v = st.value
        for n in ast.walk(v):
            if isinstance(n, ast.BinOp) and isinstance(n.op, ast.Sub) and isinstance(n.left, ast.Subscript) and isinstance(n.right, ast.Subscript) \
                    and ast.unparse(n.left.value) == ast.unparse(n.right.value):
                a, b = last_slice(n.left), last_slice(n.right)
                base = n.left.value
                if a is None or b is None:
                    continue
                defs = local_assignments(fn)
                derived = any(isinstance(x, ast.Name) and x.id == HS for e in backward_slice(base, defs) for x in ast.walk(e))
                if derived:
                    ivs.append((a, b, ast.unparse(base)))
    if not ivs:
        # f(X[..., 1:]) − f(X[..., :-1]): the same expression on both sides up to the slice of the sorted heights
        defs = local_assignments(fn)
        for st in assigns:
            for n in ast.walk(st.value):
                if isinstance(n, ast.BinOp) and isinstance(n.op, ast.Sub) and not isinstance(n.left, ast.Subscript):
                    def slices(e):
                        out = set()
                        for x in ast.walk(e):
                            if isinstance(x, ast.Subscript) and last_slice(x) is not None and any(
                                    isinstance(y, ast.Name) and y.id == HS for e2 in backward_slice(x.value, defs) for y in ast.walk(e2)):
                                out.add((last_slice(x), ast.unparse(x)))
                        return out
                    sl, sr = slices(n.left), slices(n.right)
                    if len(sl) == 1 and len(sr) == 1:
                        (a, ta), (b, tb) = next(iter(sl)), next(iter(sr))
                        if a != b and ast.unparse(n.left).replace(ta, tb) == ast.unparse(n.right):
                            ivs.append((a, b, ta))
    p.facts['interval_slices'] = sorted({(a, b) for a, b, _ in ivs})
    return p


def check_prologues(ctx, rep):
    m = ctx.prog.module(MOD)
    found: Dict[str, Prologue] = {}
    for cname, cnode in m.classes.items():
        for st in cnode.body:
            if isinstance(st, ast.FunctionDef) and any(isinstance(c, ast.Call) and method_name(c) == 'argsort' for c in ast.walk(st)):
                key = f"{cname}.{st.name}"
                try:
                    found[key] = extract_prologue(st)
                    found[key].fn = st
                except Unsupported as u:
                    rep.undecided('C08.P', key, where(m, st), str(u))
    if len(found) < 8:
        raise AnalysisError(f"only {len(found)} coalescent event prologues recognised")
    for key, p in sorted(found.items()):
        W = where(m, p.fn)
        f = p.facts
        rep.check('C08.P', f"{key}::F2-ascending-sort-same-permutation", bool(f['ascending'] and f['same_permutation_for_heights_and_marks']
                                                                                and f.get('heights_gather_axis') == -1 and f.get('marks_gather_axis') == -1), W, f,
                  f"{key}: heights must be sorted ascending and the *same* permutation gathered into heights and event marks along the last axis")
        marks = f['marks']
        has_grid = 0 in marks
        shapes = f['mark_shapes']
        okm = len(marks) in (2, 3) and marks[0] in (1, 'counts') and marks[1] == -1 and (len(marks) == 2 or marks[2] == 0) and f['marks_cat_axis'] == -1
        # counts of each kind: n tips, n-1 coalescent events, one mark per grid point
        ok_counts = len(shapes) >= 2 and ('-1,)' in shapes[1] or '-1,' in shapes[1]) and (len(shapes) == 2 or shapes[2].endswith('grid.shape'))
        hp = f['height_parts']
        ok_h = all((len(parts) == len(marks) - (1 if len(parts) == 1 and not has_grid else 0)) or True for parts in hp)
        # order of the height parts: tips/internals first, grid last
        ok_order = True
        for parts in hp:
            if has_grid:
                ok_order = ok_order and 'grid' in parts[-1] and all('grid' not in x for x in parts[:-1]) and 'heights' in parts[0]
            else:
                ok_order = ok_order and all('grid' not in x for x in parts)
        rep.check('C08.P', f"{key}::F1-marks-annotate-heights", bool(okm and ok_counts and ok_order), W, f,
                  f"{key}: event marks must be +1 (or multiplicities) for the n tips, −1 for the n−1 coalescent events and 0 for grid points, concatenated in the "
                  f"same order as the heights they annotate (tips, internal nodes, grid); found marks {marks} with shapes {shapes} over heights {hp}")
        rep.check('C08.P', f"{key}::F3-lineage-count", f['lineage_count_slice'] == ':-1' and f['lineage_count_axis'] == -1, W, f,
                  f"{key}: the number of lineages in each interval must be cumsum(marks)[..., :-1]")
        rep.check('C08.P', f"{key}::F4-choose-2", bool(f['choose2_is_k(k-1)/2']), W, f, f"{key}: the pair count must be k(k−1)/2, found {f['choose2']}")
        # F7 — event marks that are combined element-wise with a per-interval quantity (the lineage count, C(k,2)) are the marks of the events that END the intervals:
        # entry i of cumsum(marks)[..., :-1] is the number of lineages in the interval between event i and event i+1, so it belongs to marks[..., 1:], never to marks[..., :-1]
        MS_, LC_, L2_ = p.names.get('MS'), p.names.get('LC'), p.names.get('L2')
        per_interval = {x for x in (LC_, L2_) if x}
        mask_names = {}
        for st in ast.walk(p.fn):
            if isinstance(st, ast.Assign) and len(st.targets) == 1 and isinstance(st.targets[0], ast.Name):
                for x in ast.walk(st.value):
                    if isinstance(x, ast.Subscript) and isinstance(x.value, ast.Name) and x.value.id == MS_ and last_slice(x) is not None:
                        mask_names[st.targets[0].id] = last_slice(x)
                if any(isinstance(x, ast.Name) and x.id in per_interval for x in ast.walk(st.value)) and st.targets[0].id not in mask_names:
                    per_interval.add(st.targets[0].id)
        misaligned = []
        for x in ast.walk(p.fn):
            if isinstance(x, ast.BinOp) and isinstance(x.op, (ast.BitAnd, ast.BitOr, ast.Mult)):
                sides = [x.left, x.right]
                def slices(e):
                    out = [mask_names[y.id] for y in ast.walk(e) if isinstance(y, ast.Name) and y.id in mask_names]
                    out += [last_slice(y) for y in ast.walk(e) if isinstance(y, ast.Subscript) and isinstance(y.value, ast.Name) and y.value.id == MS_ and last_slice(y)]
                    return out
                for a, b in (sides, sides[::-1]):
                    sa_ = slices(a)
                    if sa_ and any(isinstance(y, ast.Name) and y.id in per_interval for y in ast.walk(b)) and not slices(b):
                        misaligned += [(x, sl) for sl in sa_ if sl != '1:']
        if misaligned:
            x, sl = misaligned[0]
            rep.bad('C08.P', f"{key}::F7-marks-combined-with-interval-quantities-end-the-intervals", where(m, x), {'slice': sl, 'expression': norm_text(x)[:80]},
                    f"{key}: `{norm_text(x)[:60]}` combines the event marks sliced `[..., {sl}]` with a per-interval quantity (the lineage count): entry i of the lineage count is the "
                    f"number of lineages BEFORE event i+1, so it must meet marks[..., 1:]; with `{sl}` every event is judged by the count after it (a coalescence that leaves one lineage "
                    f"before an older tip is sampled is called impossible)")
        iv = f['interval_slices']
        ok_iv = bool(iv) and all(x in (('1:', ':-1'), ('2:', '1:-1')) for x in iv)
        rep.check('C08.P', f"{key}::F5-intervals-later-minus-earlier", ok_iv, W, f,
                  f"{key}: interval terms must be sorted[..., 1:] − sorted[..., :-1] (later minus earlier event); found {iv}")
    # sibling agreement
    tuples = {k: (p.facts['ascending'], p.facts['lineage_count_slice'], p.facts['choose2']) for k, p in found.items()}
    vals = set(tuples.values())
    rep.check('C08.P', 'prologues::siblings-agree', len(vals) == 1, where(m, list(found.values())[0].fn), {k: str(v) for k, v in tuples.items()},
              f"the copies of the event bookkeeping disagree: {tuples}")
    return found


# ---------------------------------------------------------------------------
def sign_of_return(fn: ast.FunctionDef, ret: ast.AST, names: Dict[str, str]):
    """every additive term of the returned log density carries a minus sign in front of positive atoms"""
    defs = local_assignments(fn)

    def atom(e):
        if isinstance(e, ast.Name):
            return Rat.sym(e.id)
        # (number of tips − 1): a positive count, kept as one atom
        if isinstance(e, ast.BinOp) and isinstance(e.op, ast.Sub) and const_num(e.right) == 1 and 'shape' in ast.unparse(e.left):
            return Rat.sym('n_minus_1')
        a = self_attr(e)
        if a:
            return Rat.sym('self_' + a)
        if isinstance(e, ast.Subscript):
            return atom(e.value) if not isinstance(e.value, ast.Call) else tr(e.value)
        if isinstance(e, ast.Call):
            nm = method_name(e)
            if nm in ('sum',):
                inner = e.args[0] if not (isinstance(e.func, ast.Attribute) and not isinstance(e.func.value, ast.Name)) or (isinstance(e.func, ast.Attribute) and isinstance(e.func.value, ast.Name) and e.func.value.id == 'torch') else e.func.value
                if isinstance(e.func, ast.Attribute) and not (isinstance(e.func.value, ast.Name) and e.func.value.id == 'torch'):
                    inner = e.func.value
                return tr(inner)
            if nm == 'log':
                inner = e.args[0] if e.args else e.func.value
                return Rat.sym('log(' + ast.unparse(inner).replace(' ', '')[:30] + ')')
            if nm in ('lgamma',):
                return Rat.sym('lgamma')
        return None
    def pre(e):
        if isinstance(e, ast.BinOp) and isinstance(e.op, ast.Sub) and const_num(e.right) == 1 and 'shape' in ast.unparse(e.left):
            return Rat.sym('n_minus_1')
        return None
    tr = ToRat(atom, pre=pre)
    return tr(ret)


def check_signs(ctx, rep, found):
    m = ctx.prog.module(MOD)
    targets = ['ConstantCoalescent.log_prob', 'ExponentialCoalescent.log_prob', 'PiecewiseConstantCoalescent.log_prob', 'PiecewiseConstantCoalescentGrid.log_prob',
               'PiecewiseExponentialCoalescentGrid.log_prob', 'PiecewiseLinearCoalescentGrid.log_prob']
    for key in targets:
        cname, fname = key.split('.')
        cnode = m.classes.get(cname)
        fn = next((st for st in cnode.body if isinstance(st, ast.FunctionDef) and st.name == fname), None) if cnode else None
        if fn is None:
            rep.undecided('C08.P', f"{key}::F6-signs", '', 'function not found')
            continue
        rets = [n for n in ast.walk(fn) if isinstance(n, ast.Return)]
        W = where(m, fn)
        if len(rets) != 1:
            rep.undecided('C08.P', f"{key}::F6-signs", W, 'several returns')
            continue
        try:
            R = sign_of_return(fn, rets[0].value, {})
        except Unsupported as u:
            rep.undecided('C08.P', f"{key}::F6-signs", W, str(u))
            continue
        sg = R.sign_on_positive()
        n_terms = len(R.num)
        rep.check('C08.P', f"{key}::F6-signs", sg == -1 and n_terms >= 2, W, {'returned': repr(R)[:200]},
                  f"{key}: the log density must be −Σ C(k,2)·∫1/N − Σ log N(t_coal): every term enters with a minus sign; found {R!r}")
        # the log N term is gated by coalescent events: mark == -1, or one of the two ungated forms that are exact for gridless models
        src = ast.unparse(fn)
        gated = any(isinstance(c, ast.Compare) and isinstance(c.ops[0], ast.Eq) and const_num(c.comparators[0]) == -1 for c in ast.walk(fn))
        count_form = 'taxa_shape[-1] - 1) * torch.log(self.theta)' in src.replace('\n', ' ') or '(taxa_shape[-1] - 1) * torch.log' in src
        has_grid = 'grid' in src
        all_thetas_form = 'self.theta.log().sum(' in src and not has_grid
        lookup_gated = 'thetas_indices' in src and gated
        ok = (gated and (has_grid or 'log_thetas' in src or lookup_gated)) or (count_form and not has_grid) or all_thetas_form
        rep.check('C08.P', f"{key}::F6-log-term-at-coalescent-events-only", bool(ok), W, {'gated_by_mark==-1': gated, 'count_form': count_form, 'all_thetas_form': all_thetas_form},
                  f"{key}: log N must be taken at coalescent events only (mark == −1), not at sampling or grid events")
    # theta lookup mark (F7)
    for key, want in (('PiecewiseConstantCoalescent.log_prob', -1), ('PiecewiseConstantCoalescentGrid.log_prob', 0), ('SoftPiecewiseConstantCoalescentGrid.log_prob', 0)):
        cname, fname = key.split('.')
        cnode = m.classes.get(cname)
        fn = next((st for st in cnode.body if isinstance(st, ast.FunctionDef) and st.name == fname), None) if cnode else None
        if fn is None:
            continue
        marks = []
        for st in ast.walk(fn):
            if isinstance(st, ast.Assign) and isinstance(st.targets[0], ast.Name) and 'indices' in st.targets[0].id and any(
                    isinstance(c, ast.Call) and method_name(c) == 'cumsum' for c in ast.walk(st.value)):
                for c in ast.walk(st.value):
                    if isinstance(c, ast.Compare) and isinstance(c.ops[0], ast.Eq):
                        marks.append(const_num(c.comparators[0]))
        rep.check('C08.P', f"{key}::F7-theta-lookup-mark", marks == [want], where(m, fn), {'lookup_counts_mark': marks, 'expected': want},
                  f"{key}: the population-size index must be the running count of {'coalescent' if want == -1 else 'grid'} marks ({want}); found {marks}")


def check_piece_lookups(ctx, rep):
    """C08.L — which piece of N(t) applies at a time is found by searching the grid (bucketize / searchsorted over the whole grid) or by counting the grid / coalescent
    marks passed so far (cumsum of the sorted marks); never by arithmetic on one grid element, which silently assumes equally spaced pieces."""
    from sa.util import backward_slice, local_assignments
    m = ctx.prog.module(MOD)
    n = 0
    PIECE_PARAMS = {'theta', 'grid', 'growth', 'thetas'}
    for cname, cnode in sorted(m.classes.items()):
        for fn in [b for b in cnode.body if isinstance(b, ast.FunctionDef) and b.name == 'log_prob']:
            defs = local_assignments(fn)
            k = 0
            for c in ast.walk(fn):
                if not (isinstance(c, ast.Call) and isinstance(c.func, ast.Attribute) and c.func.attr == 'gather'):
                    continue
                torch_fn = isinstance(c.func.value, ast.Name) and c.func.value.id == 'torch'
                if len(c.args) < (3 if torch_fn else 2):
                    continue
                base = c.args[0] if torch_fn else c.func.value
                idx = c.args[2] if torch_fn else c.args[1]
                base_slice = backward_slice(base, defs)
                per_piece = any(isinstance(x, ast.Attribute) and self_attr(x) in PIECE_PARAMS for e in base_slice for x in ast.walk(e))
                heights_like = any(isinstance(x, ast.Name) and x.id == fn.args.args[1].arg for e in base_slice for x in ast.walk(e))
                if not per_piece or (heights_like and not isinstance(base, ast.Attribute)):
                    # gathers that only sort the heights / marks (checked by C08.P)
                    if not per_piece or any(isinstance(x, ast.Call) and method_name(x) == 'argsort' for x in ast.walk(idx)) or (isinstance(idx, ast.Name) and any(
                            isinstance(d, ast.Call) and method_name(d) == 'argsort' for d in defs.get(idx.id, []))):
                        continue
                n += 1
                k += 1
                searches = []
                for e in backward_slice(idx, defs):
                    for x in ast.walk(e):
                        if isinstance(x, ast.Call) and method_name(x) in ('bucketize', 'searchsorted'):
                            bounds = (x.args[1] if method_name(x) == 'bucketize' else x.args[0]) if len(x.args) > 1 else None
                            whole = bounds is not None and any(
                                isinstance(y, ast.Attribute) and self_attr(y) == 'grid' and not (isinstance(getattr(y, '_parent', None), ast.Subscript) and
                                                                                               isinstance(y._parent.slice, ast.Constant))
                                for e2 in backward_slice(bounds, defs) for y in ast.walk(e2))
                            searches.append(('search over the whole grid' if whole else 'search over part of the grid', whole))
                        elif isinstance(x, ast.Call) and method_name(x) == 'cumsum':
                            inner = x.func.value if isinstance(x.func, ast.Attribute) and not (isinstance(x.func.value, ast.Name) and x.func.value.id == 'torch') else (x.args[0] if x.args else None)
                            marks = inner is not None and any(isinstance(y, ast.Compare) for e2 in backward_slice(inner, defs) for y in ast.walk(e2))
                            if marks:
                                searches.append(('count of marks passed', True))
                ok = any(w for _, w in searches)
                rep.check('C08.L', f"{cname}.log_prob::piece-index-of-{norm_text(base)[:30]}#{k}", ok, where(m, c),
                          {'index': norm_text(idx)[:60], 'found': sorted({t for t, _ in searches})},
                          f"{cname}.log_prob looks `{norm_text(base)[:40]}` up with `{norm_text(idx)[:50]}`, an index that is computed neither by searching the whole grid "
                          f"(bucketize / searchsorted over self.grid) nor by counting the sorted marks: for grids that are not equally spaced from zero the wrong piece of "
                          f"N(t) is used")
    if n < 9:
        rep.incomplete('C08.L', '*', '', f"only {n} per-piece lookups found, expected at least 9")


def run(ctx, rep):
    from sa import callbind
    callbind.run_for(ctx, rep, 'C08', 30)
    from sa import dtypes
    rep.rule('C08.T', "times / dates given as Python numbers enter the computation at the requested precision: a tensor built from them without a dtype (torch's default float32) is neither computed with nor converted afterwards")
    dtypes.check_default_precision(ctx, rep, 'C08.T', ['torchtree.evolution.coalescent'], 3)
    dtypes.check_default_precision_attributes(ctx, rep, 'C08.T', ['torchtree.evolution.coalescent'])
    # … and as they are: no event time is rounded / truncated on its way into the density (a rounded sampling time moves the event, and with a small time unit — substitutions
    # per site — 6 decimals are most of the value).  The piecewise-constant constructs of C12.D, read on coalescent.py with the heights as operand
    from props import c12
    from sa.util import local_assignments
    mco = ctx.prog.module('torchtree.evolution.coalescent')
    nfn = 0
    for fn_ in [f for f in ast.walk(mco.tree) if isinstance(f, ast.FunctionDef) and f.name in ('log_prob', '_sorted_terms', 'sufficient_statistics', 'maximum_likelihood', '_call')]:
        nfn += 1
        defs_ = local_assignments(fn_)
        cl_ = getattr(fn_, '_parent', None)
        scope_ = f"{cl_.name}.{fn_.name}" if isinstance(cl_, ast.ClassDef) else fn_.name
        for node, kind, text in c12.constructs(fn_):
            if kind != 'zero-derivative':
                continue
            operand = node.args[0] if (isinstance(node.func.value, ast.Name) and node.func.value.id == 'torch' and node.args) else node.func.value
            if c12.shape_derived(operand, defs_) or c12.literal_only(operand):
                continue
            rep.bad('C08.T', f"coalescent::{scope_}::{norm_text(node)[:50]}::event-times-enter-as-they-are", where(mco, node), {'construct': text[:80]},
                    f"{scope_}: `{text[:60]}` rounds a value computed from the node heights: the events the density is evaluated for are no longer the ones of the tree (tips within the "
                    f"rounding step are merged, all others are moved), by an amount that is most of the value when times are in substitutions per site")
    # three more constructs in the same functions: (a) a floor / ceiling on the inter-event intervals (`durations.clamp(min=ε)`: tied events — every contemporaneous tree —
    # are then charged C(k,2)·ε/θ each); (b) an in-place tensor method on a local that is read again afterwards (`h.mul_(g).exp_()` and then h as the heights); (c) the log of a
    # product where the density needs the sum of the logs (over- / underflows with the number of events)
    for fn_ in [f for f in ast.walk(mco.tree) if isinstance(f, ast.FunctionDef) and f.name in ('log_prob', '_sorted_terms', 'sufficient_statistics', 'maximum_likelihood', '_call')]:
        defs_ = local_assignments(fn_)
        cl_ = getattr(fn_, '_parent', None)
        scope_ = f"{cl_.name}.{fn_.name}" if isinstance(cl_, ast.ClassDef) else fn_.name
        for c in ast.walk(fn_):
            if not isinstance(c, ast.Call):
                continue
            dn_ = dotted_name(c.func) or ''
            nm_ = c.func.attr if isinstance(c.func, ast.Attribute) else dn_
            if nm_ in ('clamp', 'clamp_min', 'clamp_max', 'clip') and any(k.arg in ('min', 'max') and not (isinstance(k.value, ast.Constant) and isinstance(k.value.value, int)) for k in c.keywords):
                operand = c.func.value if not dn_.startswith('torch.') else (c.args[0] if c.args else None)
                if operand is not None and not c12.shape_derived(operand, defs_) and not any('indices' in ast.unparse(x) or 'index' in ast.unparse(x) for x in [operand]):
                    rep.bad('C08.T', f"coalescent::{scope_}::{norm_text(c)[:50]}::intervals-enter-as-they-are", where(mco, c), None,
                            f"{scope_}: `{norm_text(c)[:60]}` bounds a quantity computed from the event times: intervals of length zero (tied events, every contemporaneous tree) are "
                            f"charged as if they had that length, an error of C(k,2)·ε/θ per tie that grows with the number of tied tips and with small time units")
            if isinstance(c.func, ast.Attribute) and c.func.attr.endswith('_') and not c.func.attr.startswith('_') and c.func.attr not in ('scatter_add_', 'requires_grad_') \
                    and isinstance(c.func.value, ast.Name):
                name_ = c.func.value.id
                later = [x for x in ast.walk(fn_) if isinstance(x, ast.Name) and x.id == name_ and isinstance(x.ctx, ast.Load) and getattr(x, 'lineno', 0) > getattr(c, 'end_lineno', c.lineno)]
                if later:
                    rep.bad('C08.T', f"coalescent::{scope_}::{norm_text(c)[:40]}::no-in-place-update-of-a-value-read-later", where(mco, c), {'read_again_at': later[0].lineno},
                            f"{scope_}: `{norm_text(c)[:50]}` overwrites `{name_}` in place and line {later[0].lineno} reads `{name_}` again as if it still held the event times")
            if nm_ == 'log' and any(isinstance(x, ast.Call) and isinstance(x.func, ast.Attribute) and x.func.attr == 'prod' for x in ast.walk(c)):
                rep.bad('C08.T', f"coalescent::{scope_}::{norm_text(c)[:40]}::sum-of-logs-not-log-of-a-product", where(mco, c), None,
                        f"{scope_}: `{norm_text(c)[:60]}` takes the log of a product of population sizes: with n − 1 factors it over- or underflows (|log10 θ|·(n − 1) > 308) where the "
                        f"sum of the logs is finite")
    rep.ok('C08.T', 'coalescent::event-times-enter-as-they-are::scanned', '', {'functions_scanned': nfn})
    if nfn < 10:
        rep.incomplete('C08.T', 'rounding', '', f"only {nfn} density functions found in coalescent.py")
    dtypes.check_work_buffers(ctx, rep, 'C08.T', ['torchtree.evolution.coalescent'])        # no such array today: the rule is kept alive by its embedded example
    rep.rule('C08.O', "vectors in the order of the argument and vectors in sorted order are kept apart: element-wise operations, masked selections, gathers and scatters combine one family only (order-kind analysis of every sorting method of coalescent.py)")
    from sa import orders
    orders.check_orders(ctx, rep, 'C08.O', MOD, floor=8)
    rep.rule('C08.M', "nothing computed from the population-size / growth / grid parameters or from the shapes of the events is kept across evaluations under a key that ignores their values (C11.M rules on coalescent.py)")
    from props import c11 as _c11
    from sa.report import RuleProxy as _RP
    _c11.check_memo_keys(ctx, _RP(rep, 'C08.M', ''), only=lambda m_: m_.name == MOD)
    from sa import purity as _pur
    nshared = _pur.check_shared_class_containers(ctx, rep, 'C08.M', only=lambda m_: m_.name == MOD)
    rep.ok('C08.M', 'coalescent::scanned', '', {'memo_sites': rep.analysed.get('memo_sites[C11.M]', 0), 'classes_scanned_for_shared_containers': nshared})
    rep.rule('C08.G', "one tree with a batch of population sizes: the fixed heights are expanded to the batch shape before sorting (torch.gather does not broadcast its index)")
    check_fixed_tree_expanded(ctx, rep)
    rep.rule('C08.B', "the density of one tree is a function of that tree and its parameters only: no whole-tensor reduction (no axis named) of a value that can carry a sample dimension in the coalescent module (C10.D machinery)")
    from props import c10
    from sa.report import RuleProxy
    nb = c10.check_whole_reductions(ctx, RuleProxy(rep, 'C08.B', 'reductions::'), only=lambda mname: mname == MOD)
    rep.ok('C08.B', 'reductions::coalescent::scanned', '', {'reductions_without_axis_classified': nb})
    c10.check_first_sample_rows(ctx, RuleProxy(rep, 'C08.B', 'rows::'), rule='C08.B', only=lambda mname: mname == MOD)
    # a model reads its parameters when it is evaluated: nothing taken from `<parameter>.tensor` at construction is used afterwards (C09.P rule on coalescent.py)
    from props import c09
    c09.check_snapshots(ctx, rep, rule='C08.M', modules=[MOD], floor=10)
    # the heights the coalescent reads are those of the current ratios / root height: the time-tree models mark them outdated on every event (C11.H)
    from sa.members import Kinds as _K8
    from props import c11 as _c118
    _k8 = _K8(ctx.classes)
    for cls_ in sorted(ctx.classes.classes.values(), key=lambda c: c.qualname):
        if cls_.module.name == 'torchtree.evolution.tree_model' and not cls_.is_abstract() and cls_.has_base('torchtree.core.parametric.Parametric'):
            _c118.check_handlers(ctx, RuleProxy(rep, 'C08.M', 'tree-handlers::'), _k8, cls_)
    rep.explanation = (
        "The event bookkeeping that every coalescent implementation repeats (ten copies) is extracted by dataflow role — the vector handed to argsort, "
        "the permutation gathered into heights and marks, the mark vector's parts and their order against the height vector's parts, the lineage "
        "count, C(k,2), the interval differences — and each copy must satisfy F1–F5; all copies must agree.  For the log densities the returned "
        "expression is turned into a polynomial over positive atoms and every term must carry a minus sign; the log N term must be taken at "
        "coalescent events only; the θ lookup must count the mark that delimits the pieces (coalescent marks for the skyride, grid marks for "
        "skygrid variants)."
    )
    rep.rule('C08.P', "event bookkeeping of every coalescent copy: marks ↔ heights, ascending sort with one permutation, lineages = cumsum(marks)[:-1], C(k,2) = k(k−1)/2, "
                      "later-minus-earlier intervals, minus signs, log N at coalescent events only, θ lookup mark; sibling agreement")
    rep.rule('C08.I', "closed-form integrals: each piece of the interval integral is the antiderivative of 1/N(t) for the N(t) whose log is added at coalescent events; degenerate-case switches are two-sided and scale-free")
    rep.rule('C08.L', "the piece of N(t) that applies at a time is found by searching the whole grid or by counting sorted marks, never by arithmetic on one grid element")
    rep.rule('C08.M', "tip multiplicities (unique with counts) are taken per tree: along the last axis or on a single row, never pooled over the batch")
    rep.not_decided += ["numerical equality with the Kingman density", "model equivalences (all pieces equal = constant)", "scaling law", "ties between event times",
                        "interleaving of grid and tree events at run time"]
    try:
        found = check_prologues(ctx, rep)
        check_signs(ctx, rep, found)
        from props.c08_integrals import check_integrals
        check_integrals(ctx, rep)
        from props.c08_integrals import check_multiplicities
        check_multiplicities(ctx, rep)
        check_piece_lookups(ctx, rep)
    except Unsupported as u:
        rep.undecided('C08.P', 'coalescent', f"line {getattr(u.node, 'lineno', 0)}", str(u))
    # C08.H — the model call evaluates the density at the current parameter values: what the coalescent models read as parameters is registered (listened to)
    from props import c11
    from sa.report import RuleProxy
    rep.rule('C08.H', "the coalescent models listen to every parameter their density reads: none is stored past Parametric.__setattr__ (self.__dict__ writes)")
    c11.check_dict_writes(ctx, RuleProxy(rep, 'C08.H', ''), only=lambda c: c.module.name == MOD)
    rep.ok('C08.H', 'coalescent::direct-dict-writes-examined', '', {'sites': rep.analysed.get('dict_write_sites[C08.H]', 0)})


def check_fixed_tree_expanded(ctx, rep):
    """C08.G — `if node_heights.dim() < self.theta.dim():` is the case of ONE tree evaluated with a batch of population sizes.  torch.gather does not broadcast its
    index: the lookups `theta.gather(-1, indices)` return one row per row of the indices, so the fixed heights must be expanded to the batch shape before the events are
    sorted; with singleton batch dimensions instead (reshape / unsqueeze) every sample silently gets the population sizes of the first one."""
    m = ctx.prog.module(MOD)
    n = 0
    for cname, cnode in sorted(m.classes.items()):
        for fn in cnode.body:
            if not isinstance(fn, ast.FunctionDef):
                continue
            for node in ast.walk(fn):
                if not isinstance(node, ast.If):
                    continue
                t = node.test
                if not (isinstance(t, ast.Compare) and len(t.ops) == 1 and isinstance(t.ops[0], ast.Lt) and isinstance(t.left, ast.Call) and isinstance(t.left.func, ast.Attribute)
                        and t.left.func.attr == 'dim' and isinstance(t.left.func.value, ast.Name) and isinstance(t.comparators[0], ast.Call)
                        and isinstance(t.comparators[0].func, ast.Attribute) and t.comparators[0].func.attr == 'dim'):
                    continue
                small = t.left.func.value.id
                uses, bad = [], []
                for st in node.body:
                    for x in ast.walk(st):
                        if isinstance(x, ast.Name) and x.id == small and isinstance(x.ctx, ast.Load):
                            # climb through slices of the fixed vector
                            top = x
                            p_ = getattr(top, '_parent', None)
                            while isinstance(p_, ast.Subscript) and p_.value is top:
                                top, p_ = p_, getattr(p_, '_parent', None)
                            if isinstance(p_, ast.Attribute) and p_.value is top and p_.attr in ('shape', 'dtype', 'device', 'dim', 'ndim'):
                                continue
                            uses.append(x)
                            call = getattr(p_, '_parent', None) if isinstance(p_, ast.Attribute) and p_.value is top else None
                            ok = isinstance(p_, ast.Attribute) and p_.attr == 'expand' and isinstance(call, ast.Call) and call.func is p_ \
                                and any(isinstance(y, ast.Name) and 'batch' in y.id for a in call.args for y in ast.walk(a))
                            if not ok:
                                bad.append(x)
                if not uses:
                    continue
                n += 1
                st0 = bad[0] if bad else node
                while not isinstance(st0, ast.stmt):
                    st0 = getattr(st0, '_parent', None)
                rep.check('C08.G', f"{cname}.{fn.name}::fixed-tree-expanded-to-the-batch-of-{ast.unparse(t.comparators[0].func.value)}", not bad, where(m, st0),
                          {'uses_of_the_fixed_vector': len(uses), 'not_expanded': [norm_text(getattr(b, '_parent', b))[:60] for b in bad]},
                          f"{cname}.{fn.name}: in the branch `{ast.unparse(t)}` (one tree, a batch of population sizes) `{small}` is used without `.expand(batch_shape + …)` "
                          f"(`{norm_text(st0)[:70]}`): the sorted indices then have singleton batch dimensions and `theta.gather(-1, indices)` — which does not broadcast its index — "
                          f"returns the first sample's population sizes for every sample")
    rep.analysed['fixed_tree_branches'] = n
    if n < 4:
        rep.incomplete('C08.G', '*', '', f"only {n} `x.dim() < y.dim()` branches found in coalescent.py")
