"""Small shared helpers over the parsed program."""
from __future__ import annotations

import ast
from typing import Dict, List, Optional, Tuple

from .loader import Unsupported, dotted_name


def const_of(e) -> Optional[object]:
    if isinstance(e, ast.Constant) and isinstance(e.value, bool):
        return e.value
    return None


def find_calls(ctx, target_module: str, fn_name: str):
    """all call sites `fn_name(...)` resolving to target_module.fn_name."""
    out = []
    for m in ctx.prog.modules.values():
        for node in ast.walk(m.tree):
            if isinstance(node, ast.Call):
                dn = dotted_name(node.func)
                if not dn:
                    continue
                q = ctx.prog.resolve_name(m, dn)
                r = ctx.prog.resolve(q)
                if r and r[0] == 'function' and r[1].name == target_module and r[2].name == fn_name:
                    out.append((m, node))
    return out


def enclosing_function(node):
    n = node
    while n is not None and not isinstance(n, (ast.FunctionDef, ast.AsyncFunctionDef)):
        n = getattr(n, '_parent', None)
    return n


def enclosing_class(node):
    n = node
    while n is not None and not isinstance(n, ast.ClassDef):
        n = getattr(n, '_parent', None)
    return n


def bind_args(fn: ast.FunctionDef, call: ast.Call, skip_self=False) -> Dict[str, ast.AST]:
    params = [a.arg for a in fn.args.args]
    if skip_self and params and params[0] in ('self', 'cls'):
        params = params[1:]
    bound: Dict[str, ast.AST] = {}
    for p, a in zip(params, call.args):
        if isinstance(a, ast.Starred):
            raise Unsupported(call, 'starred argument')
        bound[p] = a
    for kw in call.keywords:
        if kw.arg is None:
            raise Unsupported(call, '** argument')
        bound[kw.arg] = kw.value
    return bound


def defaults_of(fn: ast.FunctionDef) -> Dict[str, ast.AST]:
    args = fn.args.args
    d = fn.args.defaults
    out = {}
    for a, dv in zip(args[len(args) - len(d):], d):
        out[a.arg] = dv
    for a, dv in zip(fn.args.kwonlyargs, fn.args.kw_defaults):
        if dv is not None:
            out[a.arg] = dv
    return out




def local_assignments(fn) -> Dict[str, List[ast.AST]]:
    """local name -> value expressions assigned to it anywhere in fn (tuple targets map every
    element to the whole right-hand side; augmented assignments and subscript stores count)."""
    defs: Dict[str, List[ast.AST]] = {}
    for st in ast.walk(fn):
        if isinstance(st, ast.Assign):
            for t in st.targets:
                for e in (t.elts if isinstance(t, (ast.Tuple, ast.List)) else [t]):
                    base = e
                    while isinstance(base, (ast.Subscript, ast.Starred)):
                        base = base.value
                    if isinstance(base, ast.Name):
                        defs.setdefault(base.id, []).append(st.value)
        elif isinstance(st, ast.AugAssign):
            base = st.target
            while isinstance(base, ast.Subscript):
                base = base.value
            if isinstance(base, ast.Name):
                defs.setdefault(base.id, []).append(st.value)
        elif isinstance(st, (ast.For, ast.comprehension)):
            for e in ast.walk(st.target):
                if isinstance(e, ast.Name):
                    defs.setdefault(e.id, []).append(st.iter)
        elif isinstance(st, ast.With):
            for it in st.items:
                if it.optional_vars is not None and isinstance(it.optional_vars, ast.Name):
                    defs.setdefault(it.optional_vars.id, []).append(it.context_expr)
    return defs


def backward_slice(expr: ast.AST, defs: Dict[str, List[ast.AST]], _seen=None) -> List[ast.AST]:
    """expr plus the defining expressions of every local name it (transitively) mentions."""
    _seen = _seen if _seen is not None else set()
    out = [expr]
    for n in ast.walk(expr):
        if isinstance(n, ast.Name) and n.id in defs and n.id not in _seen:
            _seen.add(n.id)
            for v in defs[n.id]:
                out += backward_slice(v, defs, _seen)
    return out


def slice_mentions(expr, defs, pred) -> bool:
    return any(pred(n) for e in backward_slice(expr, defs) for n in ast.walk(e))


def method_calls(node, attr: str):
    return [n for n in ast.walk(node) if isinstance(n, ast.Call) and isinstance(n.func, ast.Attribute) and n.func.attr == attr]
