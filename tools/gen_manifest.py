#!/venv/bin/python
"""Regenerate /verif/MANIFEST.json from the table below (keeps it schema-valid)."""
import json
import os
import sys

HERE = os.path.dirname(os.path.dirname(os.path.abspath(__file__)))
sys.path.insert(0, HERE)
from tools.manifest_table import CLAIMED, NOT_APPLICABLE  # noqa: E402

BASE_CMD = "cd /repo && /venv/bin/python -m pytest -ra -q -p no:cacheprovider --timeout=900 --continue-on-collection-errors"

checks = []
for pid in sorted(CLAIMED):
    c = CLAIMED[pid]
    checks.append({
        "property_id": pid,
        "quick_cmd": f"/venv/bin/python /verif/check.py {pid} --tier quick",
        "thorough_cmd": f"/venv/bin/python /verif/check.py {pid} --tier thorough",
        "evidence_file": f"/verif/evidence/{pid}.json",
        "replay_cmd_template": "cat {path}",
        "engine": "sa",
        "level_claimed": {"category": "other", "text": c['text'], "design_ref": c.get('design_ref', f"DESIGN.md section 2, {pid}")},
        "level_note": c['note'],
        "technique": c['technique'],
    })
props = [json.loads(l)['id'] for l in open(os.path.join(HERE, 'properties.jsonl'))]
na = []
for pid in props:
    if pid in CLAIMED:
        continue
    na.append({"property_id": pid, "reason": NOT_APPLICABLE.get(pid, "no static check built for this property yet (static analysis family only); not claimed")})
manifest = {
    "version": 1,
    "setup_cmd": "/venv/bin/python /verif/tools/setup_check.py",
    "hooks": {
        "guard": "TORCHTREE_VERIF",
        "enable": "none needed: the checks parse /repo/torchtree and never execute it; no hook was added to the repository",
        "baseline_off_cmd": BASE_CMD,
        "source_commits": [],
        "add_only": True,
    },
    "engines": [{
        "name": "sa",
        "path": "/verif/sa",
        "serves_properties": sorted(CLAIMED),
        "kind_free_text": "repository-specific static analysis over the parsed source (python ast): class table with C3 MRO, statement CFG with dominators / must-pass, def-use, abstract interpretation in small purpose-built domains (file typestate, rational functions, Jacobian kinds, affine-in-c), table folding, sibling cross-checks; stdlib only, /repo is never imported or run",
    }],
    "checks": checks,
    "not_applicable": na,
    "notes": "All checks are static (technique family: static analysis). Each decides named structural clauses that are necessary conditions of the property, not the behaviour as a whole; DESIGN.md section 2 says per property what is and is not decided. known_findings.json lists genuine defects (status known = still present, printed as KNOWN-FINDING; status fixed = repaired by a fix: commit in /repo).",
}
with open(os.path.join(HERE, 'MANIFEST.json'), 'w') as fh:
    json.dump(manifest, fh, indent=1)
print(f"MANIFEST.json: {len(checks)} checks, {len(na)} not_applicable")
