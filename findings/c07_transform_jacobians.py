"""C07: reported log|det J| and inverse versus autograd, for the transforms the static rules flag.
 - CumSumSoftPlusTransform: inverse was that of cumsum-exp and the log-determinant zero (C07.I, C07.Z/L)
 - LogDifferenceRateTransform: log-determinant summed the differences y instead of −Σ log x (C07.L)
 - GeneralNodeHeightTransform._inverse: torch.cat without dim=-1 fails on batched heights (C07.I)"""
import torch
from torch.autograd.functional import jacobian
from torchtree.core.utils import process_object
import torchtree.evolution.tree_model, torchtree.evolution.taxa
from torchtree.distributions.transforms import CumSumSoftPlusTransform
from torchtree.evolution.rate_transform import LogDifferenceRateTransform
from torchtree.evolution.tree_height_transform import GeneralNodeHeightTransform
torch.set_default_dtype(torch.float64)
bad = 0
def report(name, ok, msg=''):
    global bad
    print(name, 'OK' if ok else 'FAIL ' + msg); bad += not ok
t = CumSumSoftPlusTransform()
x = torch.tensor([0.3, -0.2, 0.8])
y = t(x)
report('CumSumSoftPlus inverse', torch.allclose(t.inv(y), x), f'inv(forward(x)) = {t.inv(y).tolist()} vs x = {x.tolist()}')
ld = torch.linalg.slogdet(jacobian(t, x))[1]
report('CumSumSoftPlus log-det', torch.allclose(t.log_abs_det_jacobian(x, y), ld), f'reported {t.log_abs_det_jacobian(x, y).item()} vs autograd {ld.item()}')
tree = process_object({'id': 'tt', 'type': 'TimeTreeModel', 'newick': '((A:1,B:1):1,(C:1.5,D:1.5):0.5);',
   'taxa': {'id': 'taxa', 'type': 'Taxa', 'taxa': [{'id': s, 'type': 'Taxon', 'attributes': {'date': 0.0}} for s in 'ABCD']},
   'internal_heights': {'id': 'h', 'type': 'Parameter', 'tensor': [1.0, 1.5, 2.0]}}, {})
r = LogDifferenceRateTransform(tree)
x = torch.tensor([0.5, 1.3, 0.7, 2.0, 0.9, 1.1])
ld = torch.linalg.slogdet(jacobian(r, x))[1]
report('LogDifferenceRate log-det', torch.allclose(r.log_abs_det_jacobian(x, r(x)), ld), f'reported {r.log_abs_det_jacobian(x, r(x)).item()} vs autograd {ld.item()}')
g = GeneralNodeHeightTransform(tree)
ratios = torch.tensor([[0.5, 0.6, 2.0], [0.4, 0.7, 3.0]])
try:
    back = g.inv(g(ratios))
    report('GeneralNodeHeight batched inverse', torch.allclose(back, ratios), str(back))
except RuntimeError as e:
    report('GeneralNodeHeight batched inverse', False, 'raises ' + str(e)[:80])
raise SystemExit(1 if bad else 0)
