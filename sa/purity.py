"""In-place updates of a local name that may be another name for stored state or for an argument.

`x += e`, `x *= e`, `x.add_(e)` … on a tensor change the tensor object itself; if `x` was bound by `x = self.attr`, `x = arg`, or a view of those
(`expand`, `view`, slicing), the attribute / the caller's tensor is changed as a side effect and the next evaluation starts from the modified value.
"""
from __future__ import annotations

import ast
from typing import Callable, Optional

from .cfg import CFG
from .loader import norm_text
from .report import where

VIEW_METHODS = ('expand', 'view', 'reshape', 'squeeze', 'unsqueeze', 'detach', 'expand_as', 't', 'transpose', 'permute', 'flatten', 'narrow', 'contiguous', 'as_strided', 'unflatten')
SCALAR_ANN = ('int', 'float', 'bool', 'str')


_ACCESSORS = None


def accessor_names(ctx) -> set:
    """names of the argument-less methods of the package that hand out stored state: some class defines `def m(self): … return self._attr` (possibly a
    view of it).  A call `obj.m()` of such a name is another name for what `obj` caches, not a new tensor."""
    out = set()
    for ci in ctx.classes.classes.values():
        for b in ci.node.body:
            if not isinstance(b, ast.FunctionDef) or len(b.args.args) != 1 or b.args.vararg or b.args.kwarg or b.name.startswith('__'):
                continue
            if any(ast.unparse(d) in ('property', 'staticmethod', 'classmethod', 'abstractmethod', 'abc.abstractmethod') for d in b.decorator_list):
                continue
            for r in ast.walk(b):
                if isinstance(r, ast.Return) and r.value is not None:
                    v = r.value
                    while True:
                        if isinstance(v, ast.Call) and isinstance(v.func, ast.Attribute) and v.func.attr in VIEW_METHODS:
                            v = v.func.value
                        elif isinstance(v, ast.Subscript):
                            v = v.value
                        else:
                            break
                    if isinstance(v, ast.Attribute) and isinstance(v.value, ast.Name) and v.value.id == 'self':
                        out.add(b.name)
    return out


def fresh(e, fn, depth=0) -> bool:
    """the expression builds a new tensor (or is a plain number), it is not another name for stored state or for an argument"""
    if isinstance(e, ast.Constant):
        return True
    if isinstance(e, ast.IfExp):
        return fresh(e.body, fn, depth) and fresh(e.orelse, fn, depth)
    if isinstance(e, (ast.BinOp, ast.UnaryOp, ast.Compare, ast.BoolOp, ast.List, ast.Tuple, ast.ListComp)):
        return True
    if isinstance(e, ast.Call):
        if isinstance(e.func, ast.Attribute) and e.func.attr in VIEW_METHODS:
            return fresh(e.func.value, fn, depth)
        if _ACCESSORS and isinstance(e.func, ast.Attribute) and e.func.attr in _ACCESSORS and not e.args and not e.keywords:
            return False                           # obj.rates(), obj.probabilities() …: the tensor the object caches
        return True
    if isinstance(e, ast.Subscript):
        return fresh(e.value, fn, depth)          # indexing / slicing gives a view
    if isinstance(e, ast.Attribute):
        return False                               # self.x, p.tensor, obj.field: stored state
    if isinstance(e, ast.Name) and depth < 5:
        for a in fn.args.args + fn.args.kwonlyargs:
            if a.arg == e.id:
                return a.annotation is not None and ast.unparse(a.annotation) in SCALAR_ANN
        ds = [d for d in ast.walk(fn) if isinstance(d, ast.Assign) and any(isinstance(t, ast.Name) and t.id == e.id for t in d.targets)]
        loops = [d for d in ast.walk(fn) if isinstance(d, (ast.For, ast.comprehension)) and any(isinstance(x, ast.Name) and x.id == e.id for x in ast.walk(d.target))]
        if loops:
            return False
        return bool(ds) and all(fresh(d.value, fn, depth + 1) for d in ds)
    return False


def check_alias_mutation(ctx, rep, rule: str, scope: Callable, label='', index_stores: bool = False) -> int:
    """scope(module, class name or None, function) -> bool; index_stores: also `name[…] = v` / `name[…] op= v` (writes into the tensor the name refers to)"""
    n = 0
    global _ACCESSORS
    if getattr(ctx, '_accessor_names', None) is None:
        ctx._accessor_names = accessor_names(ctx)
    _ACCESSORS = ctx._accessor_names
    if True:
        if not {'rates', 'probabilities'} <= _ACCESSORS:
            from .loader import AnalysisError
            raise AnalysisError(f"accessor inference no longer finds SiteModel.rates / probabilities (found {sorted(_ACCESSORS)[:20]})")
    rep.analysed['accessor_methods_returning_stored_state'] = sorted(_ACCESSORS)
    for m in ctx.prog.modules.values():
        fns = []
        for cname, cnode in m.classes.items():
            fns += [(cname, b) for b in cnode.body if isinstance(b, ast.FunctionDef)]
        fns += [(None, f) for f in m.functions.values()]
        for cname, fn in fns:
            if not scope(m, cname, fn):
                continue
            sites = []
            for st in ast.walk(fn):
                if isinstance(st, ast.AugAssign) and isinstance(st.target, ast.Name):
                    sites.append((st, st.target.id))
                elif isinstance(st, ast.Expr) and isinstance(st.value, ast.Call) and isinstance(st.value.func, ast.Attribute) and st.value.func.attr.endswith('_') \
                        and not st.value.func.attr.startswith('_') and st.value.func.attr not in ('requires_grad_', 'retain_grad_') and isinstance(st.value.func.value, ast.Name):
                    sites.append((st, st.value.func.value.id))
            if index_stores:
                for st in ast.walk(fn):
                    tgts = st.targets if isinstance(st, ast.Assign) else ([st.target] if isinstance(st, ast.AugAssign) else [])
                    for t in tgts:
                        if isinstance(t, ast.Subscript) and isinstance(t.value, ast.Name):
                            sites.append((st, t.value.id))
            if not sites:
                continue
            try:
                cfg = CFG(fn)
            except Exception:
                continue
            ordinal = {}
            for st, name in sites:
                ordinal[name] = ordinal.get(name, 0) + 1
                defs = [d for d in ast.walk(fn) if isinstance(d, ast.Assign) and any(isinstance(t, ast.Name) and t.id == name for t in d.targets)]
                is_param = any(a.arg == name for a in fn.args.args + fn.args.kwonlyargs)
                ann = next((ast.unparse(a.annotation) for a in fn.args.args + fn.args.kwonlyargs if a.arg == name and a.annotation is not None), None)
                if is_param and ann in SCALAR_ANN:
                    continue
                try:
                    node = cfg.node_of(st)
                except KeyError:
                    continue
                dnodes = []
                for d in defs:
                    try:
                        dnodes.append((d, cfg.node_of(d)))
                    except KeyError:
                        pass
                # earlier in-place updates of the same name are not definitions; a previous `x = x + …` is
                reaching = [d for d, dn in dnodes if node.id in cfg.reachable_after(dn, {x.id for _, x in dnodes if x is not dn})]
                from_entry = is_param and not cfg.must_pass(cfg.entry, node, [dn for _, dn in dnodes])
                stale = [norm_text(d)[:70] for d in reaching if not fresh(d.value, fn)]
                # numbers: a name only ever bound to numeric constants / len() / shape entries is not a tensor
                numeric = bool(reaching) and all(_numeric(d.value) for d in reaching) and not from_entry
                if numeric:
                    continue
                n += 1
                qual = f"{m.name.replace('torchtree.', '')}.{cname + '.' if cname else ''}{fn.name}"
                why_alias = (f"the argument `{name}` itself" if from_entry else f"another name for stored state or an argument ({'; '.join(stale)})")
                rep.check(rule, f"{qual}::in-place-update-of-{name}#{ordinal[name]}", not stale and not from_entry, where(m, st),
                          {'reaching_definitions': [norm_text(d)[:70] for d in reaching], 'argument_reaches': from_entry},
                          f"{qual}: `{norm_text(st)[:60]}` updates `{name}` in place, and on some path `{name}` is {why_alias}: the stored tensor / the caller's tensor "
                          f"is modified as a side effect, so a second evaluation (or the caller) sees a different value")
    return n


def _numeric(e) -> bool:
    if isinstance(e, ast.Constant):
        return isinstance(e.value, (int, float)) and not isinstance(e.value, bool)
    if isinstance(e, ast.Call) and isinstance(e.func, ast.Name) and e.func.id in ('len', 'int', 'float', 'range'):
        return True
    if isinstance(e, ast.Subscript) and isinstance(e.value, ast.Attribute) and e.value.attr == 'shape':
        return True
    if isinstance(e, ast.BinOp):
        return _numeric(e.left) and _numeric(e.right)
    return False


CLASS_STATE_POSITIVE = """
class M:
    _json_options = {'survival': True}
    @classmethod
    def from_json(cls, data, dic):
        optionals = cls._json_options
        for option in optionals:
            if option in data:
                optionals[option] = data[option]
        return cls(data['id'], **optionals)
    @classmethod
    def from_json_ok(cls, data, dic):
        optionals = dict(cls._json_options)
        optionals['survival'] = data.get('survival', True)
        return cls(data['id'], **optionals)
"""


def class_state_mutations(fn: ast.FunctionDef):
    """statements of a classmethod that change an object hanging off the class (`cls.X[...] = v`, `cls.X.update(...)`, `cls.X = v`, or the same through a local name bound to
    `cls.X` without a copy): what one call leaves there is seen by every later call in the process."""
    if not fn.args.args:
        return []
    c = fn.args.args[0].arg
    if c not in ('cls',):
        return []
    alias = set()
    for st in ast.walk(fn):
        if isinstance(st, ast.Assign) and len(st.targets) == 1 and isinstance(st.targets[0], ast.Name) and isinstance(st.value, ast.Attribute) \
                and isinstance(st.value.value, ast.Name) and st.value.value.id == c:
            alias.add(st.targets[0].id)

    def is_class_obj(e):
        return (isinstance(e, ast.Attribute) and isinstance(e.value, ast.Name) and e.value.id == c) or (isinstance(e, ast.Name) and e.id in alias)
    out = []
    for st in ast.walk(fn):
        tgts = st.targets if isinstance(st, ast.Assign) else ([st.target] if isinstance(st, ast.AugAssign) else [])
        for t in tgts:
            if isinstance(t, ast.Subscript) and is_class_obj(t.value):
                out.append(st)
            if isinstance(t, ast.Attribute) and isinstance(t.value, ast.Name) and t.value.id == c:
                out.append(st)
        if isinstance(st, ast.Expr) and isinstance(st.value, ast.Call) and isinstance(st.value.func, ast.Attribute) and is_class_obj(st.value.func.value) \
                and st.value.func.attr in ('update', 'append', 'extend', 'pop', 'clear', 'setdefault', 'insert', 'remove', '__setitem__'):
            out.append(st)
    return out


def check_class_state(ctx, rep, rule: str, only: Callable = None) -> int:
    """no from_json (or other classmethod factory) of the package changes class-level state"""
    from .loader import AnalysisError
    t = ast.parse(CLASS_STATE_POSITIVE).body[0]
    got = [len(class_state_mutations(f)) for f in t.body if isinstance(f, ast.FunctionDef)]
    if got != [1, 0]:
        raise AnalysisError(f"class-state self-check: embedded examples give {got}")
    n = 0
    for m in ctx.prog.modules.values():
        if only is not None and not only(m):
            continue
        for cname, cnode in m.classes.items():
            for fn in cnode.body:
                if not isinstance(fn, ast.FunctionDef) or not any(ast.unparse(d) == 'classmethod' for d in fn.decorator_list):
                    continue
                n += 1
                muts = class_state_mutations(fn)
                rep.check(rule, f"{m.name.replace('torchtree.', '')}.{cname}.{fn.name}::leaves-the-class-unchanged", not muts, where(m, muts[0] if muts else fn),
                          {'mutations': [norm_text(x)[:60] for x in muts]},
                          f"{cname}.{fn.name} changes an object that hangs off the class (`{norm_text(muts[0])[:60] if muts else ''}`): a value parsed from one specification stays "
                          f"there and becomes the default of every object built afterwards in the same process")
    return n


def shared_class_containers(cnode: ast.ClassDef):
    """[(method, statement, attribute)]: a mutable container created in the CLASS body ({} / [] / set() / dict() …) and written by an instance method through self / the class
    name: one object shared by every instance and subclass — whatever one model leaves in it is served to models with other data, sizes or parameters."""
    shared = set()
    for st in cnode.body:
        if isinstance(st, ast.Assign) and len(st.targets) == 1 and isinstance(st.targets[0], ast.Name):
            v = st.value
            if isinstance(v, (ast.Dict, ast.List, ast.Set)) or (isinstance(v, ast.Call) and isinstance(v.func, ast.Name) and v.func.id in ('dict', 'list', 'set', 'defaultdict', 'OrderedDict')):
                shared.add(st.targets[0].id)
    if not shared:
        return []
    init_assigned = set()
    for fn in cnode.body:
        if isinstance(fn, ast.FunctionDef) and fn.name == '__init__':
            for st in ast.walk(fn):
                if isinstance(st, ast.Assign):
                    for t in st.targets:
                        if isinstance(t, ast.Attribute) and isinstance(t.value, ast.Name) and t.value.id == 'self':
                            init_assigned.add(t.attr)
    shared -= init_assigned
    out = []
    for fn in cnode.body:
        if not isinstance(fn, ast.FunctionDef) or fn.name == '__init__':
            continue

        def is_shared(e):
            return isinstance(e, ast.Attribute) and e.attr in shared and (
                (isinstance(e.value, ast.Name) and e.value.id in ('self', 'cls', cnode.name)) or ast.unparse(e.value) in ('type(self)', 'self.__class__'))
        for st in ast.walk(fn):
            tgts = st.targets if isinstance(st, ast.Assign) else ([st.target] if isinstance(st, ast.AugAssign) else [])
            for t in tgts:
                if isinstance(t, ast.Subscript) and is_shared(t.value):
                    out.append((fn, st, t.value.attr))
            if isinstance(st, ast.Expr) and isinstance(st.value, ast.Call) and isinstance(st.value.func, ast.Attribute) and is_shared(st.value.func.value) \
                    and st.value.func.attr in ('update', 'append', 'extend', 'setdefault', 'add', 'insert', 'pop', 'clear'):
                out.append((fn, st, st.value.func.value.attr))
    return out


def check_shared_class_containers(ctx, rep, rule: str, only: Callable = None) -> int:
    t = ast.parse("class A:\n    _marks = {}\n    def f(self, x):\n        m = self._marks.get(x.shape)\n        if m is None:\n            m = g(x)\n            self._marks[x.shape] = m\n        return m\n").body[0]
    if len(shared_class_containers(t)) != 1:
        from .loader import AnalysisError
        raise AnalysisError('shared-container self-check failed')
    n = 0
    for m in ctx.prog.modules.values():
        if only is not None and not only(m):
            continue
        for cname, cnode in m.classes.items():
            n += 1
            for fn, st, attr in shared_class_containers(cnode):
                rep.bad(rule, f"{m.name.replace('torchtree.', '')}.{cname}.{fn.name}::{attr}::container-shared-by-all-instances", where(m, st), {'statement': norm_text(st)[:70]},
                        f"{cname}.{fn.name} writes into `{attr}`, a container created in the class body: it is one object for every {cname} (and subclass) of the process, so what a "
                        f"model with one configuration stores there is served to a model with another (same key, other taxa / grid / data)")
    return n


def mutable_default_mutations(fn: ast.FunctionDef):
    """[(parameter, statement)]: a parameter whose default is a mutable literal ([] / {} / set()) and that the function appends to or stores into: the default object is created once,
    when the function is defined, so what one call leaves in it is still there in the next call"""
    out = []
    args = fn.args.args + fn.args.kwonlyargs
    defaults = [None] * (len(fn.args.args) - len(fn.args.defaults)) + list(fn.args.defaults) + list(fn.args.kw_defaults)
    mutable = {a.arg for a, d in zip(args, defaults) if d is not None and (isinstance(d, (ast.List, ast.Dict, ast.Set))
               or (isinstance(d, ast.Call) and isinstance(d.func, ast.Name) and d.func.id in ('list', 'dict', 'set')))}
    if not mutable:
        return out
    rebound = {t.id for st in ast.walk(fn) if isinstance(st, ast.Assign) for t in st.targets if isinstance(t, ast.Name)}
    for st in ast.walk(fn):
        if isinstance(st, ast.Expr) and isinstance(st.value, ast.Call) and isinstance(st.value.func, ast.Attribute) and isinstance(st.value.func.value, ast.Name) \
                and st.value.func.value.id in mutable - rebound and st.value.func.attr in ('append', 'extend', 'insert', 'update', 'add', 'setdefault', 'pop', 'clear'):
            out.append((st.value.func.value.id, st))
        tgts = st.targets if isinstance(st, ast.Assign) else ([st.target] if isinstance(st, ast.AugAssign) else [])
        for t in tgts:
            if isinstance(t, ast.Subscript) and isinstance(t.value, ast.Name) and t.value.id in mutable - rebound:
                out.append((t.value.id, st))
    return out


def check_mutable_defaults(ctx, rep, rule: str, only: Callable = None) -> int:
    t = ast.parse("def k(p, scalers: list = []):\n    scalers.append(p)\n    return scalers\n").body[0]
    if len(mutable_default_mutations(t)) != 1:
        from .loader import AnalysisError
        raise AnalysisError('mutable-default self-check failed')
    n = 0
    for m in ctx.prog.modules.values():
        if only is not None and not only(m):
            continue
        for fn in ast.walk(m.tree):
            if not isinstance(fn, ast.FunctionDef):
                continue
            n += 1
            seen = set()
            for pname, st in mutable_default_mutations(fn):
                if pname in seen:
                    continue
                seen.add(pname)
                rep.bad(rule, f"{m.name.replace('torchtree.', '')}::{fn.name}::default-of-{pname}-is-shared-by-every-call", where(m, st), {'statement': norm_text(st)[:60]},
                        f"{fn.name}: the parameter `{pname}` defaults to a mutable object created once at definition time and the function writes into it (`{norm_text(st)[:50]}`): a call "
                        f"that relies on the default starts with what the previous calls left there")
    return n
