"""C15.A: DirichletOperator tuning went the wrong way: the proposal is Dirichlet(old * scaler), so a larger scaler is a
more concentrated (more timid) proposal, yet acceptance above target increased the scaler. Tuning therefore pushed the
acceptance rate away from the target (towards 1 with ever smaller moves)."""
import torch
from torchtree.core.parameter import Parameter
from torchtree.inference.mcmc.operator import DirichletOperator
op = DirichletOperator('d', [Parameter('f', torch.tensor([0.25, 0.25, 0.25, 0.25]))], 1.0, 0.24, scaler=100.0)
before = op.tuning_parameter
for i in range(20):
    op.tune(torch.tensor(1.0), i, True)     # every move accepted: proposals should get bolder
after = op.tuning_parameter
print('concentration multiplier', before, '->', after)
ok = after < before
print('OK' if ok else 'FAIL: acceptance above target made the Dirichlet proposal more concentrated')
raise SystemExit(0 if ok else 1)
