"""C11 (fixed): assigning through a ViewParameter raises when the viewed parameter requires grad ("A parameter update never raises").
Run: PYTHONPATH=<tree> /venv/bin/python findings/c11_inplace_write_raises_with_requires_grad.py   (exit 1 = defect present)"""
import sys, torch
from torchtree import Parameter, ViewParameter
p = Parameter('p', torch.tensor([1.0, 2.0, 3.0]))
v = ViewParameter('v', p, torch.tensor([0, 1]))
v.tensor = torch.tensor([5.0, 6.0])
print('without requires_grad: parent is', p.tensor.tolist())
p.requires_grad = True
try:
    v.tensor = torch.tensor([7.0, 8.0])
except RuntimeError as e:
    print('DEFECT: assignment through the view raises:', str(e)[:90])
    sys.exit(1)
print('OK'); sys.exit(0)
