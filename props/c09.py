"""C09 — birth–death skyline: options select what they name; constant vs skyline formulas agree."""
from __future__ import annotations

import ast
import copy
from typing import Dict, List, Optional, Set

from sa.jsonkeys import all_from_json, const_key
from sa.loader import AnalysisError, Unsupported, dotted_name, norm_text
from sa.members import has_dynamic_members, instance_members, self_attr
from sa.poly import Rat, ToRat
from sa.report import where
from sa.util import backward_slice, local_assignments

BDSK = 'torchtree.evolution.bdsk'
BD = 'torchtree.evolution.birth_death'


# ---------------------------------------------------------------------------
# C09.O  JSON options select the behaviour they name
# ---------------------------------------------------------------------------
class _Subst(ast.NodeTransformer):
    def __init__(self, name, value):
        self.name = name
        self.value = value

    def visit_Name(self, node):
        if node.id == self.name and isinstance(node.ctx, ast.Load):
            return ast.copy_location(ast.Constant(value=self.value), node)
        return node


def unroll_constant_loops(fn: ast.FunctionDef) -> ast.FunctionDef:
    """`for k in ('a', 'b'): body` -> body[k:='a']; body[k:='b'] (so that option stores written as a loop over key names are seen)."""
    class Unroll(ast.NodeTransformer):
        def visit_For(self, node):
            self.generic_visit(node)
            if isinstance(node.target, ast.Name) and isinstance(node.iter, (ast.Tuple, ast.List)) and node.iter.elts \
                    and all(isinstance(e, ast.Constant) and isinstance(e.value, str) for e in node.iter.elts) and not node.orelse:
                out = []
                for e in node.iter.elts:
                    for st in node.body:
                        out.append(ast.fix_missing_locations(_Subst(node.target.id, e.value).visit(copy.deepcopy(st))))
                return out
            return node
    new = Unroll().visit(copy.deepcopy(fn))
    ast.fix_missing_locations(new)
    for parent in ast.walk(new):
        for child in ast.iter_child_nodes(parent):
            child._parent = parent
    return new


def check_options(ctx, rep):
    n = 0
    for ci, fn0 in all_from_json(ctx):
        fn = unroll_constant_loops(fn0)
        params = [a.arg for a in fn.args.args]
        if len(params) < 2:
            continue
        data = params[1]
        # dict variables splatted into a constructor call
        splatted = set()
        for c in ast.walk(fn):
            if isinstance(c, ast.Call):
                for kw in c.keywords:
                    if kw.arg is None and isinstance(kw.value, ast.Name):
                        splatted.add(kw.value.id)
        for st in ast.walk(fn):
            if not isinstance(st, ast.Assign) or len(st.targets) != 1:
                continue
            t = st.targets[0]
            if not (isinstance(t, ast.Subscript) and isinstance(t.value, ast.Name) and t.value.id in splatted
                    and isinstance(t.slice, ast.Constant) and isinstance(t.slice.value, str)):
                continue
            X = t.slice.value
            keys = set()
            for x in ast.walk(st.value):
                if isinstance(x, ast.Subscript) and isinstance(x.value, ast.Name) and x.value.id == data:
                    k = const_key(ctx, ci.module, x.slice)
                    if k:
                        keys.add(k)
                if isinstance(x, ast.Call) and isinstance(x.func, ast.Attribute) and x.func.attr == 'get' \
                        and isinstance(x.func.value, ast.Name) and x.func.value.id == data and x.args:
                    k = const_key(ctx, ci.module, x.args[0])
                    if k:
                        keys.add(k)
            # forwarded only when truthy?  then a constructor default that is not falsy can never be switched off
            gate = None
            p = getattr(st, '_parent', None)
            while p is not None and p is not fn:
                if isinstance(p, ast.If) and st in list(ast.walk(ast.Module(body=p.body, type_ignores=[]))):
                    t = p.test
                    if isinstance(t, ast.Call) and isinstance(t.func, ast.Attribute) and t.func.attr == 'get' and isinstance(t.func.value, ast.Name) \
                            and t.func.value.id == data and t.args and const_key(ctx, ci.module, t.args[0]):
                        keys.add(const_key(ctx, ci.module, t.args[0]))
                    if isinstance(t, ast.Subscript) and isinstance(t.value, ast.Name) and t.value.id == data and const_key(ctx, ci.module, t.slice):
                        keys.add(const_key(ctx, ci.module, t.slice))
                p = getattr(p, '_parent', None)
            if not keys:
                continue
            n += 1
            key = f"{ci.qualname}::{X}"
            gate = None
            p = getattr(st, '_parent', None)
            while p is not None and p is not fn:
                if isinstance(p, ast.If) and st in list(ast.walk(ast.Module(body=p.body, type_ignores=[]))):
                    t = p.test
                    tk = None
                    if isinstance(t, ast.Call) and isinstance(t.func, ast.Attribute) and t.func.attr == 'get' and isinstance(t.func.value, ast.Name) \
                            and t.func.value.id == data and t.args:
                        tk = const_key(ctx, ci.module, t.args[0])
                    if isinstance(t, ast.Subscript) and isinstance(t.value, ast.Name) and t.value.id == data:
                        tk = const_key(ctx, ci.module, t.slice)
                    if tk == X:
                        gate = p
                p = getattr(p, '_parent', None)
            if gate is not None:
                r0 = ci.resolve('__init__')
                dflt = None
                if r0:
                    init = r0[1]
                    args = init.args.args
                    for a, dv in zip(args[len(args) - len(init.args.defaults):], init.args.defaults):
                        if a.arg == X:
                            dflt = dv
                    for a, dv in zip(init.args.kwonlyargs, init.args.kw_defaults):
                        if a.arg == X and dv is not None:
                            dflt = dv
                truthy_default = isinstance(dflt, ast.Constant) and bool(dflt.value)
                rep.check('C09.O', key + '::can-be-switched-off', not truthy_default, where(ci.module, gate),
                          {'constructor_default': ast.unparse(dflt) if dflt is not None else None},
                          f"{ci.name}.from_json forwards `{X}` only when the JSON value is truthy, but the constructor default is "
                          f"{ast.unparse(dflt) if dflt is not None else '?'}: \"{X}\": false in a specification is ignored")
            rep.check('C09.O', key, X in keys, where(ci.module, st), {'constructor_option': X, 'json_keys_read': sorted(keys)},
                      f"{ci.name}.from_json fills the constructor option `{X}` from the JSON key(s) {sorted(keys)}: the option named `{X}` in a "
                      f"specification is ignored and `{sorted(keys)[0]}` selects something else")
    # a Parameter built in a from_json must wrap a tensor, not the raw JSON value
    for ci, fn in all_from_json(ctx):
        params = [a.arg for a in fn.args.args]
        if len(params) < 2:
            continue
        data = params[1]
        for c in ast.walk(fn):
            if isinstance(c, ast.Call) and (dotted_name(c.func) or '').split('.')[-1] == 'Parameter' and len(c.args) >= 2:
                a = c.args[1]
                raw = isinstance(a, ast.Subscript) and isinstance(a.value, ast.Name) and a.value.id == data
                raw = raw or (isinstance(a, ast.Call) and isinstance(a.func, ast.Attribute) and a.func.attr == 'get'
                              and isinstance(a.func.value, ast.Name) and a.func.value.id == data)
                rep.check('C09.O', f"{ci.qualname}::Parameter({norm_text(a)[:30]})", not raw, where(ci.module, c), None,
                          f"{ci.name}.from_json wraps the raw JSON value {norm_text(a)} in a Parameter without converting it to a tensor: "
                          f"the option is accepted but the model fails when it is evaluated")
    rep.analysed['option_stores'] = n
    if n < 30:
        raise AnalysisError(f"only {n} option stores found in from_json methods")
    # every keyword used in a cls(...) call of a from_json is a declared constructor parameter
    m = 0
    for ci, fn in all_from_json(ctx):
        r = ci.resolve('__init__')
        if r is None:
            continue
        init = r[1]
        declared = {a.arg for a in init.args.args + init.args.kwonlyargs}
        has_kwargs = init.args.kwarg is not None
        for c in ast.walk(fn):
            if isinstance(c, ast.Call) and isinstance(c.func, ast.Name) and c.func.id == 'cls':
                for kw in c.keywords:
                    if kw.arg is not None:
                        m += 1
                        rep.check('C09.O', f"{ci.qualname}::cls({kw.arg}=)", kw.arg in declared or has_kwargs, where(ci.module, c), None,
                                  f"{ci.name}.from_json passes `{kw.arg}=` but the constructor does not declare it")
        # option names stored into a splatted dict must be declared (unless **kwargs)
        if not has_kwargs:
            for st in ast.walk(fn):
                if isinstance(st, ast.Assign) and len(st.targets) == 1 and isinstance(st.targets[0], ast.Subscript) \
                        and isinstance(st.targets[0].value, ast.Name) and isinstance(st.targets[0].slice, ast.Constant):
                    var = st.targets[0].value.id
                    spl = any(isinstance(c, ast.Call) and isinstance(c.func, ast.Name) and c.func.id == 'cls'
                              and any(kw.arg is None and isinstance(kw.value, ast.Name) and kw.value.id == var for kw in c.keywords)
                              for c in ast.walk(fn))
                    if spl:
                        X = st.targets[0].slice.value
                        rep.check('C09.O', f"{ci.qualname}::declares-{X}", X in declared, where(ci.module, st), None,
                                  f"{ci.name}.from_json stores option `{X}` for a constructor that does not declare it")


# ---------------------------------------------------------------------------
# C09.K  keyword plumbing
# ---------------------------------------------------------------------------
def check_plumbing(ctx, rep):
    cls = ctx.classes.get(f"{BDSK}.BDSKModel")
    fn = cls.resolve('_call')[1]
    found = 0
    for c in ast.walk(fn):
        if isinstance(c, ast.Call) and len(c.keywords) >= 3:
            for kw in c.keywords:
                if kw.arg is None:
                    continue
                srcs = {self_attr(a) for a in ast.walk(kw.value) if self_attr(a)}
                local = {n.id for n in ast.walk(kw.value) if isinstance(n, ast.Name)} - {'self', 'torch', 'None'}
                # locals derived from one attribute (r = … self.removal_probability …)
                for nm in list(local):
                    for st in ast.walk(fn):
                        if isinstance(st, ast.Assign) and any(isinstance(t, ast.Name) and t.id == nm for t in st.targets):
                            srcs |= {self_attr(a) for a in ast.walk(st.value) if self_attr(a)}
                if not srcs:
                    continue
                found += 1
                rep.check('C09.K', f"BDSKModel._call::{kw.arg}", kw.arg in srcs, where(cls.module, c), {'keyword': kw.arg, 'sources': sorted(srcs)},
                          f"BDSKModel._call passes `{kw.arg}=` from self.{sorted(srcs)}: the model option `{kw.arg}` does not control what it names")
                # … the WHOLE of it: an entry picked out of the parameter's tensor on the way (`self.rho.tensor[..., -1:]`) drops the other entries (interior sampling events)
                exprs = [kw.value] + [st.value for nm in local for st in ast.walk(fn) if isinstance(st, ast.Assign) and any(isinstance(t, ast.Name) and t.id == nm for t in st.targets)]
                parts = [x for e in exprs for x in ast.walk(e) if isinstance(x, ast.Subscript) and isinstance(x.value, ast.Attribute) and x.value.attr == 'tensor'
                         and self_attr(x.value.value) == kw.arg and not (isinstance(x.slice, ast.Constant) and x.slice.value is Ellipsis)]
                if kw.arg in srcs:
                    rep.check('C09.K', f"BDSKModel._call::{kw.arg}::whole-parameter", not parts, where(cls.module, parts[0] if parts else c), {'parts': [norm_text(x)[:50] for x in parts]},
                              f"BDSKModel._call hands `{norm_text(parts[0])[:50] if parts else ''}` to the density as `{kw.arg}`: only part of the parameter reaches it, the other "
                              f"entries (sampling events at interior epoch boundaries) are silently dropped")
    if found < 5:
        raise AnalysisError('BDSKModel._call keyword plumbing not found')
    # positional rates come from the epidemiological conversion of R, delta, s in that order
    conv = ctx.prog.module(BDSK).functions.get('epidemiology_to_birth_death')
    if conv is None:
        raise AnalysisError('epidemiology_to_birth_death not found')
    # every conversion made by the model passes its four quantities: R, delta, s and the removal probability (whatever method makes the call)
    cparams = [a.arg for a in conv.args.args]
    want = {'R': 'R', 'delta': 'delta', 's': 's', 'r': 'removal_probability'}
    n_conv = 0
    for mfn in [b for b in cls.node.body if isinstance(b, ast.FunctionDef)]:
        for c in ast.walk(mfn):
            if not (isinstance(c, ast.Call) and isinstance(c.func, ast.Name) and c.func.id == 'epidemiology_to_birth_death'):
                continue
            n_conv += 1
            bound = dict(zip(cparams, c.args))
            bound.update({k.arg: k.value for k in c.keywords if k.arg})
            for pname, attr in want.items():
                if pname not in cparams:
                    continue
                v = bound.get(pname)
                srcs = set()
                if v is not None:
                    srcs = {self_attr(a) for a in ast.walk(v) if self_attr(a)}
                    for nm in {n.id for n in ast.walk(v) if isinstance(n, ast.Name)}:
                        for st in ast.walk(mfn):
                            if isinstance(st, ast.Assign) and any(isinstance(t, ast.Name) and t.id == nm for t in st.targets):
                                srcs |= {self_attr(a) for a in ast.walk(st.value) if self_attr(a)}
                rep.check('C09.K', f"BDSKModel.{mfn.name}::conversion-receives-{pname}", attr in srcs, where(cls.module, c), {'argument': ast.unparse(v) if v is not None else None, 'sources': sorted(srcs)},
                          f"BDSKModel.{mfn.name} converts (R, δ, s) to birth-death rates without handing `{pname}` from self.{attr}: "
                          + ("with a removal probability r ≠ 1 the conversion must use μ + rψ = δ; leaving r out computes ψ and μ with the r = 1 formulas while r is still "
                             "passed to the density" if pname == 'r' else f"the rates are computed from another quantity than the model's {attr}"))
    if n_conv < 1:
        raise AnalysisError('BDSKModel never calls epidemiology_to_birth_death')
    # every density the model can evaluate is configured by the WHOLE model: an alternative construction (a fast path for a special case) either receives each option the main
    # construction receives, or sits under a guard that tests it
    local_src = {}
    for st in ast.walk(fn):
        if isinstance(st, ast.Assign):
            attrs = {self_attr(a) for a in ast.walk(st.value) if self_attr(a)}
            for t in st.targets:
                for x in ast.walk(t):
                    if isinstance(x, ast.Name):
                        local_src.setdefault(x.id, set()).update(attrs)
    for _ in range(3):
        for st in ast.walk(fn):
            if isinstance(st, ast.Assign):
                more = set()
                for x in ast.walk(st.value):
                    if isinstance(x, ast.Name) and x.id in local_src:
                        more |= local_src[x.id]
                for t in st.targets:
                    for x in ast.walk(t):
                        if isinstance(x, ast.Name):
                            local_src.setdefault(x.id, set()).update(more)
    sites = []
    for c in ast.walk(fn):
        if isinstance(c, ast.Call) and isinstance(c.func, ast.Name) and c.func.id[:1].isupper() and (len(c.args) + len(c.keywords)) >= 3:
            got = set()
            for a in list(c.args) + [k.value for k in c.keywords]:
                for x in ast.walk(a):
                    if self_attr(x):
                        got.add(self_attr(x))
                    if isinstance(x, ast.Name) and x.id in local_src:
                        got |= local_src[x.id]
            p_ = getattr(c, '_parent', None)
            while p_ is not None and p_ is not fn:
                if isinstance(p_, ast.If):
                    for x in ast.walk(p_.test):
                        if self_attr(x):
                            got.add(self_attr(x))
                        if isinstance(x, ast.Name) and x.id in local_src:
                            got |= local_src[x.id]
                p_ = getattr(p_, '_parent', None)
            sites.append((c, got - {'tree_model'}))
    if not sites:
        raise AnalysisError('BDSKModel._call constructs no density')
    union = set().union(*[g for _, g in sites])
    for c, got in sites:
        missing = sorted(union - got)
        rep.check('C09.K', f"BDSKModel._call::{c.func.id}-is-configured-by-every-option-of-the-model", not missing, where(cls.module, c), {'receives_or_tests': sorted(got), 'options_of_the_model': sorted(union)},
                  f"BDSKModel._call builds a {c.func.id} that neither receives nor is guarded by a test of {missing}: for a model configured with those options this path evaluates a "
                  f"density that ignores them")
    p = [a.arg for a in conv.args.args]

    def atom(e):
        if isinstance(e, ast.Name) and e.id in p:
            return Rat.sym(e.id)
        return None
    branches = {}
    for n in ast.walk(conv):
        if isinstance(n, ast.If):
            for label, body in (('no_removal', n.body), ('removal', n.orelse)):
                env: Dict[str, Rat] = {}
                for st in body:
                    if isinstance(st, ast.Assign) and isinstance(st.targets[0], ast.Name):
                        env[st.targets[0].id] = ToRat(atom, env)(st.value)
                branches[label] = env
    R, d, s, r = (Rat.sym(x) for x in p[:4])
    ok = False
    facts = {}
    if 'no_removal' in branches and 'removal' in branches:
        a, b = branches['no_removal'], branches['removal']
        rets = [n for n in ast.walk(conv) if isinstance(n, ast.Return) and isinstance(n.value, ast.Tuple)]
        names = [e.id for e in rets[0].value.elts] if rets else []
        if len(names) == 3:
            l0, m0, s0 = (a.get(x) for x in names)
            l1, m1, s1 = (b.get(x) for x in names)
            facts = {'no_removal': {k: repr(v) for k, v in a.items()}, 'removal': {k: repr(v) for k, v in b.items()}}
            ok = all(v is not None for v in (l0, m0, s0, l1, m1, s1))
            if ok:
                # lambda = R*delta ; mu + psi = delta (total becoming-non-infectious rate) ; psi/(mu+psi) = s  (r=None)
                ok = l0.equals(R * d) and (m0 + s0).equals(d) and s0.equals(s * d)
                # with removal probability r: mu + r*psi = delta and psi*r... s = psi*r/(mu + psi*r) ... (Gavryushkina et al. 2014)
                ok = ok and l1.equals(R * d) and (m1 + r * s1).equals(d)
                # r = 1 reduces to the first branch
                ok = ok and s1.subst(p[3], 1).equals(s0) and m1.subst(p[3], 1).equals(m0)
    rep.check('C09.K', 'epidemiology_to_birth_death::identities', ok, where(ctx.prog.module(BDSK), conv), facts,
              "epidemiological re-parameterisation must satisfy λ=Rδ, μ+ψ=δ, ψ=sδ (and with removal probability r: μ+rψ=δ, reducing to the former at r=1)")


# ---------------------------------------------------------------------------
# C09.U  members used by the model classes resolve
# ---------------------------------------------------------------------------
def check_members(ctx, rep):
    n = 0
    for modname in (BDSK, BD):
        m = ctx.prog.module(modname)
        for cname in m.classes:
            ci = ctx.classes.get(f"{modname}.{cname}")
            if ci.opaque_externals():
                rep.excluded('C09.U', ci.qualname, where(m, ci.node), f"opaque external base {ci.opaque_externals()} may define members")
                continue
            members = instance_members(ci)
            for name, fn in sorted(ci.methods.items()):
                if name in ('from_json', 'json_factory'):
                    continue
                missing = sorted({self_attr(x) for x in ast.walk(fn) if self_attr(x) and isinstance(x.ctx, ast.Load)} - members)
                n += 1
                rep.check('C09.U', f"{ci.qualname}::{name}", not missing, where(m, fn), {'unresolved': missing},
                          f"{ci.name}.{name} reads self.{missing[0] if missing else ''}, which no class in the MRO defines or assigns: evaluating the model raises AttributeError")
    if n < 6:
        raise AnalysisError('model methods of bdsk/birth_death not found')


# ---------------------------------------------------------------------------
# C09.F  constant vs skyline formulas
# ---------------------------------------------------------------------------
class Strip(ast.NodeTransformer):
    """x[..., i] -> x ; x[..., i + 1].clone() -> ONE (p_{m+1} = 1) ; x.clone() -> x"""

    def visit_Subscript(self, node):
        self.generic_visit(node)
        sl = node.slice
        elts = sl.elts if isinstance(sl, ast.Tuple) else [sl]
        if any(isinstance(e, ast.BinOp) and isinstance(e.op, ast.Add) for e in elts):
            return ast.Name(id='__ONE__', ctx=ast.Load())
        return node.value

    def visit_Call(self, node):
        self.generic_visit(node)
        if isinstance(node.func, ast.Attribute) and node.func.attr == 'clone' and not node.args:
            return node.func.value
        return node


def make_translator(env: Dict[str, Rat], zero_names=()):
    atoms: Dict[str, str] = {}

    def atom(e):
        if isinstance(e, ast.Name):
            if e.id == '__ONE__':
                return Rat.const(1)
            if e.id in zero_names:
                return Rat.const(0)
            return Rat.sym(e.id)
        a = self_attr(e)
        if a:
            return Rat.sym(a)
        if isinstance(e, ast.Call):
            fn = (dotted_name(e.func) or (e.func.attr if isinstance(e.func, ast.Attribute) else '')).split('.')[-1]
            if fn in ('exp', 'sqrt', 'log') and e.args:
                inner = tr(e.args[0])
                key = f"{fn}({inner!r})"
                return Rat.sym(key)
        return None
    tr = ToRat(atom, env)
    return tr


def function_locals(fn: ast.FunctionDef, zero_names=(), strip=False):
    """evaluate straight-line local assignments (and augmented ones onto zeros/ones initialisers) into Rats."""
    env: Dict[str, Rat] = {}
    tr = make_translator(env, zero_names)
    inits: Dict[str, int] = {}

    def handle(st):
        if isinstance(st, ast.Assign) and len(st.targets) == 1:
            t = st.targets[0]
            v = st.value
            if isinstance(t, ast.Name):
                if isinstance(v, ast.Call) and (dotted_name(v.func) or '').split('.')[-1] in ('zeros_like', 'zeros'):
                    inits[t.id] = 0
                    return
                if isinstance(v, ast.Call) and (dotted_name(v.func) or '').split('.')[-1] in ('ones', 'ones_like'):
                    inits[t.id] = 1
                    return
                vv = Strip().visit(copy.deepcopy(v)) if strip else v
                try:
                    env[t.id] = tr(vv)
                except Unsupported:
                    pass
        elif isinstance(st, ast.AugAssign):
            t = st.target
            base = t.value if isinstance(t, ast.Subscript) else t
            if isinstance(base, ast.Name) and base.id in inits:
                vv = Strip().visit(copy.deepcopy(st.value)) if strip else st.value
                try:
                    val = tr(vv)
                except Unsupported:
                    return
                if isinstance(st.op, ast.Add) and inits[base.id] == 0:
                    env[base.id] = val
                elif isinstance(st.op, ast.Mult) and inits[base.id] == 1:
                    env[base.id] = val
        elif isinstance(st, (ast.For, ast.If, ast.With)):
            for b in st.body:
                handle(b)
    for st in fn.body:
        handle(st)
    return env, tr


def check_formulas(ctx, rep):
    sky = ctx.classes.get(f"{BDSK}.PiecewiseConstantBirthDeath")
    con = ctx.classes.get(f"{BD}.BirthDeath")
    # F1 log_q
    vals = {}
    for tag, ci in (('skyline', sky), ('constant', con)):
        fn = ci.methods.get('log_q')
        if fn is None:
            raise AnalysisError(f"{ci.name}.log_q not found")
        env, tr = function_locals(fn)
        ret = [n for n in ast.walk(fn) if isinstance(n, ast.Return)][0].value
        if not (isinstance(ret, ast.Call) and (dotted_name(ret.func) or '').endswith('log')):
            raise Unsupported(ret, 'log_q does not return a log')
        vals[tag] = tr(ret.args[0])
    A, B = Rat.sym('A'), Rat.sym('B')
    e = Rat.sym(f"exp({(-A * (Rat.sym('t') - Rat.sym('t_i')))!r})")
    want = Rat.const(4) * e / ((e * (1 + B) + (1 - B)) ** 2)
    for tag in ('skyline', 'constant'):
        rep.check('C09.F', f"log_q::{tag}", vals[tag].equals(want), where((sky if tag == 'skyline' else con).module, (sky if tag == 'skyline' else con).methods['log_q']),
                  {'value': repr(vals[tag])}, f"{tag} log_q is not log(4e/(e(1+B)+(1−B))²) with e=exp(−A(t−t_i))")
    rep.check('C09.F', 'log_q::siblings-agree', vals['skyline'].equals(vals['constant']), where(con.module, con.methods['log_q']), None,
              "the constant model's log_q differs from the skyline's: a single epoch cannot equal the constant model")
    # F2-F4  A, B, p
    sfn = sky.methods['log_p']
    cfn = con.methods['log_p']
    senv, _ = function_locals(sfn, strip=True)
    # constant model: time argument t of log_p is the origin, epoch start t_i = 0
    cparams = [a.arg for a in cfn.args.args]
    cenv, _ = function_locals(cfn)
    # skyline: specialise to t_i = 0 by re-evaluating with t_i as zero
    senv0, _ = function_locals(sfn, zero_names=('t_i',), strip=True)
    rets = [n for n in ast.walk(cfn) if isinstance(n, ast.Return) and isinstance(n.value, ast.Tuple)]
    sret = [n for n in ast.walk(sfn) if isinstance(n, ast.Return) and isinstance(n.value, ast.Tuple)]
    if not rets or not sret:
        raise Unsupported(cfn, 'log_p return tuple not found')
    cn = [x.id for x in rets[0].value.elts]
    sn = [x.id for x in sret[0].value.elts]
    facts = {'constant': {k: repr(cenv.get(k)) for k in cn}, 'skyline_one_epoch': {k: repr(senv0.get(k)) for k in sn}}
    lam, mu, psi, rho = (Rat.sym(x) for x in ('lambda_', 'mu', 'psi', 'rho'))
    wantA = Rat.sym(f"sqrt({((lam - mu - psi) ** 2 + 4 * lam * psi)!r})")
    for tag, env, names in (('constant', cenv, cn), ('skyline', senv0, sn)):
        a = env.get(names[1])
        rep.check('C09.F', f"A::{tag}", a is not None and a.equals(wantA), where((con if tag == 'constant' else sky).module, cfn if tag == 'constant' else sfn),
                  {'value': repr(a)}, f"{tag}: A must be sqrt((λ−μ−ψ)²+4λψ)")
    A = Rat.sym('A')

    def subA(r: Optional[Rat]):
        # replace the sqrt atom by the plain symbol A so that B and p can be compared
        if r is None:
            return None
        out = r
        for sname in list(r.symbols()):
            if sname.startswith('sqrt('):
                out = out.subst(sname, A)
        return out
    cB, sB = subA(cenv.get(cn[2])), subA(senv0.get(sn[2]))
    wantB = ((1 - 2 * (1 - rho)) * lam + mu + psi) / A
    rep.check('C09.F', 'B::constant', cB is not None and cB.equals(wantB), where(con.module, cfn), facts, "constant model: B must be ((1−2(1−ρ))λ+μ+ψ)/A")
    rep.check('C09.F', 'B::skyline-last-epoch', sB is not None and sB.equals(wantB), where(sky.module, sfn), facts,
              "skyline: with p_{m+1}=1 the last epoch's B must be ((1−2(1−ρ))λ+μ+ψ)/A (equal to the constant model)")
    cp, sp = subA(cenv.get(cn[0])), subA(senv0.get(sn[0]))
    # canonicalise the exp atom: exp(A*t) with t the time argument
    def canon(r: Optional[Rat], tname):
        if r is None:
            return None
        out = r
        for sname in list(r.symbols()):
            if sname.startswith('exp('):
                out = out.subst(sname, Rat.sym('E'))
        return out
    cpc, spc = canon(cp, cparams[1]), canon(sp, 't')
    Bs = Rat.sym('B')

    def with_B(r, Bval):
        return r
    E = Rat.sym('E')
    # p = (λ+μ+ψ − A(E(1+B) − (1−B))/(E(1+B) + (1−B)))/(2λ) with B as above
    wantp = (lam + mu + psi - A * (E * (1 + wantB) - (1 - wantB)) / (E * (1 + wantB) + (1 - wantB))) / (2 * lam)
    rep.check('C09.F', 'p::constant', cpc is not None and cpc.equals(wantp), where(con.module, cfn), {'value': repr(cpc)[:200]},
              "constant model: p0 must be (λ+μ+ψ − A(E(1+B)−(1−B))/(E(1+B)+(1−B)))/(2λ), E=exp(A·t)")
    rep.check('C09.F', 'p::skyline-last-epoch', spc is not None and spc.equals(wantp), where(sky.module, sfn), {'value': repr(spc)[:200]},
              "skyline: the last epoch's p must equal the constant model's p0")
    # exp arguments: constant exp(A*t); skyline exp(A*(t - t_i)) -> with t_i = 0 the same
    cexp = {sname for r in (cp,) if r is not None for sname in r.symbols() if sname.startswith('exp(')}
    sexp = {sname for r in (sp,) if r is not None for sname in r.symbols() if sname.startswith('exp(')}
    norm = lambda s_: s_.replace(cparams[1], 't') if len(cparams) > 1 else s_
    rep.check('C09.F', 'p::time-argument', {norm(x) for x in cexp} == sexp and len(sexp) == 1, where(con.module, cfn),
              {'constant': sorted(cexp), 'skyline_t_i=0': sorted(sexp)}, "the exponent of p differs between the models (must be A·(t − t_i))")
    # F5 BirthDeath.log_prob inlined q0 equals log_q(A,B,0,origin)
    lp = con.methods['log_prob']
    env, tr = function_locals(lp)
    q0 = env.get('q0')
    ok = False
    if q0 is not None:
        es = [s_ for s_ in q0.symbols() if s_.startswith('exp(')]
        if len(es) == 1:
            e0 = Rat.sym('e')
            q = q0.subst(es[0], e0)
            Bsym = Rat.sym('B')
            ref = (Rat.const(4) * (1 / e0)) / (((1 / e0) * (1 + Bsym) + (1 - Bsym)) ** 2)
            ok = q.equals(ref) and es[0].replace(' ', '') in (f"exp({(-Rat.sym('A') * Rat.sym('origin'))!r})".replace(' ', ''),)
    rep.check('C09.F', 'constant::q0-is-log_q-at-zero', ok, where(con.module, lp), {'q0': repr(q0)},
              "BirthDeath.log_prob's first term must equal log_q(A,B,0,origin) = 4e/((1+B)+(1−B)e)², e=exp(−A·origin)")
    # F6 sibling term inventory: which model parameters contribute a direct log term
    def log_terms(fn):
        out = set()
        for n in ast.walk(fn):
            arg = None
            if isinstance(n, ast.Call):
                f = n.func
                if (dotted_name(f) or '').split('.')[-1] == 'log' and n.args:
                    arg = n.args[0]
                elif isinstance(f, ast.Attribute) and f.attr == 'log' and not n.args:
                    arg = f.value
            if arg is not None:
                for a in ast.walk(arg):
                    if self_attr(a) in ('lambda_', 'mu', 'psi', 'rho'):
                        out.add(self_attr(a))
                    if isinstance(a, ast.Name) and a.id in ('rho', 'psi', 'lambda_', 'mu'):
                        out.add(a.id)
        return out
    st = log_terms(sky.methods['log_prob'])
    ct = log_terms(con.methods['log_prob'])
    missing = sorted((st & {'lambda_', 'psi', 'rho'}) - ct)
    rep.check('C09.F', 'log_prob::direct-log-terms-agree', not missing, where(con.module, lp), {'skyline': sorted(st), 'constant': sorted(ct)},
              f"the skyline density has a direct log({missing[0] if missing else ''}) term (each tip sampled at a ρ-sampling time contributes log ρ) "
              f"but the constant model has none: with ρ>0 the single-epoch skyline and the constant model differ by n·log ρ")
    # sibling rule: a mask on the psi (serial-sampling) term must depend on rho, as in the skyline (a tip at a sampling boundary is a rho-sample only if rho > 0 there)
    from sa.util import backward_slice, local_assignments

    def psi_masks(fn):
        defs = local_assignments(fn)
        out = []
        for n in ast.walk(fn):
            if isinstance(n, ast.BinOp) and isinstance(n.op, ast.Mult):
                for a, b in ((n.left, n.right), (n.right, n.left)):
                    has_log_psi = any(isinstance(c, ast.Call) and (dotted_name(c.func) or '').split('.')[-1] == 'log' and c.args and any(self_attr(x) == 'psi' or (isinstance(x, ast.Name) and x.id == 'psi') for x in ast.walk(c.args[0])) for c in ast.walk(a))
                    is_mask = isinstance(b, (ast.UnaryOp, ast.Compare)) or (isinstance(b, ast.Name) and any(isinstance(d, (ast.Compare, ast.UnaryOp, ast.BinOp)) for d in defs.get(b.id, [])))
                    if has_log_psi and is_mask:
                        mentions_rho = any((self_attr(x) == 'rho') or (isinstance(x, ast.Name) and x.id == 'rho') for e in backward_slice(b, defs) for x in ast.walk(e))
                        out.append((norm_text(b)[:50], mentions_rho))
        return out
    sm, cm = psi_masks(sky.methods['log_prob']), psi_masks(con.methods['log_prob'])
    rep.check('C09.F', 'log_prob::psi-term-mask-depends-on-rho', all(r for _, r in cm) and all(r for _, r in sm), where(con.module, lp), {'skyline_masks': sm, 'constant_masks': cm},
              f"the serial-sampling term log(psi) − log q is masked by {[t for t, r in cm + sm if not r]}, which does not depend on rho: a tip at the sampling boundary is a rho-sample "
              f"only where rho > 0 (as the skyline decides it); with rho = 0 such tips lose their psi term and gain nothing")



def _data_keys_in(ctx, module, e, data):
    keys = []
    for x in ast.walk(e):
        if isinstance(x, ast.Subscript) and isinstance(x.value, ast.Name) and x.value.id == data:
            k = const_key(ctx, module, x.slice)
            if k:
                keys.append(k)
        if isinstance(x, ast.Call) and isinstance(x.func, ast.Attribute) and x.func.attr == 'get' and isinstance(x.func.value, ast.Name) and x.func.value.id == data and x.args:
            k = const_key(ctx, module, x.args[0])
            if k:
                keys.append(k)
    return keys


def check_positional_options(ctx, rep, rule='C09.O', only=None):
    """a JSON option handed to the constructor *by position* (directly, or through a module-level helper that forwards `*options`) must land on the
    constructor parameter of the same name"""
    n = 0
    for ci, fn in all_from_json(ctx):
        if only is not None and not only(ci):
            continue
        params = [a.arg for a in fn.args.args]
        if len(params) < 2:
            continue
        data = params[1]
        init = ci.resolve('__init__')
        if init is None:
            continue
        ctor = [a.arg for a in init[1].args.args][1:]
        calls = []   # (call node, list of positional expressions in constructor order, module)
        for c in ast.walk(fn):
            if not isinstance(c, ast.Call):
                continue
            if isinstance(c.func, ast.Name) and c.func.id == 'cls' and not any(isinstance(a, ast.Starred) for a in c.args):
                calls.append((c, list(c.args)))
            elif isinstance(c.func, ast.Name) and c.func.id in ci.module.functions and c.args and isinstance(c.args[0], ast.Name) and c.args[0].id == 'cls':
                h = ci.module.functions[c.func.id]
                hp = [a.arg for a in h.args.args]
                var = h.args.vararg.arg if h.args.vararg else None
                extra = list(c.args[len(hp):]) if var else []
                for hc in ast.walk(h):
                    if isinstance(hc, ast.Call) and isinstance(hc.func, ast.Name) and hc.func.id == hp[0]:
                        pos = []
                        for a in hc.args:
                            if isinstance(a, ast.Starred) and isinstance(a.value, ast.Name) and a.value.id == var:
                                pos += extra
                            else:
                                pos.append(None)        # computed inside the helper: not an option forwarded by position from this from_json
                        calls.append((c, pos))
        for c, pos in calls:
            for i, a in enumerate(pos):
                if a is None or i >= len(ctor):
                    continue
                # only options with a literal default (`data.get('flag', False)`): for those the key is the option's documented name
                if not (isinstance(a, ast.Call) and isinstance(a.func, ast.Attribute) and a.func.attr == 'get' and len(a.args) == 2 and isinstance(a.args[1], ast.Constant)):
                    continue
                keys = _data_keys_in(ctx, ci.module, a, data)
                if len(keys) != 1:
                    continue
                n += 1
                k, p_ = keys[0], ctor[i]
                norm = lambda z: z.strip('_').lower()
                ok = norm(k) == norm(p_) or norm(p_) in norm(k) or norm(k) in norm(p_)
                rep.check(rule, f"{ci.qualname}::positional::{k}", ok, where(ci.module, c), {'json_key': k, 'constructor_parameter': p_, 'position': i},
                          f"{ci.name}.from_json hands data['{k}'] to the constructor by position, where it lands on the parameter `{p_}`: the option '{k}' switches on `{p_}`")
    return n


BD_MODULES = ('torchtree.evolution.bdsk', 'torchtree.evolution.birth_death')


def check_purity(ctx, rep):
    from sa.purity import check_alias_mutation
    n = check_alias_mutation(ctx, rep, 'C09.P', lambda m, c, f: m.name in BD_MODULES and f.name not in ('__init__', 'from_json'))
    if n < 10:
        raise AnalysisError(f"only {n} in-place updates found in the birth-death modules")


def check_snapshots(ctx, rep, rule='C09.P', modules=None, floor=3):
    """C09.P — a model must read its parameters when it is evaluated: a value taken from `<parameter>.tensor` in the constructor (directly or through a helper function of
    the module that returns `<its argument>.tensor`) and used by _call is frozen"""
    n = 0
    for mn in (modules or BD_MODULES):
        m = ctx.prog.module(mn)
        takers = {fname for fname, f in m.functions.items() if any(isinstance(r, ast.Return) and r.value is not None and any(
            isinstance(x, ast.Attribute) and x.attr == 'tensor' and isinstance(x.value, ast.Name) and x.value.id in {a.arg for a in f.args.args} for x in ast.walk(r.value))
            for r in ast.walk(f))}
        for cname, cnode in m.classes.items():
            init = next((b for b in cnode.body if isinstance(b, ast.FunctionDef) and b.name == '__init__'), None)
            if init is None:
                continue
            n += 1
            others = [b for b in cnode.body if isinstance(b, ast.FunctionDef) and b.name != '__init__']
            # methods of the class that hand back (a view of) a parameter's current tensor
            own_takers = {b.name for b in others if any(isinstance(r, ast.Return) and r.value is not None and any(
                isinstance(x, ast.Attribute) and x.attr == 'tensor' and self_attr(x.value) for x in ast.walk(r.value)) for r in ast.walk(b))}
            for st in ast.walk(init):
                if not (isinstance(st, ast.Assign) and any(self_attr(t) for t in st.targets)):
                    continue
                def value_read(x):
                    # `.tensor` handed to ones_like / zeros_like / … or asked for its shape / dtype / device gives the layout, not the value
                    par = getattr(x, '_parent', None)
                    if isinstance(par, ast.Attribute) and par.attr in ('shape', 'dtype', 'device', 'ndim'):
                        return False
                    if isinstance(par, ast.Call) and (dotted_name(par.func) or '').split('.')[-1] in ('ones_like', 'zeros_like', 'empty_like', 'full_like', 'rand_like', 'randn_like') \
                            and par.args and par.args[0] is x:
                        return False
                    return True
                reads_tensor = [x for x in ast.walk(st.value) if (isinstance(x, ast.Attribute) and x.attr == 'tensor' and value_read(x))
                                or (isinstance(x, ast.Call) and isinstance(x.func, ast.Name) and x.func.id in takers)
                                or (isinstance(x, ast.Call) and self_attr(x.func) in own_takers)]
                if not reads_tensor:
                    continue
                attr = next(self_attr(t) for t in st.targets if self_attr(t))
                used = any(self_attr(x) == attr and isinstance(x.ctx, ast.Load) for f in others for x in ast.walk(f))
                rep.check(rule, f"{cname}.__init__::self.{attr}-is-not-a-snapshot-of-a-parameter", not used, where(m, st), {'value': norm_text(st.value)[:80]},
                          f"{cname}.__init__ stores `{norm_text(st.value)[:60]}` (the parameter's value at construction time) in self.{attr}, which the evaluation methods use: "
                          f"after the parameter is updated the model keeps computing with the old value")
    if n < floor:
        raise AnalysisError(f'only {n} constructors found in {modules or BD_MODULES}')
    rep.ok(rule, 'constructors::no-parameter-snapshots', '', {'constructors': n})


def check_rho_alignment(ctx, rep):
    """C09.R — sampling at present is the *last* epoch: wherever rho is padded to one entry per epoch the zeros come first"""
    n = 0
    for mn in BD_MODULES:
        m = ctx.prog.module(mn)
        for c in ast.walk(m.tree):
            if not isinstance(c, ast.Call):
                continue
            name = method_name(c) if 'method_name' in globals() else (c.func.attr if isinstance(c.func, ast.Attribute) else getattr(c.func, 'id', ''))
            fn = c
            while fn is not None and not isinstance(fn, ast.FunctionDef):
                fn = getattr(fn, '_parent', None)
            where_ = f"{mn.split('.')[-1]}.{fn.name if fn else '?'}"
            if name == 'cat' and c.args and isinstance(c.args[0], (ast.Tuple, ast.List)):
                parts = c.args[0].elts
                kinds = ['zeros' if (isinstance(p_, ast.Call) and (p_.func.attr if isinstance(p_.func, ast.Attribute) else getattr(p_.func, 'id', '')) in ('zeros', 'zeros_like'))
                         else ('rho' if 'rho' in ast.unparse(p_) else 'other') for p_ in parts]
                if 'rho' in kinds and 'zeros' in kinds and len(parts) == 2:
                    n += 1
                    rep.check('C09.R', f"{where_}::rho-padded-with-leading-zeros", kinds == ['zeros', 'rho'], where(m, c), {'parts': kinds},
                              f"{where_}: rho is padded as {kinds}: the single sampling probability must stay the last entry (sampling at present closes the youngest epoch), "
                              f"the older epochs get rho = 0")
            elif name == 'pad' and c.args and 'rho' in ast.unparse(c.args[0]):
                n += 1
                padv = c.args[1] if len(c.args) > 1 else None
                lead = isinstance(padv, (ast.Tuple, ast.List)) and len(padv.elts) >= 2 and isinstance(padv.elts[1], ast.Constant) and padv.elts[1].value == 0
                rep.check('C09.R', f"{where_}::rho-padded-with-leading-zeros", lead, where(m, c), {'pad': ast.unparse(padv) if padv is not None else None},
                          f"{where_}: `{norm_text(c)[:70]}` appends zeros after rho: the sampling probability moves from the present to the oldest epoch boundary")
    if n < 2:
        raise AnalysisError(f"only {n} rho paddings found")


def method_name(call) -> str:
    return (dotted_name(call.func) or (call.func.attr if isinstance(call.func, ast.Attribute) else '')).split('.')[-1]


def check_tie_convention(ctx, rep):
    """C09.B — a birth that falls exactly on an epoch boundary t_i is assigned to an epoch by `searchsorted(times, x, right=…)` and is counted (or not) among the lineages
    that cross t_i by a comparison `x < t_i` / `x <= t_i`.  The two decide the same question and must agree: right=True puts the birth into the epoch that *starts* at t_i, so
    it has not happened before t_i and the count must be strict; with right=False the count must be non-strict.  Disagreement counts the same event on both sides of
    the boundary, so splitting an epoch at a node time changes the density."""
    cls = ctx.classes.get('torchtree.evolution.bdsk.PiecewiseConstantBirthDeath')
    fn = cls.resolve('log_prob')[1]
    m = cls.module
    W = where(m, fn)
    # the variable whose epoch index looks lambda up: the births
    births = None
    for st in ast.walk(fn):
        if isinstance(st, ast.Assign) and len(st.targets) == 1 and isinstance(st.targets[0], ast.Name):
            for c in ast.walk(st.value):
                if isinstance(c, ast.Call) and method_name(c) in ('searchsorted', 'bucketize') and len(c.args) >= 2 and isinstance(c.args[1 if method_name(c) == 'searchsorted' else 0], ast.Name):
                    idx_name = st.targets[0].id
                    var = c.args[1 if method_name(c) == 'searchsorted' else 0].id
                    right = any(k.arg == 'right' and isinstance(k.value, ast.Constant) and k.value.value is True for k in c.keywords)
                    uses_lambda = any(isinstance(g, ast.Call) and method_name(g) == 'gather' and 'lambda_' in ast.unparse(g.func) and any(isinstance(x, ast.Name) and x.id == idx_name for x in ast.walk(g))
                                      for g in ast.walk(fn))
                    if uses_lambda:
                        births = (var, right, c)
    if births is None:
        rep.undecided('C09.B', 'PiecewiseConstantBirthDeath.log_prob::births-on-a-boundary', W, 'epoch index of the births (searchsorted whose result gathers lambda_) not found')
        return
    var, right, call = births
    cmps = []
    for c in ast.walk(fn):
        if isinstance(c, ast.Compare) and len(c.ops) == 1 and isinstance(c.ops[0], (ast.Lt, ast.LtE, ast.Gt, ast.GtE)):
            left_has = any(isinstance(x, ast.Name) and x.id == var for x in ast.walk(c.left))
            right_has = any(isinstance(x, ast.Name) and x.id == var for x in ast.walk(c.comparators[0]))
            other = c.comparators[0] if left_has else c.left
            if (left_has != right_has) and any('times' in ast.unparse(e_) for e_ in backward_slice(other, local_assignments(fn))):
                op = c.ops[0]
                # normalise to `var OP boundary`
                if right_has:
                    op = {ast.Lt: ast.Gt, ast.LtE: ast.GtE, ast.Gt: ast.Lt, ast.GtE: ast.LtE}[type(op)]()
                cmps.append((c, op))
    if not cmps:
        rep.undecided('C09.B', 'PiecewiseConstantBirthDeath.log_prob::births-on-a-boundary', W, f"no comparison of `{var}` with the epoch boundaries found")
        return
    for k, (c, op) in enumerate(cmps):
        strict = isinstance(op, (ast.Lt, ast.Gt))
        before = isinstance(op, (ast.Lt, ast.LtE))
        ok = before and (strict == right)
        rep.check('C09.B', f"PiecewiseConstantBirthDeath.log_prob::births-on-a-boundary#{k}", ok, where(m, c),
                  {'epoch_index': norm_text(call)[:60], 'right': right, 'count': norm_text(c)[:60]},
                  f"births are put into epochs with `{norm_text(call)[:50]}` (a birth exactly at t_i belongs to the epoch that {'starts' if right else 'ends'} at t_i) but counted "
                  f"across the boundary with `{norm_text(c)[:50]}`: the two conventions disagree for a node exactly on a boundary, so refining the epochs at a node time changes the density")


def check_tip_terms_are_masked(ctx, rep):
    """C09.I (addition) — in the block of PiecewiseConstantBirthDeath.log_prob that classifies the tips (`is_rho_tip = …`), every term that is summed over the tips into the
    density — a term built from values gathered at the tips' epochs — carries the classification: psi-sampling factors (ψ, 1/q, the removal factor r + (1 − r)·p₀) belong to
    the tips that are NOT rho-sampled.  A term without the mask is also paid by the tips sampled at a rho event."""
    from sa.util import backward_slice, local_assignments
    m = ctx.prog.module(BDSK)
    cls = m.classes.get('PiecewiseConstantBirthDeath')
    fn = next((b for b in cls.body if isinstance(b, ast.FunctionDef) and b.name == 'log_prob'), None) if cls is not None else None
    if fn is None:
        raise AnalysisError('PiecewiseConstantBirthDeath.log_prob not found')
    defs = local_assignments(fn)
    blocks = [n for n in ast.walk(fn) if isinstance(n, ast.If) and any(isinstance(st, ast.Assign) and any(isinstance(t, ast.Name) and t.id == 'is_rho_tip' for t in st.targets) for st in n.body)]
    if len(blocks) != 1:
        rep.undecided('C09.I', 'PiecewiseConstantBirthDeath.log_prob::tip-terms-carry-the-classification', where(m, fn), f"{len(blocks)} blocks defining is_rho_tip")
        return
    idx = {t.id for st in ast.walk(blocks[0]) if isinstance(st, ast.Assign) and any('searchsorted' in ast.unparse(x) or 'bucketize' in ast.unparse(x) for x in [st.value])
           for t in st.targets if isinstance(t, ast.Name)}
    n, bad = 0, []
    for st in ast.walk(blocks[0]):
        if isinstance(st, ast.AugAssign) and isinstance(st.target, ast.Name) and isinstance(st.op, ast.Add):
            names = {x.id for e in backward_slice(st.value, {k: v for k, v in defs.items() if k != st.target.id}) for x in ast.walk(e) if isinstance(x, ast.Name)}
            if names & idx:
                n += 1
                if 'is_rho_tip' not in names:
                    bad.append(st)
    if n < 1:
        rep.undecided('C09.I', 'PiecewiseConstantBirthDeath.log_prob::tip-terms-carry-the-classification', where(m, blocks[0]), 'no per-tip term found in the block that classifies the tips')
        return
    rep.check('C09.I', 'PiecewiseConstantBirthDeath.log_prob::tip-terms-carry-the-classification', not bad, where(m, bad[0] if bad else blocks[0]), {'per_tip_terms': n},
              f"`{norm_text(bad[0])[:70] if bad else ''}` adds a term gathered at the tips' epochs without the rho / psi classification of the tips: tips sampled at a rho event pay the "
              f"psi-sampling factor as well (with a removal probability below one the density of a tree with a tip at the present is off by log(r + (1 − r)·p₀) per such tip)")


def check_constraints_agree(ctx, rep):
    """C09.F (addition) — the constant and the skyline model declare the same domain for the parameters they share (`arg_constraints`): the single-epoch skyline must accept
    every value the constant model accepts (complete sampling at the present, rho = 1, included)."""
    tables = {}
    for mn, cn in ((BDSK, 'PiecewiseConstantBirthDeath'), (BD, 'BirthDeath')):
        m = ctx.prog.module(mn)
        c = m.classes.get(cn)
        tb = None
        for st in (c.body if c is not None else []):
            if isinstance(st, ast.Assign) and any(isinstance(t, ast.Name) and t.id == 'arg_constraints' for t in st.targets) and isinstance(st.value, ast.Dict):
                tb = {k.value: v for k, v in zip(st.value.keys, st.value.values) if isinstance(k, ast.Constant)}
        if tb is None:
            rep.undecided('C09.F', 'arg_constraints::siblings-agree', '', f"arg_constraints of {cn} not found")
            return
        tables[cn] = (m, tb)

    def norm(e):
        t = ast.unparse(e).replace(' ', '').replace('constraints.', '')
        return {'greater_than_eq(0.0)': 'nonnegative', 'greater_than_eq(0)': 'nonnegative', 'greater_than(0.0)': 'positive', 'greater_than(0)': 'positive',
                'interval(0.0,1.0)': 'unit_interval'}.get(t, t)
    (m1, a), (m2, b) = tables['PiecewiseConstantBirthDeath'], tables['BirthDeath']
    for k in sorted(set(a) & set(b)):
        rep.check('C09.F', f"arg_constraints::{k}::siblings-agree", norm(a[k]) == norm(b[k]), where(m1, a[k]), {'skyline': norm(a[k]), 'constant': norm(b[k])},
                  f"the skyline model declares `{k}` in {norm(a[k])}, the constant model in {norm(b[k])}: a value one of them accepts (rho = 1: complete sampling at the present) is "
                  f"rejected by the other, so the single-epoch skyline cannot be compared with — or substituted for — the constant model there")


def check_rho_tip_alignment(ctx, rep):
    """C09.I — which sampling probability decides that a tip on an epoch boundary is rho-sampled.  rho is laid out one entry per epoch, entry j belonging to the boundary that
    *ends* epoch j (times[j+1]; C09.R keeps the present last).  For a tip exactly on boundary k (k = 1 … m) the index expression handed to rho.gather in the definition of
    `is_rho_tip` is evaluated in an abstract index domain — searchsorted(times, times[k], right=True) = k + 1, right=False = k; clamp; ± constants; m — for m = 2, 3, 4 and
    must be k − 1, separately for inner boundaries (k < m) and for the present (k = m)."""
    cls = ctx.classes.get('torchtree.evolution.bdsk.PiecewiseConstantBirthDeath')
    fn = cls.resolve('log_prob')[1]
    mod = cls.module
    defs = local_assignments(fn)
    target = None
    for st in ast.walk(fn):
        if isinstance(st, ast.Assign) and isinstance(st.targets[0], ast.Name) and st.targets[0].id == 'is_rho_tip':
            target = st
    if target is None:
        rep.undecided('C09.I', 'PiecewiseConstantBirthDeath.log_prob::rho-of-a-tip-on-a-boundary', where(mod, fn), '`is_rho_tip` not found')
        return
    gathers = []
    for e in backward_slice(target.value, {k: v for k, v in defs.items() if k not in ('rho', 'times', 'y', 'indices_y')}):
        for c in ast.walk(e):
            if isinstance(c, ast.Call) and method_name(c) == 'gather' and isinstance(c.func, ast.Attribute) and isinstance(c.func.value, ast.Name) and c.func.value.id == 'rho' and len(c.args) == 2:
                gathers.append(c)
    if len(gathers) != 1:
        rep.undecided('C09.I', 'PiecewiseConstantBirthDeath.log_prob::rho-of-a-tip-on-a-boundary', where(mod, target), f"{len(gathers)} lookups of rho in the definition of is_rho_tip")
        return
    idx = gathers[0].args[1]

    def ev(e, m, k, depth=0):
        if depth > 8:
            raise Unsupported(e, 'definition chain too deep')
        if isinstance(e, ast.Constant) and isinstance(e.value, int):
            return e.value
        if isinstance(e, ast.Name):
            if e.id == 'm':
                return m
            ds = defs.get(e.id, [])
            if len(ds) == 1:
                return ev(ds[0], m, k, depth + 1)
            raise Unsupported(e, f"{e.id} has {len(ds)} definitions")
        if isinstance(e, ast.BinOp) and isinstance(e.op, (ast.Add, ast.Sub)):
            a, b = ev(e.left, m, k, depth + 1), ev(e.right, m, k, depth + 1)
            return a + b if isinstance(e.op, ast.Add) else a - b
        if isinstance(e, ast.Call) and method_name(e) in ('clamp', 'clip'):
            torch_fn = isinstance(e.func.value, ast.Name) and e.func.value.id == 'torch'
            v = ev(e.args[0] if torch_fn else e.func.value, m, k, depth + 1)
            rest = e.args[1:] if torch_fn else e.args
            lo = next((kw.value for kw in e.keywords if kw.arg == 'min'), rest[0] if len(rest) > 0 else None)
            hi = next((kw.value for kw in e.keywords if kw.arg == 'max'), rest[1] if len(rest) > 1 else None)
            if lo is not None and not (isinstance(lo, ast.Constant) and lo.value is None):
                v = max(v, ev(lo, m, k, depth + 1))
            if hi is not None and not (isinstance(hi, ast.Constant) and hi.value is None):
                v = min(v, ev(hi, m, k, depth + 1))
            return v
        if isinstance(e, ast.Call) and method_name(e) in ('searchsorted', 'bucketize'):
            ss = method_name(e) == 'searchsorted'
            grid, val = (e.args[0], e.args[1]) if ss else (e.args[1], e.args[0])
            if not (isinstance(grid, ast.Name) and grid.id == 'times' and isinstance(val, ast.Name) and val.id == 'y'):
                raise Unsupported(e, 'search that is not (times, y)')
            right = any(kw.arg == 'right' and isinstance(kw.value, ast.Constant) and kw.value.value is True for kw in e.keywords)
            return k + 1 if right else k
        raise Unsupported(e, f"index expression {ast.unparse(e)[:40]}")
    for label, ks in (('inner-boundary', lambda m: range(1, m)), ('present', lambda m: [m])):
        wrong = []
        try:
            for m in (2, 3, 4):
                for k in ks(m):
                    got = ev(idx, m, k)
                    if got != k - 1:
                        wrong.append((m, k, got))
        except Unsupported as u:
            rep.undecided('C09.I', f"PiecewiseConstantBirthDeath.log_prob::rho-of-a-tip-on-a-boundary::{label}", where(mod, target), str(u))
            continue
        rep.check('C09.I', f"PiecewiseConstantBirthDeath.log_prob::rho-of-a-tip-on-a-boundary::{label}", not wrong, where(mod, gathers[0]),
                  {'index': norm_text(idx)[:80], 'first_mismatch (m, boundary, index read)': wrong[:1]},
                  f"for a tip exactly on {'an inner epoch boundary' if label.startswith('inner') else 'the present'} (boundary k of m) `is_rho_tip` reads rho[{norm_text(idx)[:40]}] = "
                  f"rho[{wrong[0][2] if wrong else '?'}] for (m, k) = {wrong[0][:2] if wrong else '?'}, but the sampling probability of boundary k is rho[k − 1]: the tip is classified with "
                  f"the sampling probability of another event (rho-sampled tips taken for psi-sampled ones or the reverse)")


def check_exact_comparisons(ctx, rep):
    """C09.E — rho-sampled tips are recognised by *exact* equality of their time with an epoch boundary (`times == y`).  Exact equality only works when both sides were computed
    from the same floating-point numbers: the event times x, y must be measured from the last grid point itself, `times[..., -1:] − height`, not from a separately computed
    origin (the grid built from origin / m by cumsum ends one ulp away from the origin for many (m, origin))."""
    cls = ctx.classes.get('torchtree.evolution.bdsk.PiecewiseConstantBirthDeath')
    fn = cls.resolve('log_prob')[1]
    mod = cls.module
    defs = local_assignments(fn)
    compared = set()
    for c in ast.walk(fn):
        if isinstance(c, ast.Compare) and len(c.ops) == 1 and isinstance(c.ops[0], ast.Eq):
            sides = [c.left, c.comparators[0]]
            txt = [ast.unparse(x) for x in sides]
            if any('times' in t for t in txt):
                for x, t in zip(sides, txt):
                    if 'times' not in t:
                        for n in ast.walk(x):
                            if isinstance(n, ast.Name) and n.id in defs and n.id not in ('torch',):
                                compared.add(n.id)
    # a tolerant comparison (isclose / allclose / |a − b| < eps) between event times and the epoch boundaries calls a psi-sampled tip that lies NEAR a rho event rho-sampled
    tolerant = [c for c in ast.walk(fn) if isinstance(c, ast.Call) and (dotted_name(c.func) or '').split('.')[-1] in ('isclose', 'allclose')
                and any('times' in ast.unparse(a) for a in c.args[:2])]
    for c in tolerant:
        rep.bad('C09.E', f"PiecewiseConstantBirthDeath.log_prob::tip-on-an-event-is-an-exact-test::{norm_text(c)[:50]}", where(mod, c), {'comparison': norm_text(c)[:100]},
                f"`{norm_text(c)[:70]}` decides with a tolerance whether a tip sits on a sampling event: a tip sampled shortly before or after the event (a height within "
                f"1e-8 + 1e-5·t of it) is counted as rho-sampled — it gets log rho instead of log psi and is removed from the lineages crossing the boundary")
    if not compared and tolerant:
        return
    if not compared:
        rep.undecided('C09.E', 'PiecewiseConstantBirthDeath.log_prob::exact-comparisons', where(mod, fn), 'no `times == <event time>` comparison found')
        return
    for v in sorted(compared):
        ds = defs.get(v, [])
        ok = bool(ds)
        for d in ds:
            good = isinstance(d, ast.BinOp) and isinstance(d.op, ast.Sub) and isinstance(d.left, ast.Subscript) and isinstance(d.left.value, ast.Name) and d.left.value.id == 'times' \
                and ast.unparse(d.left.slice).replace(' ', '') in ('(...,slice(-1,None,None))', '...,-1:', '(Ellipsis,slice(-1,None,None))')
            if not good:
                good = isinstance(d, ast.BinOp) and isinstance(d.op, ast.Sub) and ast.unparse(d.left).replace(' ', '') == 'times[...,-1:]'
            ok = ok and good
        rep.check('C09.E', f"PiecewiseConstantBirthDeath.log_prob::{v}-measured-from-the-last-grid-point", ok, where(mod, ds[0]) if ds else where(mod, fn),
                  {'definitions': [norm_text(d)[:60] for d in ds]},
                  f"`{v}` is compared for exact equality with the epoch boundaries but is computed as `{norm_text(ds[0])[:50] if ds else '?'}`, not from `times[..., -1:]`: when the grid "
                  f"is generated from the origin its last point can differ from the origin by one ulp, the equality then fails and rho-sampled tips at the present are treated as "
                  f"psi-sampled (the n·log rho term is lost)")


def run(ctx, rep):
    from sa import callbind
    callbind.run_for(ctx, rep, 'C09', 5)
    from sa import axes
    rep.rule('C09.A', "no element-wise operation in the birth-death densities combines a value that keeps the trailing axis ([S, 1]: origin, rates) with one that dropped it ([S]: an indexed height)")
    axes.check_event_axes(ctx, rep, 'C09.A', ['torchtree.evolution.bdsk', 'torchtree.evolution.birth_death'], 12)
    from props import c10
    from sa.report import RuleProxy
    nb = c10.check_whole_reductions(ctx, RuleProxy(rep, 'C09.A', 'reductions::'), only=lambda mname: mname in ('torchtree.evolution.bdsk', 'torchtree.evolution.birth_death'))
    rep.ok('C09.A', 'reductions::birth-death::scanned', '', {'reductions_without_axis_classified': nb})
    c10.check_first_sample_rows(ctx, RuleProxy(rep, 'C09.A', 'rows::'), rule='C09.A', only=lambda mname: mname in ('torchtree.evolution.bdsk', 'torchtree.evolution.birth_death'))
    from sa import dtypes
    rep.rule('C09.T', "times / dates given as Python numbers enter the computation at the requested precision: a tensor built from them without a dtype (torch's default float32) is neither computed with nor converted afterwards")
    dtypes.check_default_precision(ctx, rep, 'C09.T', ['torchtree.evolution.bdsk', 'torchtree.evolution.birth_death'], 1)
    if dtypes.check_work_buffers(ctx, rep, 'C09.T', ['torchtree.evolution.bdsk', 'torchtree.evolution.birth_death']) < 1:
        rep.incomplete('C09.T', 'buffers', '', 'no work-array allocation found in the birth-death modules (the extinction probabilities p of the skyline recursion expected)')
    rep.explanation = (
        "JSON option plumbing of every from_json (an option stored for the constructor is read from the key of the same name), "
        "keyword plumbing and the epidemiological re-parameterisation as polynomial identities, member resolution of the model "
        "classes, and formula-level agreement of the constant and skyline birth-death densities: log_q, A, the last-epoch B and p, "
        "and the inlined first term, compared as rational functions over opaque exp/sqrt atoms; plus a sibling inventory of the "
        "direct log terms of the two log_prob implementations."
    )
    rep.rule('C09.S', "no from_json of the birth-death modules changes class-level state (defaults shared by later specifications)")
    from sa import purity
    ns_ = purity.check_class_state(ctx, rep, 'C09.S', only=lambda m: m.name in BD_MODULES)
    if ns_ < 2:
        rep.incomplete('C09.S', '*', '', f"only {ns_} classmethods found in the birth-death modules")
    rep.rule('C09.H', "the birth-death models invalidate what they keep when any of their parameters changes (C11.H handler rules and C11.M memo rules on the birth-death modules)")
    from props import c11 as _c11
    from sa.members import Kinds as _Kinds
    from sa.report import RuleProxy as _RP2
    _kinds = _Kinds(ctx.classes)
    _nh = 0
    for _cls in sorted(ctx.classes.classes.values(), key=lambda c: c.qualname):
        if _cls.module.name in BD_MODULES and not _cls.is_abstract() and _cls.has_base('torchtree.core.parametric.Parametric'):
            _nh += 1
            _c11.check_handlers(ctx, _RP2(rep, 'C09.H', 'handlers::'), _kinds, _cls)
    _c11.check_memo_keys(ctx, _RP2(rep, 'C09.H', 'memo::'), only=lambda m_: m_.name in BD_MODULES)
    if _nh < 2:
        rep.incomplete('C09.H', '*', '', f"only {_nh} birth-death model classes found")
    rep.rule('C09.O', "a constructor option filled in a from_json is read from the JSON key of the same name; options passed are declared by the constructor")
    rep.rule('C09.K', "BDSKModel._call passes each keyword from the attribute of the same name; epidemiological conversion satisfies λ=Rδ, μ+ψ=δ, ψ=sδ (r: μ+rψ=δ)")
    rep.rule('C09.U', "every self.<member> read by the birth-death model classes resolves")
    rep.rule('C09.F', "constant and skyline models agree on log_q, A, last-epoch B and p, the first term, and on which parameters contribute direct log terms")
    rep.rule('C09.P', "evaluation is pure: no in-place update of a name that may alias stored state or an argument; no constructor snapshot of a parameter value used at evaluation")
    rep.rule('C09.B', "the side on which a birth exactly at an epoch boundary falls is the same for its epoch index (searchsorted right=…) and for the count of lineages crossing the boundary (< / <=)")
    rep.rule('C09.I', "a tip exactly on epoch boundary k is classified as rho-sampled with the sampling probability of that boundary, rho[k-1] (index expression evaluated in an abstract index domain for m = 2..4)")
    rep.rule('C09.E', "event times that are compared for exact equality with the epoch boundaries are measured from the last grid point itself")
    rep.rule('C09.R', "rho padded to one entry per epoch keeps the sampling probability last (zeros first)")
    rep.not_decided += ["epoch-refinement invariance", "boundary coincidences", "agreement with the master equations numerically"]
    for f, rule in ((check_options, 'C09.O'), (check_positional_options, 'C09.O'), (check_plumbing, 'C09.K'), (check_members, 'C09.U'), (check_formulas, 'C09.F'), (check_purity, 'C09.P'),
                    (check_snapshots, 'C09.P'), (check_tip_terms_are_masked, 'C09.I'), (check_constraints_agree, 'C09.F'), (check_rho_alignment, 'C09.R'), (check_tie_convention, 'C09.B'), (check_rho_tip_alignment, 'C09.I'), (check_exact_comparisons, 'C09.E')):
        try:
            f(ctx, rep)
        except Unsupported as u:
            rep.undecided(rule, f.__name__, f"line {getattr(u.node, 'lineno', 0)}", str(u))
