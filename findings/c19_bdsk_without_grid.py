"""C19 (fixed): `--birth-death bdsk` without `--grid` was accepted and emitted parameters with "full": [null]; torchtree stops in torch.full when loading the file.
check_arguments now requires --grid with bdsk.
Run: PYTHONPATH=<tree> /venv/bin/python findings/c19_bdsk_without_grid.py   (exit 1 = defect present)"""
import os, subprocess, sys, tempfile
REPO = os.environ.get('PYTHONPATH', '/repo').split(':')[0]
cmd = [sys.executable, '-c', 'from torchtree.cli.cli import main; main()', 'advi', '-i', f'{REPO}/data/fluA.fa', '-t', f'{REPO}/data/fluA.tree', '--clock', 'strict',
       '--birth-death', 'bdsk', '--iter', '1', '--samples', '1']
r = subprocess.run(cmd, capture_output=True, text=True)
if r.returncode != 0:
    print('rejected by the CLI:', r.stderr.strip().splitlines()[-1][:120])
    print('OK')
    sys.exit(0)
print('configuration emitted; sizes written as null:', r.stdout.count('null'))
with tempfile.NamedTemporaryFile('w', suffix='.json', delete=False) as fp:
    fp.write(r.stdout)
run = subprocess.run([sys.executable, '-c', 'from torchtree.torchtree import main; main()', fp.name], capture_output=True, text=True, cwd=tempfile.gettempdir())
os.unlink(fp.name)
err = [l for l in run.stderr.splitlines() if 'Error' in l]
print('torchtree:', err[-1][:140] if err else 'runs')
sys.exit(1 if err or run.returncode else 0)
