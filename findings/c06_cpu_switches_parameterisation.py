"""C06.D: ReparameterizedTimeTreeModel.cpu()/cuda() always installed GeneralNodeHeightTransform: a model built with
height increments (shifts) was silently re-interpreted as ratios/root-height after a device move."""
import torch
from torchtree.core.utils import process_object
import torchtree.evolution.tree_model, torchtree.evolution.taxa
spec = {'id': 'tree', 'type': 'ReparameterizedTimeTreeModel', 'newick': '((A:1,B:1):1,C:2);',
        'taxa': {'id': 'taxa', 'type': 'Taxa', 'taxa': [{'id': t, 'type': 'Taxon', 'attributes': {'date': 0.0}} for t in 'ABC']},
        'shifts': {'id': 'shifts', 'type': 'Parameter', 'tensor': [0.6, 0.7]}}
tree = process_object(spec, {})
before = tree.node_heights.clone()
kind_before = type(tree.transform).__name__
tree.cpu()
tree.handle_parameter_changed(None, None, None)
after = tree.node_heights
print(kind_before, '->', type(tree.transform).__name__, before.tolist(), '->', after.tolist())
ok = type(tree.transform).__name__ == kind_before and torch.allclose(before, after)
print('OK' if ok else 'FAIL: cpu() changed the parameterisation in force')
raise SystemExit(0 if ok else 1)
