from sa.selftest import Mut

SM = 'torchtree/evolution/site_model.py'

def T(id, old, new, expect=None, benign=False):
    return Mut(id, SM, '', old, new, expect=expect, benign=benign, mode='text')

CORPUS = [
    T('c05-invariant-rate', "                1.0 / (1.0 - invariant),\n", "                1.0 / invariant,\n", expect=[('C05.I', 'InvariantSiteModel::mean-rate-is-one')]),
    T('c05-invariant-rate-unscaled', "                1.0 / (1.0 - invariant),\n", "                torch.ones_like(invariant),\n", expect=[]),
    T('c05-invariant-prob-swapped', "        self._probabilities = torch.cat((invariant, 1.0 - invariant), -1)", "        self._probabilities = torch.cat((1.0 - invariant, invariant), -1)",
      expect=[('C05.I', 'InvariantSiteModel::mean-rate-is-one'), ('C05.I', 'InvariantSiteModel::invariant-category-has-rate-zero')]),
    T('c05-invariant-not-exact-zero', "                torch.zeros_like(invariant, device=invariant.device),", "                invariant * 0.0,", expect=[('C05.I', 'InvariantSiteModel::invariant-category-has-rate-zero')]),
    T('c05-normalise-without-probs', "        self._rates = rates / (rates * self._probabilities).sum(-1, keepdim=True)", "        self._rates = rates / rates.mean(-1, keepdim=True)",
      expect=[('C05.N', 'normalised-by-weighted-mean')]),
    T('c05-normalise-before-probs', "        self._rates = rates / (rates * self._probabilities).sum(-1, keepdim=True)\n        if self._mu is not None:\n            self._rates *= self._mu.tensor\n",
      "        if self._mu is not None:\n            rates = rates * self._mu.tensor\n        self._rates = rates / (rates * self._probabilities).sum(-1, keepdim=True)\n", expect=[('C05.N', 'relative-rate-applied-after')]),
    T('c05-probs-with-invariant', "                    ((1.0 - invariant) / cat).expand(invariant.shape[:-1] + (cat,)),", "                    ((1.0 - invariant) / self._categories).expand(invariant.shape[:-1] + (cat,)),",
      expect=[('C05.N', 'probabilities-with-invariant-sum-to-one')]),
    T('c05-quantiles-not-midpoint', "            quantile = (2.0 * torch.arange(cat, device=parameter.device) + 1.0) / (\n                2.0 * cat\n            )",
      "            quantile = (torch.arange(cat, device=parameter.device) + 1.0) / (\n                cat + 1.0\n            )", expect=[('C05.N', 'midpoint-quantiles-invariant-branch')]),
    T('c05-quantiles-wrong-K', "            ) / (2.0 * self._categories)", "            ) / (2.0 * (self._categories + 1))", expect=[('C05.N', 'midpoint-quantiles-plain-branch')]),
    T('c05-weibull-zero-last', "                (\n                    torch.zeros_like(invariant),\n                    torch.pow(-torch.log(1.0 - quantile), 1.0 / parameter),\n                ),",
      "                (\n                    torch.pow(-torch.log(1.0 - quantile), 1.0 / parameter),\n                    torch.zeros_like(invariant),\n                ),", expect=[('C05.N', 'zero-rate-block-aligned')]),
    T('c05-weibull-quantile', "            return torch.pow(-torch.log(1.0 - quantile), 1.0 / parameter)", "            return torch.pow(-torch.log(quantile), 1.0 / parameter)", expect=[('C05.N', 'WeibullSiteModel.inverse_cdf::quantile-function')]),
    T('c05-inplace-on-alias', "        self._rates = rates / (rates * self._probabilities).sum(-1, keepdim=True)\n        if self._mu", "        self._normalised = rates / (rates * self._probabilities).sum(-1, keepdim=True)\n        self._rates = self._normalised\n        if self._mu",
      expect=[('C05.A', 'in-place-update-of-self._rates')]),
    T('c05-inplace-conditional-def', "        self._rates = rates / (rates * self._probabilities).sum(-1, keepdim=True)\n        if self._mu", "        if self._rates is None:\n            self._rates = rates / (rates * self._probabilities).sum(-1, keepdim=True)\n        if self._mu",
      expect=[('C05.A', 'in-place-update-of-self._rates')]),
    T('c05-benign-out-of-place-mu', "            self._rates *= self._mu.tensor\n\n    def rates(self) -> torch.Tensor:\n        if self.needs_update:\n            self.update_rates(", "            self._rates = self._rates * self._mu.tensor\n\n    def rates(self) -> torch.Tensor:\n        if self.needs_update:\n            self.update_rates(", benign=True),
    T('c05-benign-mean-form', "        self._rates = rates / (rates * self._probabilities).sum(-1, keepdim=True)", "        self._rates = rates / (self._probabilities * rates).sum(-1, keepdim=True)", benign=True),
    T('c05-invariant-rate-clamped', "                1.0 / (1.0 - invariant),\n", "                1.0 / torch.clamp(1.0 - invariant, min=1.0e-6),\n", expect=[('C05.I', 'InvariantSiteModel::mean-rate-is-one::piece1')]),
    T('c05-invariant-prob-clamped', "        self._probabilities = torch.cat((invariant, 1.0 - invariant), -1)", "        self._probabilities = torch.cat((invariant.clamp(max=0.99), 1.0 - invariant), -1)",
      expect=[('C05.I', 'InvariantSiteModel::mean-rate-is-one::piece1')]),
    Mut('c05-benign-invariant-local-name', SM, '', "                1.0 / (1.0 - invariant),\n", "                1.0 / variable,\n", benign=True, mode='text',
        more=[dict(scope='', old="        self._probabilities = torch.cat((invariant, 1.0 - invariant), -1)\n", new="        self._probabilities = torch.cat((invariant, 1.0 - invariant), -1)\n        variable = 1.0 - invariant\n", nth=0, mode='text')]),
    T('c05-constant-probability-half', "        self._probability = torch.ones_like(self._rate.tensor)", "        self._probability = torch.ones_like(self._rate.tensor) / 2.0", expect=[('C05.C', 'ConstantSiteModel::single-category')]),
    T('c05-constant-rate-ignores-mu', "        self._rate = mu if mu is not None else Parameter(None, torch.ones((1,)))", "        self._rate = Parameter(None, torch.ones((1,))) if mu is not None else mu",
      expect=[('C05.C', 'ConstantSiteModel::single-category')]),
    T('c05-benign-constant-test-flipped', "        self._rate = mu if mu is not None else Parameter(None, torch.ones((1,)))", "        self._rate = Parameter(None, torch.ones((1,))) if mu is None else mu", benign=True),
    T('c05-benign-new-free-rate-model', "        return cls(id_, shape, categories, invariant, mu)\n", '        return cls(id_, shape, categories, invariant, mu)\n\n\n@register_class\nclass FreeRateSiteModel(SiteModel):\n    def __init__(self, id_, rates, proportions, invariant=None, mu=None):\n        super().__init__(id_, mu)\n        self._free_rates = rates\n        self._proportions = proportions\n        self._invariant = invariant\n        self._rates = None\n        self._probabilities = None\n\n    @property\n    def invariant(self):\n        return self._invariant.tensor if self._invariant is not None else None\n\n    def update_rates_probs(self):\n        proportions = self._proportions.tensor\n        rates = self._free_rates.tensor\n        invariant = self.invariant\n        if invariant is not None:\n            proportions = torch.cat((invariant, (1.0 - invariant) * proportions), dim=-1)\n            rates = torch.cat((torch.zeros_like(invariant), rates), dim=-1)\n        rates = rates / (rates * proportions).sum(-1, keepdim=True)\n        if self._mu is not None:\n            rates = rates * self._mu.tensor\n        self._rates = rates\n        self._probabilities = proportions\n\n    def rates(self):\n        if self.needs_update:\n            self.update_rates_probs()\n            self.needs_update = False\n        return self._rates\n\n    def probabilities(self):\n        if self.needs_update:\n            self.update_rates_probs()\n            self.needs_update = False\n        return self._probabilities\n\n    def _sample_shape(self):\n        return max([parameter.shape[:-1] for parameter in self._parameters.values()], key=len)\n\n    @classmethod\n    def from_json(cls, data, dic):\n        return cls(data["id"], process_object(data["rates"], dic), process_object(data["proportions"], dic), process_object_with_key("invariant", data, dic), process_object_with_key("mu", data, dic))\n', benign=True),
    T('c05-new-free-rate-model-normalised-too-early', "        return cls(id_, shape, categories, invariant, mu)\n", '        return cls(id_, shape, categories, invariant, mu)\n\n\n@register_class\nclass FreeRateSiteModel(SiteModel):\n    def __init__(self, id_, rates, proportions, invariant=None, mu=None):\n        super().__init__(id_, mu)\n        self._free_rates = rates\n        self._proportions = proportions\n        self._invariant = invariant\n        self._rates = None\n        self._probabilities = None\n\n    @property\n    def invariant(self):\n        return self._invariant.tensor if self._invariant is not None else None\n\n    def update_rates_probs(self):\n        proportions = self._proportions.tensor\n        rates = self._free_rates.tensor\n        rates = rates / (rates * proportions).sum(-1, keepdim=True)\n        invariant = self.invariant\n        if invariant is not None:\n            proportions = torch.cat((invariant, (1.0 - invariant) * proportions), dim=-1)\n            rates = torch.cat((torch.zeros_like(invariant), rates), dim=-1)\n        if self._mu is not None:\n            rates = rates * self._mu.tensor\n        self._rates = rates\n        self._probabilities = proportions\n\n    def rates(self):\n        if self.needs_update:\n            self.update_rates_probs()\n            self.needs_update = False\n        return self._rates\n\n    def probabilities(self):\n        if self.needs_update:\n            self.update_rates_probs()\n            self.needs_update = False\n        return self._probabilities\n\n    def _sample_shape(self):\n        return max([parameter.shape[:-1] for parameter in self._parameters.values()], key=len)\n\n    @classmethod\n    def from_json(cls, data, dic):\n        return cls(data["id"], process_object(data["rates"], dic), process_object(data["proportions"], dic), process_object_with_key("invariant", data, dic), process_object_with_key("mu", data, dic))\n', expect=[('C05.G', 'FreeRateSiteModel::mean-rate::invariant')]),
    Mut('c05-consumer-scales-the-cached-rates', 'torchtree/evolution/tree_likelihood.py', '', "        probs = self.site_model.probabilities().unsqueeze(-1).unsqueeze(-1)\n",
        "        probs = self.site_model.probabilities().unsqueeze(-1).unsqueeze(-1)\n        if self.clock_model is not None:\n            rates *= 1.0\n", mode='text',
        expect=[('C05.M', 'TreeLikelihoodModel._call::in-place-update-of-rates')], note='rates is a view of what the site model caches: an in-place update accumulates across evaluations'),
    Mut('c05-consumer-renormalises-the-cached-probabilities', 'torchtree/evolution/tree_likelihood.py', '', "        probs = self.site_model.probabilities().unsqueeze(-1).unsqueeze(-1)\n",
        "        probs = self.site_model.probabilities().unsqueeze(-1).unsqueeze(-1)\n        probs.div_(probs.sum(-3, keepdim=True))\n", mode='text',
        expect=[('C05.M', 'TreeLikelihoodModel._call::in-place-update-of-probs')]),
    Mut('c05-benign-consumer-scales-a-copy', 'torchtree/evolution/tree_likelihood.py', '', "        probs = self.site_model.probabilities().unsqueeze(-1).unsqueeze(-1)\n",
        "        probs = self.site_model.probabilities().unsqueeze(-1).unsqueeze(-1)\n        rates = rates * 1.0\n        rates *= 1.0\n", mode='text', benign=True),
    T('c05-probabilities-renormalised-over-the-whole-batch', "        self._rates = rates / (rates * self._probabilities).sum(-1, keepdim=True)\n", "        self._probabilities = self._probabilities / self._probabilities.sum()\n        self._rates = rates / (rates * self._probabilities).sum(-1, keepdim=True)\n",
      expect=[('C05.B', 'UnivariateDiscretizedSiteModel.update_rates::self._probabilities.sum()')]),
    T('c05-benign-probabilities-renormalised-per-sample', "        self._rates = rates / (rates * self._probabilities).sum(-1, keepdim=True)\n", "        self._probabilities = self._probabilities / self._probabilities.sum(-1, keepdim=True)\n        self._rates = rates / (rates * self._probabilities).sum(-1, keepdim=True)\n",
      benign=True),
    Mut('c05-view-swallows-the-change-of-its-parent', 'torchtree/core/parameter.py', 'ViewParameter.handle_parameter_changed', 'self.fire_parameter_changed()',
        'if torch.equal(self._last, self.tensor):\n    return\nself._last = self.tensor\nself.fire_parameter_changed()', expect=[('C05.H', 'ViewParameter::handle_parameter_changed')]),
    T('c05-site-model-handler-keeps-the-cache', "        self.needs_update = True\n        self.fire_model_changed()\n", "        self.fire_model_changed()\n", expect=[('C05.H', 'handle_parameter_changed')]),
]
for m in CORPUS:
    if m.id == 'c05-invariant-rate-unscaled':
        m.expect = [('C05.I', 'InvariantSiteModel::mean-rate-is-one')]
CORPUS += [
    Mut('c05-rates-recomputed-only-when-an-input-moved', 'torchtree/evolution/site_model.py', '', "    def rates(self) -> torch.Tensor:\n        if self.needs_update:\n            self.update_rates(self._parameter.tensor, self.invariant)\n            self.needs_update = False\n        return self._rates\n",
        "    def rates(self) -> torch.Tensor:\n        if self.needs_update:\n            if self._rates is None or not torch.allclose(self._parameter.tensor, self._last):\n                self.update_rates(self._parameter.tensor, self.invariant)\n            self._last = self._parameter.tensor.detach().clone()\n            self.needs_update = False\n        return self._rates\n",
        mode='text', expect=[('C05.H', 'flags::evolution.site_model::UnivariateDiscretizedSiteModel.rates::self.needs_update::refreshed-whenever-it-is-cleared')]),
]
CORPUS += [
    Mut('c05-invariant-categories-joined-with-hstack', 'torchtree/evolution/site_model.py', '', "        self._probabilities = torch.cat((invariant, 1.0 - invariant), -1)\n",
        "        self._probabilities = torch.hstack((invariant, 1.0 - invariant))\n", mode='text', expect=[('C05.B', 'axes::evolution.site_model.InvariantSiteModel.update_rates_probs::')]),
]
CORPUS += [
    Mut('c05-optional-parameters-unpacked-by-position', 'torchtree/evolution/site_model.py', 'WeibullSiteModel.from_json', 'return cls(id_, shape, categories, invariant, mu)',
        'optionals = [x for x in (invariant, mu) if x is not None]\nreturn cls(id_, shape, categories, *optionals)', expect=[('C05.Y', 'evolution.site_model::WeibullSiteModel.from_json::')]),
]
