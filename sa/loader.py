"""Parse every module of the torchtree package; build import tables.

Nothing of the analysed package is imported or executed.
"""
from __future__ import annotations

import ast
import os
from typing import Dict, Optional


class AnalysisError(Exception):
    """The analyser cannot see what it needs (exit 2, never a VIOLATION)."""


class Unsupported(Exception):
    """An extractor met a construct outside its vocabulary."""

    def __init__(self, node, why):
        self.node = node
        self.why = why
        line = getattr(node, 'lineno', '?')
        super().__init__(f"{why} (line {line})")


class Module:
    def __init__(self, name: str, path: str, relpath: str, src: str, is_pkg: bool):
        self.name = name
        self.path = path
        self.relpath = relpath
        self.src = src
        self.lines = src.splitlines()
        self.is_pkg = is_pkg
        self.tree = ast.parse(src, filename=path)
        for parent in ast.walk(self.tree):
            for child in ast.iter_child_nodes(parent):
                child._parent = parent  # type: ignore[attr-defined]
        self.imports: Dict[str, str] = {}
        self.functions: Dict[str, ast.FunctionDef] = {}
        self.classes: Dict[str, ast.ClassDef] = {}
        self.constants: Dict[str, ast.AST] = {}
        self._index()

    def _package(self) -> str:
        return self.name if self.is_pkg else self.name.rpartition('.')[0]

    def _index(self):
        # imports anywhere in the module (function-level imports included), top-level
        # definitions only for functions/classes
        for node in ast.walk(self.tree):
            if isinstance(node, ast.Import):
                for a in node.names:
                    if a.asname:
                        self.imports.setdefault(a.asname, a.name)
                    else:
                        root = a.name.split('.')[0]
                        self.imports.setdefault(root, root)
            elif isinstance(node, ast.ImportFrom):
                if node.level:
                    pkg = self._package().split('.')
                    if node.level > 1:
                        pkg = pkg[: -(node.level - 1)]
                    base = '.'.join(pkg + ([node.module] if node.module else []))
                else:
                    base = node.module or ''
                for a in node.names:
                    if a.name == '*':
                        continue
                    self.imports.setdefault(a.asname or a.name, f"{base}.{a.name}")
        for node in self.tree.body:
            if isinstance(node, (ast.FunctionDef, ast.AsyncFunctionDef)):
                self.functions[node.name] = node
            elif isinstance(node, ast.ClassDef):
                self.classes[node.name] = node
            elif isinstance(node, ast.Assign):
                for t in node.targets:
                    if isinstance(t, ast.Name):
                        self.constants[t.id] = node.value
            elif isinstance(node, ast.AnnAssign) and isinstance(node.target, ast.Name):
                if node.value is not None:
                    self.constants[node.target.id] = node.value

    def segment(self, node) -> str:
        return ast.get_source_segment(self.src, node) or ''


class Program:
    """All modules of `<repo>/torchtree`."""

    MIN_FILES = 100
    MIN_CLASSES = 150

    def __init__(self, repo: str, package: str = 'torchtree'):
        self.repo = os.path.abspath(repo)
        self.package = package
        self.modules: Dict[str, Module] = {}
        root = os.path.join(self.repo, package)
        if not os.path.isdir(root):
            raise AnalysisError(f"package directory {root} not found")
        for dirpath, dirnames, filenames in os.walk(root):
            dirnames[:] = sorted(d for d in dirnames if d != '__pycache__')
            for fn in sorted(filenames):
                if not fn.endswith('.py'):
                    continue
                path = os.path.join(dirpath, fn)
                rel = os.path.relpath(path, self.repo)
                parts = rel[:-3].split(os.sep)
                is_pkg = parts[-1] == '__init__'
                if is_pkg:
                    parts = parts[:-1]
                name = '.'.join(parts)
                with open(path, encoding='utf-8') as fh:
                    src = fh.read()
                try:
                    self.modules[name] = Module(name, path, rel, src, is_pkg)
                except SyntaxError as e:
                    raise AnalysisError(f"cannot parse {rel}: {e}")
        n_classes = sum(
            1
            for m in self.modules.values()
            for n in ast.walk(m.tree)
            if isinstance(n, ast.ClassDef)
        )
        if len(self.modules) < self.MIN_FILES or n_classes < self.MIN_CLASSES:
            raise AnalysisError(
                f"only {len(self.modules)} files / {n_classes} classes parsed "
                f"(floors {self.MIN_FILES}/{self.MIN_CLASSES})"
            )
        self.n_classes = n_classes

    # ------------------------------------------------------------------
    def module(self, name: str) -> Module:
        if name not in self.modules:
            raise AnalysisError(f"module {name} not found")
        return self.modules[name]

    def resolve(self, qual: str, _depth=0) -> Optional[tuple]:
        """Resolve a dotted name to ('class'|'function'|'module'|'const', Module, node)
        following package re-exports; None if it leaves the package."""
        if _depth > 10:
            return None
        if qual in self.modules:
            return ('module', self.modules[qual], self.modules[qual].tree)
        mod, _, attr = qual.rpartition('.')
        if not mod:
            return None
        if mod in self.modules:
            m = self.modules[mod]
            if attr in m.classes:
                return ('class', m, m.classes[attr])
            if attr in m.functions:
                return ('function', m, m.functions[attr])
            if attr in m.imports:
                return self.resolve(m.imports[attr], _depth + 1)
            if attr in m.constants:
                return ('const', m, m.constants[attr])
            return None
        # attribute of something resolvable (Class.attr): resolve the prefix
        pre = self.resolve(mod, _depth + 1)
        if pre and pre[0] == 'class':
            for st in pre[2].body:
                if isinstance(st, (ast.FunctionDef, ast.ClassDef)) and st.name == attr:
                    return ('function' if isinstance(st, ast.FunctionDef) else 'class', pre[1], st)
        return None

    def resolve_name(self, module: Module, dotted: str) -> str:
        """Turn a name as written in `module` into a fully qualified dotted name."""
        head, _, rest = dotted.partition('.')
        if head in module.classes or head in module.functions:
            q = f"{module.name}.{head}"
        elif head in module.imports:
            q = module.imports[head]
        else:
            q = head
        return q + ('.' + rest if rest else '')


def dotted_name(node) -> Optional[str]:
    """`a.b.c` expression → 'a.b.c'."""
    parts = []
    while isinstance(node, ast.Attribute):
        parts.append(node.attr)
        node = node.value
    if isinstance(node, ast.Name):
        parts.append(node.id)
        return '.'.join(reversed(parts))
    return None


def norm_text(node_or_text) -> str:
    """Normalised statement text: position / whitespace / quote independent."""
    if isinstance(node_or_text, ast.AST):
        return ast.unparse(node_or_text)
    return ast.unparse(ast.parse(node_or_text))
