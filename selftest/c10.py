from sa.selftest import Mut

CO = 'torchtree/evolution/coalescent.py'
TH = 'torchtree/evolution/tree_height_transform.py'
SM = 'torchtree/evolution/site_model.py'
GM = 'torchtree/distributions/gmrf.py'
TL = 'torchtree/evolution/tree_likelihood.py'


def T(id, file, old, new, expect=None, benign=False):
    return Mut(id, file, '', old, new, expect=expect, benign=benign, mode='text')


CORPUS = [
    T('c10-max-over-every-axis', TH, "                x[node - self.taxa_count] = heights[node] - torch.max(\n                    heights[left], heights[right]\n                )",
      "                x[node - self.taxa_count] = heights[node] - torch.max(\n                    torch.cat((heights[left], heights[right]), -1)\n                )",
      expect=[('C10.D', 'DifferenceNodeHeightTransform._inverse')]),
    T('c10-sum-without-axis-in-density', CO, "        return torch.sum(-lchoose2 * integral - log_thetas[..., 1:], -1, keepdim=True)", "        return torch.sum(-lchoose2 * integral - log_thetas[..., 1:])",
      expect=[('C10.D', 'ExponentialCoalescent.log_prob')]),
    T('c10-mean-rate-over-batch', SM, "        self._rates = rates / (rates * self._probabilities).sum(-1, keepdim=True)", "        self._rates = rates / (rates * self._probabilities).sum()",
      expect=[('C10.D', 'UnivariateDiscretizedSiteModel.update_rates')]),
    T('c10-unique-over-batch', CO, "node_heights.flatten()[:taxa_count].unique(", "node_heights[..., :taxa_count].unique(", expect=[('C10.D', 'SoftPiecewiseConstantCoalescentGrid.log_prob')]),
    T('c10-gmrf-sum-over-batch', GM, "            - diff_square.sum(-1, keepdim=True) * precision / 2.0", "            - diff_square.sum() * precision / 2.0", expect=[('C10.D', 'GMRF._call')]),
    T('c10-benign-reduction-of-index-range', CO, "        lchoose2 = lineage_count * (lineage_count - 1) / 2.0\n        log_thetas = torch.log(", "        lchoose2 = lineage_count * (lineage_count - 1) / 2.0\n        n_events = torch.ones(node_heights.shape[-1]).sum()\n        log_thetas = torch.log(", benign=True),
    T('c10-benign-named-axis-keyword', SM, "        self._rates = rates / (rates * self._probabilities).sum(-1, keepdim=True)", "        self._rates = rates / (rates * self._probabilities).sum(dim=-1, keepdim=True)", benign=True),
    T('c10-benign-branch-condition', TL, "            if torch.any(torch.isinf(log_p)):\n                self.rescale = True\n                log_p = calculate_treelikelihood_discrete_safe(", "            if torch.isinf(log_p).any():\n                self.rescale = True\n                log_p = calculate_treelikelihood_discrete_safe(", benign=True),
]
