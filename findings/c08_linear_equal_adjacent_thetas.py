"""C08 (fixed): PiecewiseLinearCoalescentGrid integrated an interior piece with two equal adjacent population sizes
using the LAST population size instead of the piece's own.  Compared with a numerical Kingman density.
Run: PYTHONPATH=<tree> /venv/bin/python findings/c08_linear_equal_adjacent_thetas.py   (exit 1 = defect present)"""
import sys, math, torch
from torchtree.evolution.coalescent import PiecewiseLinearCoalescentGrid
torch.set_default_dtype(torch.float64)

def N(t, thetas, grid):
    g = [0.0] + list(grid)
    if t >= g[-1]:
        return thetas[-1]
    for i in range(len(g) - 1):
        if g[i] <= t < g[i + 1]:
            return thetas[i] + (thetas[i + 1] - thetas[i]) * (t - g[i]) / (g[i + 1] - g[i])

def reference(sampling, internal, thetas, grid, steps=20000):
    events = sorted([(t, +1) for t in sampling] + [(t, -1) for t in internal])
    logp, k, prev = 0.0, 0, 0.0
    for t, kind in events:
        if t > prev and k > 1:
            # midpoint rule on [prev, t]
            n = max(10, int(steps * (t - prev)))
            dt = (t - prev) / n
            integral = sum(dt / N(prev + (i + 0.5) * dt, thetas, grid) for i in range(n))
            logp -= k * (k - 1) / 2 * integral
        if kind == -1:
            logp -= math.log(N(t, thetas, grid))
        k += kind
        prev = t
    return logp

sampling = [0.0, 0.0, 0.0, 0.0]
internal = [0.7, 1.6, 2.9]
grid = [1.0, 2.0, 3.5]
bad = 0
for thetas in ([3.0, 3.0, 10.0, 4.0], [2.0, 5.0, 5.0, 9.0], [3.0, 6.0, 10.0, 4.0]):
    d = PiecewiseLinearCoalescentGrid(torch.tensor(thetas), torch.tensor(grid))
    got = d.log_prob(torch.tensor(sampling + internal)).item()
    want = reference(sampling, internal, thetas, grid)
    ok = abs(got - want) < 1e-4
    print(thetas, 'torchtree', round(got, 6), 'reference', round(want, 6), 'OK' if ok else 'MISMATCH')
    bad += not ok
sys.exit(1 if bad else 0)
