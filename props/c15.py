"""C15 — every MCMC transition is a Metropolis–Hastings step on the stated target."""
from __future__ import annotations

import ast
from typing import Dict, List, Optional, Set

from sa.cfg import CFG, own_nodes
from sa.classes import ClassInfo
from sa.loader import AnalysisError, Unsupported, dotted_name, norm_text
from sa.members import self_attr
from sa.poly import Rat, ToRat
from sa.report import where
from sa.util import backward_slice, local_assignments, method_calls, slice_mentions

MCMC = 'torchtree.inference.mcmc.mcmc.MCMC'
OPERATOR = 'torchtree.inference.mcmc.operator.MCMCOperator'


def names_in(e) -> Set[str]:
    return {n.id for n in ast.walk(e) if isinstance(n, ast.Name)}


def stmt_of(n):
    while not isinstance(n, ast.stmt):
        n = n._parent
    return n


# ---------------------------------------------------------------------------
def check_loop(ctx, rep):
    cls = ctx.classes.get(MCMC)
    r = cls.resolve('run')
    if r is None:
        raise AnalysisError('MCMC.run not found')
    fn = r[1]
    m = r[0].module
    W = where(m, fn)
    cfg = CFG(fn)
    loops = [n for n in ast.walk(fn) if isinstance(n, ast.While)]
    main = None
    for lp in loops:
        if method_calls(lp, 'step'):
            main = lp
    if main is None:
        raise Unsupported(fn, 'main loop with operator.step() not found')
    header = cfg.node_of(main)

    def node(stmt):
        return cfg.node_of(stmt)

    def in_loop(n):
        p = n
        while p is not None:
            if p is main:
                return True
            p = getattr(p, '_parent', None)
        return False

    step_calls = [c for c in method_calls(main, 'step') if isinstance(c.func.value, ast.Name)]
    if len(step_calls) != 1:
        raise Unsupported(main, f"{len(step_calls)} operator.step() calls in the loop")
    step = step_calls[0]
    op = step.func.value.id
    step_stmt = stmt_of(step)
    if not (isinstance(step_stmt, ast.Assign) and isinstance(step_stmt.targets[0], ast.Name)):
        raise Unsupported(step_stmt, 'result of operator.step() is not bound to a name')
    H = step_stmt.targets[0].id
    step_node = node(step_stmt)
    accepts = [node(stmt_of(c)) for c in method_calls(main, 'accept') if isinstance(c.func.value, ast.Name) and c.func.value.id == op]
    rejects = [node(stmt_of(c)) for c in method_calls(main, 'reject') if isinstance(c.func.value, ast.Name) and c.func.value.id == op]
    facts = {'operator_variable': op, 'hastings_variable': H, 'accept_sites': [n.stmt.lineno for n in accepts], 'reject_sites': [n.stmt.lineno for n in rejects]}
    # L0 the operator variable is bound once per iteration: accept/reject/tune act on the operator that moved
    op_defs = []
    for n in ast.walk(main):
        if isinstance(n, ast.Assign) and any(isinstance(t, ast.Name) and t.id == op for t in n.targets):
            op_defs.append(n)
        elif isinstance(n, (ast.For, ast.comprehension)) and any(isinstance(x, ast.Name) and x.id == op for x in ast.walk(n.target)):
            if isinstance(n, ast.For):
                op_defs.append(n)
        elif isinstance(n, ast.With) and any(isinstance(i.optional_vars, ast.Name) and i.optional_vars.id == op for i in n.items):
            op_defs.append(n)
    uses_after = [c for nm in ('accept', 'reject', 'tune') for c in method_calls(main, nm) if isinstance(c.func.value, ast.Name) and c.func.value.id == op]
    ok0 = len(op_defs) == 1 and cfg.dominates(cfg.node_of(op_defs[0]), step_node)
    rep.check('C15.L', 'MCMC.run::operator-bound-once-per-iteration', ok0, where(m, op_defs[1] if len(op_defs) > 1 else fn),
              {'definitions': [d.lineno for d in op_defs], 'uses': [c.lineno for c in uses_after]},
              f"the variable `{op}` is re-bound inside the iteration (lines {[d.lineno for d in op_defs]}): accept()/reject()/tune() after that "
              f"act on a different operator than the one that proposed the move")
    # L1 exactly one of accept/reject on every path from step to the end of the iteration
    ok = bool(accepts) and bool(rejects) and cfg.must_pass(step_node, header, accepts + rejects)
    rep.check('C15.L', 'MCMC.run::accept-or-reject-on-every-path', ok, W, facts,
              "after operator.step() the end of the iteration can be reached without operator.accept() or operator.reject(): "
              "a proposal is neither kept with bookkeeping nor rolled back")
    both = False
    for a in accepts + rejects:
        reach = cfg.reachable_after(a, avoid={header.id})
        if any(b.id in reach for b in accepts + rejects):
            both = True
    rep.check('C15.L', 'MCMC.run::not-both', not both, W, facts, "a path calls accept()/reject() twice in one iteration")
    # joint evaluations
    joint_evals = []
    for n in ast.walk(fn):
        if isinstance(n, ast.Call) and self_attr(n.func) == 'joint':
            st = stmt_of(n)
            if isinstance(st, ast.Assign) and isinstance(st.targets[0], ast.Name):
                joint_evals.append((st.targets[0].id, st, in_loop(st)))
    carried = [v for v, st, inl in joint_evals if not inl]
    proposed = [(v, st) for v, st, inl in joint_evals if inl]
    if len(carried) != 1 or len(proposed) != 1:
        raise Unsupported(fn, f"joint evaluations: {len(carried)} before the loop, {len(proposed)} inside")
    C = carried[0]
    P, p_stmt = proposed[0]
    p_node = node(p_stmt)
    facts.update({'carried_density': C, 'proposal_density': P})
    # L3 proposal density evaluated after step(), nothing mutates the state between it and the decision
    ok = cfg.must_pass(header, p_node, [step_node]) and step_node.id not in cfg.reachable_after(p_node, avoid={header.id})
    rep.check('C15.L', 'MCMC.run::proposal-density-after-step', ok, W, facts,
              "the density used for the proposed state is not evaluated after operator.step() within the same iteration")
    # … and it is the TARGET's density of the proposed state: every definition of that variable inside the loop is an evaluation of self.joint (a value the operator brings
    # along is the density of whatever model the operator was given — for a block operator a sub-joint — and not of the state as the target sees it)
    other_defs = [st for st in ast.walk(fn) if isinstance(st, ast.Assign) and any(isinstance(t, ast.Name) and t.id == P for t in st.targets) and in_loop(st)
                  and not any(isinstance(c, ast.Call) and self_attr(c.func) == 'joint' for c in ast.walk(st.value))]
    rep.check('C15.L', 'MCMC.run::proposal-density-is-the-targets-own', not other_defs, where(m, other_defs[0]) if other_defs else W, {'other_definitions': [norm_text(x)[:70] for x in other_defs]},
              f"`{norm_text(other_defs[0])[:70] if other_defs else ''}` gives the proposed state a density that was not obtained by evaluating the target (self.joint): the acceptance "
              f"ratio and the carried density then mix the target with whatever the operator evaluated (its own block, its own temperature)")
    # decision variable
    if_acc = None
    for n in ast.walk(main):
        if isinstance(n, ast.If) and isinstance(n.test, ast.Name):
            tb = [node(stmt_of(c)) for c in method_calls(ast.Module(body=n.body, type_ignores=[]), 'accept')]
            fb = [node(stmt_of(c)) for c in method_calls(ast.Module(body=n.orelse, type_ignores=[]), 'reject')]
            if tb and fb:
                if_acc = n
    if if_acc is None:
        raise Unsupported(main, '`if accepted: … accept() else: … reject()` not found')
    A = if_acc.test.id
    facts['decision_variable'] = A
    # L2 carried density re-defined only on the accepted branch, from the proposal's density
    stores = [st for st in ast.walk(main) if isinstance(st, (ast.Assign, ast.AugAssign)) and any(
        isinstance(t, ast.Name) and t.id == C for t in (st.targets if isinstance(st, ast.Assign) else [st.target]))]
    ok = bool(stores)
    why = ''
    for st in stores:
        inside = any(st is x for b in if_acc.body for x in ast.walk(b))
        from_p = isinstance(st, ast.Assign) and P in names_in(st.value)
        if not inside:
            ok, why = False, f"`{norm_text(st)}` (line {st.lineno}) updates the carried density outside the accepted branch"
        elif not from_p:
            ok, why = False, f"`{norm_text(st)}` does not take the carried density from the proposal's density `{P}`"
    if not stores:
        why = "the carried density is never updated after an accepted move"
    rep.check('C15.L', 'MCMC.run::carried-density-updated-on-accept-only', ok, W, facts,
              f"{why}: the density used for the current state is no longer the target at the current state")
    # L4 log_alpha linear form
    defs = local_assignments(main)
    alpha_stmts = [st for st in ast.walk(main) if isinstance(st, ast.Assign) and isinstance(st.value, ast.BinOp)
                   and {P, C, H} <= names_in(st.value)]
    if len(alpha_stmts) != 1:
        rep.bad('C15.L', 'MCMC.run::log-ratio-form', W, facts,
                f"no single expression combines the proposal density `{P}`, the current density `{C}` and the Hastings term `{H}` "
                f"(found {len(alpha_stmts)}): the acceptance ratio does not use all three")
        return
    a_stmt = alpha_stmts[0]
    LA = a_stmt.targets[0].id
    tr = ToRat(lambda e: Rat.sym(e.id) if isinstance(e, ast.Name) else None)
    try:
        val = tr(a_stmt.value)
        want = Rat.sym(P) - Rat.sym(C) + Rat.sym(H)
        ok = val.equals(want)
    except Unsupported as u:
        ok = False
    rep.check('C15.L', 'MCMC.run::log-ratio-form', ok, where(m, a_stmt), {**facts, 'expression': norm_text(a_stmt.value)},
              f"log acceptance ratio is `{norm_text(a_stmt.value)}`, not +{P} - {C} + {H}")
    # L5 acceptance probability = exp(min(0, log_alpha))
    ap_stmts = [st for st in ast.walk(main) if isinstance(st, ast.Assign) and LA in names_in(st.value) and st is not a_stmt]
    ok5 = False
    AP = None
    for st in ap_stmts:
        v = st.value
        if isinstance(v, ast.Call) and isinstance(v.func, ast.Attribute) and v.func.attr == 'exp':
            inner = v.func.value if not v.args else v.args[0]
        elif isinstance(v, ast.Call) and (dotted_name(v.func) or '').split('.')[-1] == 'exp' and v.args:
            inner = v.args[0]
        else:
            continue
        if isinstance(inner, ast.Call) and (dotted_name(inner.func) or '').split('.')[-1] in ('min', 'minimum', 'clamp') and len(inner.args) >= 2:
            a0, a1 = inner.args[0], inner.args[1]

            def zero(e):
                if isinstance(e, ast.Constant) and e.value in (0, 0.0):
                    return True
                return isinstance(e, ast.Call) and (dotted_name(e.func) or '').split('.')[-1] in ('zeros_like', 'zeros')

            def la(e):
                return isinstance(e, ast.Name) and e.id == LA
            if (zero(a0) and la(a1)) or (zero(a1) and la(a0)):
                ok5 = True
                AP = st.targets[0].id
    rep.check('C15.L', 'MCMC.run::acceptance-probability-form', ok5, where(m, a_stmt), {'log_ratio_variable': LA},
              f"acceptance probability is not exp(min(0, {LA}))")
    # L6 accepted = acceptance_prob > fresh uniform draw
    ok6 = False
    for st in ast.walk(main):
        if isinstance(st, ast.Assign) and any(isinstance(t, ast.Name) and t.id == A for t in st.targets):
            for cmp_ in [n for n in ast.walk(st.value) if isinstance(n, ast.Compare) and len(n.ops) == 1]:
                left, right, opx = cmp_.left, cmp_.comparators[0], cmp_.ops[0]

                def is_rand(e):
                    return isinstance(e, ast.Call) and (dotted_name(e.func) or '').split('.')[-1] in ('rand', 'rand_like', 'uniform', 'random')

                def is_ap(e):
                    return AP is not None and isinstance(e, ast.Name) and e.id == AP
                if (is_ap(left) and is_rand(right) and isinstance(opx, (ast.Gt, ast.GtE))) or \
                        (is_rand(left) and is_ap(right) and isinstance(opx, (ast.Lt, ast.LtE))):
                    ok6 = True
    rep.check('C15.L', 'MCMC.run::uniform-draw-below-probability', ok6, W, {'decision_variable': A, 'probability_variable': AP},
              f"`{A}` is not the comparison `{AP} > <fresh uniform draw>`")
    # … and that comparison is the ONLY way a move is accepted: `accepted = True` without a draw is the same decision only where the full log ratio (density change PLUS
    # Hastings term) is known to be ≥ 0; under a test of the density change alone it accepts moves whose acceptance probability is below one
    forced = []
    for st in ast.walk(main):
        if isinstance(st, ast.Assign) and any(isinstance(t, ast.Name) and t.id == A for t in st.targets) and isinstance(st.value, ast.Constant) and st.value.value is True:
            justified = False
            p_, child_ = getattr(st, '_parent', None), st
            while p_ is not None and p_ is not main:
                if isinstance(p_, ast.If) and any(child_ is b for b in p_.body):
                    t = p_.test
                    if isinstance(t, ast.Compare) and len(t.ops) == 1 and isinstance(t.ops[0], (ast.GtE, ast.Gt)) and isinstance(t.left, ast.Name) and t.left.id == LA \
                            and isinstance(t.comparators[0], ast.Constant) and t.comparators[0].value in (0, 0.0):
                        justified = True
                    if isinstance(t, ast.Compare) and len(t.ops) == 1 and isinstance(t.ops[0], (ast.GtE, ast.Eq)) and isinstance(t.left, ast.Name) and AP is not None and t.left.id == AP \
                            and isinstance(t.comparators[0], ast.Constant) and t.comparators[0].value in (1, 1.0):
                        justified = True          # the acceptance probability itself is one
                child_, p_ = p_, getattr(p_, '_parent', None)
            if not justified:
                forced.append(st)
    rep.check('C15.L', 'MCMC.run::no-acceptance-without-the-draw', not forced, where(m, forced[0]) if forced else W, {'forced_acceptances': [st.lineno for st in forced]},
              f"`{A} = True` (line {forced[0].lineno if forced else 0}) accepts a move without comparing exp(min(0, {LA})) with a uniform draw and not under `{LA} >= 0`: a move that "
              f"raises the density but has a negative Hastings term (scaler, Dirichlet, block update, HMC) is accepted with probability one instead of exp({LA})")
    # L7 non-finite proposals are rejected: in every branch whose test is isinf/isnan of H or P, `accepted` is False
    n_nonfinite = 0
    for n in ast.walk(main):
        if isinstance(n, ast.If):
            calls = [(dotted_name(c.func) or '').split('.')[-1] for c in ast.walk(n.test) if isinstance(c, ast.Call)]
            if set(calls) & {'isinf', 'isnan', 'isfinite'} and names_in(n.test) & {H, P}:
                n_nonfinite += 1
                sets_false = any(isinstance(st, ast.Assign) and any(isinstance(t, ast.Name) and t.id == A for t in st.targets)
                                 and isinstance(st.value, ast.Constant) and st.value.value is False for st in n.body)
                sets_other = any(isinstance(st, ast.Assign) and any(isinstance(t, ast.Name) and t.id == A for t in st.targets)
                                 and not (isinstance(st.value, ast.Constant) and st.value.value is False) for b in n.body for st in ast.walk(b))
                rep.check('C15.L', f"MCMC.run::non-finite-rejected@{norm_text(n.test)[:40]}", sets_false and not sets_other, where(m, n), None,
                          f"when `{norm_text(n.test)}` the move is not forced to be rejected")
    isinf_h = any(isinstance(n, ast.If) and H in names_in(n.test) and any((dotted_name(c.func) or '').endswith('isinf')
                  for c in ast.walk(n.test) if isinstance(c, ast.Call)) for n in ast.walk(main))
    rep.check('C15.L', 'MCMC.run::infinite-hastings-guard', isinf_h, W, None,
              "an infinite Hastings term (operator failure) is not tested before the density is used")
    nan_h = any(isinstance(n, ast.If) and H in names_in(n.test) and any((dotted_name(c.func) or '').split('.')[-1] in ('isnan', 'isfinite')
                for c in ast.walk(n.test) if isinstance(c, ast.Call)) for n in ast.walk(main))
    rep.check('C15.L', 'MCMC.run::nan-hastings-guard', nan_h, W, None,
              f"the Hastings term `{H}` is tested for infinity only: a NaN makes the log acceptance ratio NaN, Python's built-in min(0, nan) is 0, and the proposal is "
              f"accepted with probability one")
    nan_p = any(isinstance(n, ast.If) and P in names_in(n.test) and any((dotted_name(c.func) or '').split('.')[-1] in ('isnan', 'isfinite')
                for c in ast.walk(n.test) if isinstance(c, ast.Call)) for n in ast.walk(main))
    rep.check('C15.L', 'MCMC.run::nan-density-guard', nan_p, W, None,
              f"the proposed density `{P}` is never tested for NaN before the acceptance probability is formed: Python's built-in min(0, nan) is 0, so a proposal whose "
              f"density is NaN is accepted with probability one (and every later ratio is NaN as well)")
    # the decision variable is defined on every path to the `if accepted`
    dnode = node(if_acc)
    defs_nodes = [node(st) for st in ast.walk(main) if isinstance(st, ast.Assign) and any(isinstance(t, ast.Name) and t.id == A for t in st.targets)]
    rep.check('C15.L', 'MCMC.run::decision-defined-after-step', cfg.must_pass(step_node, dnode, defs_nodes), W, None,
              f"`{A}` can reach the decision with the value of a previous iteration")


# ---------------------------------------------------------------------------
def check_save_restore(ctx, rep):
    base = ctx.classes.get(OPERATOR)
    m = base.module
    step = base.resolve('step')[1]
    reject = base.resolve('reject')[1]
    # step: saved_tensors = [p.tensor.clone() for p in self.parameters] before _step()
    saves = []
    for st in ast.walk(step):
        if isinstance(st, ast.Assign) and any(self_attr(t) for t in st.targets) and isinstance(st.value, (ast.ListComp, ast.GeneratorExp)):
            comp = st.value
            it = comp.generators[0].iter
            if self_attr(it) == 'parameters':
                elt = comp.elt
                chain = []
                e = elt
                while isinstance(e, (ast.Call, ast.Attribute)):
                    if isinstance(e, ast.Call):
                        e = e.func
                    else:
                        chain.append(e.attr)
                        e = e.value
                saves.append((st, self_attr(st.targets[0]), list(reversed(chain))))
    cfg = CFG(step)
    inner = [cfg.node_of(stmt_of(c)) for c in method_calls(step, '_step')]
    ok = False
    saved_attr = None
    for st, attr, chain in saves:
        if chain[:1] == ['tensor'] and 'clone' in chain and inner and cfg.dominates(cfg.node_of(st), inner[0]):
            ok = True
            saved_attr = attr
    rep.check('C15.S', 'MCMCOperator.step::saves-clones-before-proposal', ok, where(m, step),
              {'saves': [(a, c) for _, a, c in saves]},
              "MCMCOperator.step does not store `.tensor.clone()` of every element of self.parameters before _step(): "
              "an in-place proposal also changes the saved copy, so a rejected move is not rolled back")
    # reject: every saved tensor assigned back through the tensor setter
    ok = False
    for st in ast.walk(reject):
        if isinstance(st, ast.For):
            it_names = {n.attr for n in ast.walk(st.iter) if isinstance(n, ast.Attribute)}
            if {'parameters', saved_attr} <= it_names:
                for b in st.body:
                    if isinstance(b, ast.Assign) and isinstance(b.targets[0], ast.Attribute) and b.targets[0].attr == 'tensor' \
                            and isinstance(b.value, ast.Name):
                        ok = True
    rcfg = CFG(reject)
    restore_nodes = [rcfg.node_of(st) for st in ast.walk(reject) if isinstance(st, ast.For)]
    ok = ok and rcfg.must_pass(rcfg.entry, rcfg.exit, restore_nodes)
    rep.check('C15.S', 'MCMCOperator.reject::restores-through-setter', ok, where(m, reject), {'saved_attribute': saved_attr},
              "MCMCOperator.reject does not assign every saved tensor back through `parameter.tensor = saved` on every path: "
              "a rejected move leaves a parameter changed (or listeners un-notified)")
    # subclasses overriding step / reject / accept must call super()
    n_sub = 0
    for sub in ctx.classes.subclasses(OPERATOR, strict=True):
        n_sub += 1
        for nm in ('step', 'reject', 'accept'):
            if nm in sub.methods:
                fn = sub.methods[nm]
                c = CFG(fn)
                sup = [c.node_of(stmt_of(x)) for x in method_calls(fn, nm)
                       if isinstance(x.func.value, ast.Call) and isinstance(x.func.value.func, ast.Name) and x.func.value.func.id == 'super']
                rep.check('C15.S', f"{sub.qualname}::{nm}-calls-super", bool(sup) and c.must_pass(c.entry, c.exit, sup), where(sub.module, fn), None,
                          f"{sub.name}.{nm} overrides MCMCOperator.{nm} without calling super().{nm}() on every path: save/restore discipline bypassed")
        # _step must not touch saved tensors
        if '_step' in sub.methods:
            fn = sub.methods['_step']
            writes = [st for st in ast.walk(fn) if isinstance(st, (ast.Assign, ast.AugAssign)) and any(
                self_attr(t if not isinstance(t, ast.Subscript) else t.value) == saved_attr
                for t in (st.targets if isinstance(st, ast.Assign) else [st.target]))]
            rep.check('C15.S', f"{sub.qualname}::_step-keeps-saved-tensors", not writes, where(sub.module, fn), None,
                      f"{sub.name}._step overwrites self.{saved_attr}")
    if n_sub < 5:
        raise AnalysisError(f"only {n_sub} operator classes found")
    # HMC failure path restores through the setter
    hmc = ctx.classes.get('torchtree.inference.hmc.operator.HMCOperator')
    fn = hmc.resolve('_step')[1]
    ok = False
    for t in [n for n in ast.walk(fn) if isinstance(n, ast.Try)]:
        for h in t.handlers:
            for st in ast.walk(ast.Module(body=h.body, type_ignores=[])):
                if isinstance(st, ast.For):
                    it_names = {n.attr for n in ast.walk(st.iter) if isinstance(n, ast.Attribute)}
                    if {'parameters', saved_attr} <= it_names and any(
                            isinstance(b, ast.Assign) and isinstance(b.targets[0], ast.Attribute) and b.targets[0].attr == 'tensor' for b in st.body):
                        ok = True
    rep.check('C15.S', 'HMCOperator._step::failure-path-restores', ok, where(hmc.module, fn), None,
              "HMCOperator._step: after a numerical failure of the integrator the saved tensors are not restored before retrying")


# ---------------------------------------------------------------------------
def check_hastings(ctx, rep):
    ops = ctx.classes.get('torchtree.inference.mcmc.operator.ScalerOperator')
    m = ops.module
    # Scaler
    fn = ops.resolve('_step')[1]
    defs = local_assignments(fn)
    aug = [st for st in ast.walk(fn) if isinstance(st, ast.AugAssign) and isinstance(st.op, ast.Mult)]
    rets = [n for n in ast.walk(fn) if isinstance(n, ast.Return)]
    ok = False
    facts = {}
    if len(aug) == 1 and len(rets) == 1 and isinstance(aug[0].value, ast.Name):
        s = aug[0].value.id
        rv = rets[0].value
        neg = isinstance(rv, ast.UnaryOp) and isinstance(rv.op, ast.USub)
        inner = rv.operand if neg else rv
        is_log = isinstance(inner, ast.Call) and ((isinstance(inner.func, ast.Attribute) and inner.func.attr == 'log'))
        arg = inner.func.value if is_log and not inner.args else (inner.args[0] if is_log else None)
        arg_names = names_in(arg) if arg is not None else set()
        single = isinstance(aug[0].target, ast.Subscript)
        ok = neg and is_log and s in arg_names and single
        facts = {'scale_variable': s, 'return': norm_text(rv)[:80]}
    rep.check('C15.Q', 'ScalerOperator::hastings', ok, where(m, fn), facts,
              "scale proposal x' = s·x on one element has log Hastings ratio −log s; the operator multiplies by one variable and returns something else")
    # Sliding window: additive symmetric draw, returns 0
    sw = ctx.classes.get('torchtree.inference.mcmc.operator.SlidingWindowOperator')
    fn = sw.resolve('_step')[1]
    aug = [st for st in ast.walk(fn) if isinstance(st, ast.AugAssign) and isinstance(st.op, (ast.Add, ast.Sub))]
    rets = [n for n in ast.walk(fn) if isinstance(n, ast.Return)]
    ok = False
    if len(aug) == 1 and len(rets) == 1 and isinstance(aug[0].value, ast.Name):
        d = local_assignments(fn).get(aug[0].value.id, [])
        sym = False
        for e in d:
            # width * (U - 0.5): symmetric around zero
            for b in ast.walk(e):
                if isinstance(b, ast.BinOp) and isinstance(b.op, ast.Sub) and isinstance(b.right, ast.Constant) and b.right.value == 0.5 \
                        and any(isinstance(c, ast.Call) and (dotted_name(c.func) or '').split('.')[-1] in ('rand',) for c in ast.walk(b.left)):
                    sym = True
                if isinstance(b, ast.Call) and (dotted_name(b.func) or '').split('.')[-1] in ('randn', 'normal'):
                    sym = True
        rv = rets[0].value
        zero = isinstance(rv, ast.Call) and rv.args and isinstance(rv.args[0], ast.Constant) and rv.args[0].value in (0, 0.0)
        zero = zero or (isinstance(rv, ast.Call) and (dotted_name(rv.func) or '').split('.')[-1] in ('zeros', 'zeros_like'))
        ok = sym and zero
    rep.check('C15.Q', 'SlidingWindowOperator::hastings', ok, where(m, fn), None,
              "sliding window: the shift must be a draw symmetric about zero and the Hastings term zero")
    # Dirichlet
    dr = ctx.classes.get('torchtree.inference.mcmc.operator.DirichletOperator')
    fn = dr.resolve('_step')[1]
    defs = local_assignments(fn)
    rets = [n for n in ast.walk(fn) if isinstance(n, ast.Return)]
    ok = False
    facts = {}
    if len(rets) == 1 and isinstance(rets[0].value, ast.BinOp) and isinstance(rets[0].value.op, ast.Sub):
        bexp, fexp = rets[0].value.left, rets[0].value.right
        old = new = None
        for st in ast.walk(fn):
            if isinstance(st, ast.Assign) and isinstance(st.targets[0], ast.Name):
                if isinstance(st.value, ast.Attribute) and st.value.attr == 'tensor':
                    old = st.targets[0].id
                if isinstance(st.value, ast.Call) and isinstance(st.value.func, ast.Attribute) and st.value.func.attr in ('sample', 'rsample'):
                    new = st.targets[0].id

        def logprob_parts(e):
            """(names the distribution is built from, names it is evaluated at, scale attrs) of a
            `<dist>.log_prob(<at>)` expression, through local definitions"""
            sl = backward_slice(e, defs)
            call = None
            for x in sl:
                for c in ast.walk(x):
                    if isinstance(c, ast.Call) and isinstance(c.func, ast.Attribute) and c.func.attr == 'log_prob':
                        call = c
            if call is None:
                return None
            at = names_in(call.args[0]) if call.args else set()
            built = set()
            attrs = set()
            for x in backward_slice(call.func.value, defs):
                built |= names_in(x)
                attrs |= {self_attr(a) for a in ast.walk(x) if self_attr(a)}
            return built, at, attrs
        fp, bp = logprob_parts(fexp), logprob_parts(bexp)
        facts = {'old': old, 'new': new, 'forward': str(fp), 'reverse': str(bp)}
        if fp and bp and old and new:
            ok = (old in fp[0] and new in fp[1] and new not in (fp[0] - {old}) - fp[1] | set()
                  and new in bp[0] and old in bp[1] and fp[2] & bp[2] and old not in fp[1] and new not in bp[1])
    rep.check('C15.Q', 'DirichletOperator::hastings', ok, where(m, fn), facts,
              "Dirichlet operator must return log q(old | new) − log q(new | old): forward density built from the old value and evaluated at "
              "the new one, reverse built from the new value and evaluated at the old one, same scale")
    # assignment of the proposed value
    ok = any(isinstance(st, ast.Assign) and isinstance(st.targets[0], ast.Attribute) and st.targets[0].attr == 'tensor'
             and isinstance(st.value, ast.Name) and st.value.id == facts.get('new') for st in ast.walk(fn))
    rep.check('C15.Q', 'DirichletOperator::proposes-the-draw', ok, where(m, fn), facts, "the value assigned to the parameter is not the draw whose density is reported")
    # GMRF block update: return log_q_backward - log_q_forward
    gm = ctx.classes.get('torchtree.inference.mcmc.gmrf_block_updating.GMRFPiecewiseCoalescentBlockUpdatingOperator')
    fn = gm.resolve('_step')[1]
    defs = local_assignments(fn)
    rets = [n for n in ast.walk(fn) if isinstance(n, ast.Return) and isinstance(n.value, ast.BinOp)]
    ok = False
    if len(rets) == 1 and isinstance(rets[0].value.op, ast.Sub):
        bexp, fexp = rets[0].value.left, rets[0].value.right
        draws = {st.targets[0].id for st in ast.walk(fn) if isinstance(st, ast.Assign) and isinstance(st.targets[0], ast.Name)
                 and isinstance(st.value, ast.Call) and (dotted_name(st.value.func) or '').split('.')[-1] in ('randn', 'normal')}
        oldg = {st.targets[0].id for st in ast.walk(fn) if isinstance(st, ast.Assign) and isinstance(st.targets[0], ast.Name)
                and isinstance(st.value, ast.Attribute) and st.value.attr == 'tensor'}
        # direct (one-level) definitions: the forward term is the Gaussian log density of the raw draw z
        def direct(e):
            out = set(names_in(e))
            if isinstance(e, ast.Name):
                for v in defs.get(e.id, []):
                    out |= names_in(v)
            return out
        f_names, b_names = direct(fexp), direct(bexp)
        b_all = set().union(*[names_in(x) for x in backward_slice(bexp, defs)])
        ok = bool(draws & f_names) and not (draws & b_names) and bool(oldg & b_all)
    # forward quantities use the proposed precision matrix throughout, backward quantities the previous one
    prec_store = None
    for st in fn.body:
        if isinstance(st, ast.Assign) and isinstance(st.targets[0], ast.Attribute) and st.targets[0].attr == 'tensor' \
                and 'precision' in ast.unparse(st.targets[0]):
            prec_store = st
    pm_defs = [st for st in fn.body if isinstance(st, ast.Assign) and isinstance(st.targets[0], ast.Name)
               and isinstance(st.value, ast.Call) and isinstance(st.value.func, ast.Attribute) and st.value.func.attr == 'precision_matrix']
    pair_ok = False
    pair_facts = {}
    if prec_store is not None and len(pm_defs) == 2:
        old_pm = [d.targets[0].id for d in pm_defs if fn.body.index(d) < fn.body.index(prec_store)]
        new_pm = [d.targets[0].id for d in pm_defs if fn.body.index(d) > fn.body.index(prec_store)]
        nr = [c for c in ast.walk(fn) if isinstance(c, ast.Call) and self_attr(c.func) == 'newton_raphson']
        clones = {st.targets[0].id: st.value.func.value.id for st in fn.body if isinstance(st, ast.Assign) and isinstance(st.targets[0], ast.Name)
                  and isinstance(st.value, ast.Call) and isinstance(st.value.func, ast.Attribute) and st.value.func.attr == 'clone'
                  and isinstance(st.value.func.value, ast.Name) and st.value.func.value.id in old_pm + new_pm}
        # which mode feeds which QW: diagonal1 = … exp(-mode) ; QW[...] += diagonal1
        mode_of_qw = {}
        cur_mode = None
        for st in ast.walk(fn):
            pass
        seq = [st for st in ast.walk(fn) if isinstance(st, (ast.Assign, ast.AugAssign))]
        seq.sort(key=lambda s_: s_.lineno)
        last_mode_in_diag = None
        mode_vars = {}
        for c in nr:
            st = c
            while not isinstance(st, ast.stmt):
                st = st._parent
            if isinstance(st, ast.Assign) and isinstance(st.targets[0], ast.Name) and len(c.args) == 4 and isinstance(c.args[3], ast.Name):
                mode_vars[st.targets[0].id] = c.args[3].id
        for st in seq:
            if isinstance(st, ast.Assign) and isinstance(st.targets[0], ast.Name):
                used = {n.id for n in ast.walk(st.value) if isinstance(n, ast.Name)} & set(mode_vars)
                if used and any(isinstance(c, ast.Call) and (dotted_name(c.func) or '').endswith('exp') for c in ast.walk(st.value)):
                    last_mode_in_diag = (st.targets[0].id, sorted(used)[0])
            if isinstance(st, ast.AugAssign) and isinstance(st.target, ast.Subscript) and isinstance(st.target.value, ast.Name) \
                    and st.target.value.id in clones and last_mode_in_diag and isinstance(st.value, ast.Name) and st.value.id == last_mode_in_diag[0]:
                mode_of_qw[st.target.value.id] = last_mode_in_diag[1]
        pair_facts = {'previous_precision_matrix': old_pm, 'proposed_precision_matrix': new_pm, 'newton_raphson_matrix': mode_vars, 'QW_cloned_from': clones, 'mode_of_QW': mode_of_qw}
        pair_ok = len(mode_of_qw) == 2 and all(mode_vars.get(mode_of_qw[qw]) == clones[qw] for qw in mode_of_qw) \
            and {clones[qw] for qw in mode_of_qw} == set(old_pm + new_pm)
    rep.check('C15.Q', 'GMRFBlockUpdate::forward-and-backward-use-their-own-precision', pair_ok, where(gm.module, fn), pair_facts,
              "the Newton-Raphson mode that enters a proposal precision (forwardQW / backwardQW) must be computed with the same precision matrix that the QW is cloned from "
              "(proposed matrix for the forward density, previous matrix for the reverse density); otherwise the returned term is not log q(old|new) − log q(new|old)")
    rep.check('C15.Q', 'GMRFBlockUpdate::hastings', ok, where(gm.module, fn), None,
              "block update must return log q(reverse) − log q(forward): forward term from the Gaussian draw, reverse term from the previous field")


# ---------------------------------------------------------------------------
def monotone(expr: ast.AST, var: str, nonneg_var=False) -> Optional[int]:
    """direction (+1 increasing, -1 decreasing, 0 constant) of expr in `var`, by structural
    rules on monotone primitives; None if unknown.  Values of exp() are positive."""
    def go(e):
        # returns (direction, sign) with sign in {+1,-1,None}
        if isinstance(e, ast.Name):
            if e.id == var:
                return 1, (1 if nonneg_var else None)
            return 0, None
        if isinstance(e, ast.Constant) and isinstance(e.value, (int, float)):
            return 0, (1 if e.value > 0 else (-1 if e.value < 0 else 0))
        if isinstance(e, ast.Attribute):
            return 0, 1  # tuning attributes are positive quantities
        if isinstance(e, ast.UnaryOp) and isinstance(e.op, ast.USub):
            d, s = go(e.operand)
            return (None if d is None else -d), (None if s is None else -s)
        if isinstance(e, ast.Call):
            fn = (dotted_name(e.func) or '').split('.')[-1]
            if fn in ('exp', 'log', 'sqrt', 'log1p', 'expm1', 'float', 'tanh', 'sigmoid') and e.args:
                d, s = go(e.args[0])
                return d, (1 if fn in ('exp', 'sqrt', 'sigmoid') else None)
            if fn == 'pow' and len(e.args) == 2 and isinstance(e.args[1], ast.Constant) and e.args[1].value > 0:
                d, s = go(e.args[0])
                return (d if s == 1 else (0 if d == 0 else None)), (1 if e.args[1].value % 2 == 0 else s)
            return None, None
        if isinstance(e, ast.BinOp):
            dl, sl = go(e.left)
            dr, sr = go(e.right)
            if isinstance(e.op, (ast.Add, ast.Sub)):
                if dl is None or dr is None:
                    return None, None
                if isinstance(e.op, ast.Sub):
                    dr = -dr
                    sr = None if sr is None else -sr
                if dl == 0:
                    d = dr
                elif dr == 0 or dr == dl:
                    d = dl
                else:
                    d = None
                s = sl if (sl is not None and sl == sr) else (1 if (sl == 1 and sr in (0, 1)) or (sr == 1 and sl in (0, 1)) else None)
                return d, s
            if isinstance(e.op, ast.Mult):
                if dl is None or dr is None:
                    return None, None
                if dl == 0 and dr == 0:
                    return 0, (None if sl is None or sr is None else sl * sr)
                if dl == 0:
                    return (None if sl is None else dr * sl), (None if sl is None or sr is None else sl * sr)
                if dr == 0:
                    return (None if sr is None else dl * sr), (None if sl is None or sr is None else sl * sr)
                if sl == 1 and sr == 1 and dl == dr:
                    return dl, 1
                return None, None
            if isinstance(e.op, ast.Div):
                if dl is None or dr is None:
                    return None, None
                if dr == 0:
                    return (None if sr is None else dl * sr), (None if sl is None or sr is None else sl * sr)
                if dl == 0 and sr == 1 and sl is not None:
                    return -dr * sl, sl
                return None, None
            if isinstance(e.op, ast.Pow) and isinstance(e.right, ast.Constant) and e.right.value > 0:
                return (dl if sl == 1 else (0 if dl == 0 else None)), (1 if e.right.value % 2 == 0 else sl)
        return None, None
    return go(expr)[0]


def _inline_properties(cls: ClassInfo, expr, depth=0):
    """replace `self.<p>` by the expression a single-return property getter <p> of the class returns (tuning_parameter -> self._scaler)"""
    import copy

    class T(ast.NodeTransformer):
        def visit_Attribute(self_, n):
            self_.generic_visit(n)
            if isinstance(n.ctx, ast.Load) and isinstance(n.value, ast.Name) and n.value.id == 'self' and depth < 3:
                try:
                    g = cls.resolve(n.attr, 'getter')
                except Exception:
                    g = None
                if g:
                    body = [b for b in g[1].body if not (isinstance(b, ast.Expr) and isinstance(b.value, ast.Constant))]
                    if len(body) == 1 and isinstance(body[0], ast.Return) and body[0].value is not None:
                        return _inline_properties(cls, copy.deepcopy(body[0].value), depth + 1)
            return n
    return T().visit(copy.deepcopy(expr))


def setter_store(cls: ClassInfo):
    """(setter function, its value parameter, target attribute node, stored expression in terms of the parameter): the single store of set_adaptable_parameter,
    followed through one delegation `self.m(<expr>)` to a method whose body is the single store `self.attr = <param>`."""
    import copy
    r = cls.resolve('set_adaptable_parameter')
    if r is None:
        raise Unsupported(cls.node, 'no set_adaptable_parameter')
    fn = r[1]
    var = fn.args.args[1].arg
    stores = [st for st in ast.walk(fn) if isinstance(st, ast.Assign)]
    if len(stores) == 1:
        return fn, var, stores[0].targets[0], stores[0].value
    calls = [st.value for st in fn.body if isinstance(st, ast.Expr) and isinstance(st.value, ast.Call) and self_attr(st.value.func)]
    if not stores and len(calls) == 1 and len(calls[0].args) == 1 and not calls[0].keywords:
        r2 = cls.resolve(calls[0].func.attr)
        if r2 is not None and len(r2[1].args.args) == 2:
            inner = r2[1]
            st2 = [st for st in ast.walk(inner) if isinstance(st, ast.Assign)]
            if len(st2) == 1:
                p2 = inner.args.args[1].arg

                class Sub(ast.NodeTransformer):
                    def visit_Name(self_, n):
                        if n.id == p2 and isinstance(n.ctx, ast.Load):
                            return copy.deepcopy(calls[0].args[0])
                        return n
                return fn, var, st2[0].targets[0], Sub().visit(copy.deepcopy(st2[0].value))
    raise Unsupported(fn, 'set_adaptable_parameter is not a single store')


def spread_direction(ctx, cls: ClassInfo):
    """(attribute set by set_adaptable_parameter, direction of the attribute in the adaptable value,
    direction of the proposal spread in the attribute, description)."""
    fn, var, tgt, stored = setter_store(cls)
    attr_text = ast.unparse(tgt)
    # adaptable_parameter getter tells whether the adaptable value is non-negative (sqrt(...))
    g = cls.resolve('adaptable_parameter', 'getter')
    nonneg = bool(g) and any(isinstance(n, ast.Call) and (dotted_name(n.func) or '').endswith('sqrt') for n in ast.walk(g[1]))
    d1 = monotone(stored, var, nonneg)
    # spread in the attribute
    d2, how = None, ''
    attr = tgt.attr
    searched = [cls.resolve('_step')[1]] if cls.resolve('_step') else []
    for nm in ('propose_precision',):
        if cls.resolve(nm):
            searched.append(cls.resolve(nm)[1])

    def sym_of(e):
        if isinstance(e, ast.Attribute) and e.attr == attr:
            return Rat.sym('t')
        return None
    for fn2 in searched:
        defs = local_assignments(fn2)
        for n in ast.walk(fn2):
            # uniform draw on an interval: a + rand * L   (or rand * L + a)
            if isinstance(n, ast.BinOp) and isinstance(n.op, ast.Mult):
                for u, L in ((n.left, n.right), (n.right, n.left)):
                    has_rand = any(isinstance(c, ast.Call) and (dotted_name(c.func) or '').split('.')[-1] == 'rand' for c in ast.walk(u))
                    centred = isinstance(u, ast.BinOp) and isinstance(u.op, ast.Sub) and isinstance(u.right, ast.Constant)
                    pure = has_rand and (centred or not isinstance(u, ast.BinOp))
                    if not pure:
                        continue
                    exprs = [L]
                    if isinstance(L, ast.Name) and L.id in defs:
                        exprs = defs[L.id]
                    for ex in exprs:
                        if not any(isinstance(a, ast.Attribute) and a.attr == attr for a in ast.walk(ex)):
                            continue
                        try:
                            rat = ToRat(sym_of)(ex)
                        except Unsupported:
                            continue
                        s = rat.diff('t').sign_on_positive()
                        if s in (1, -1) and d2 is None:
                            d2, how = s, f"uniform draw of width {ast.unparse(ex)} (d/dt has sign {s:+d} for t>0)"
            # Dirichlet(value * t): concentration multiplier
            if isinstance(n, ast.Call) and (dotted_name(n.func) or '').split('.')[-1] == 'Dirichlet' and n.args:
                for ex in backward_slice(n.args[0], defs):
                    if any(isinstance(a, ast.Attribute) and a.attr == attr for a in ast.walk(ex)) and isinstance(ex, ast.BinOp) \
                            and isinstance(ex.op, ast.Mult) and d2 is None:
                        d2, how = -1, f"Dirichlet concentration {ast.unparse(ex)}: larger multiplier = more concentrated proposal"
                    if any(isinstance(a, ast.Attribute) and a.attr == attr for a in ast.walk(ex)) and isinstance(ex, ast.BinOp) \
                            and isinstance(ex.op, ast.Div) and d2 is None:
                        d2, how = 1, f"Dirichlet concentration {ast.unparse(ex)}: larger divisor = more diffuse proposal"
    if attr == 'step_size':
        d2, how = 1, "integrator step size: larger step = bolder proposal (trusted fact)"
    return attr_text, d1, d2, how


def inverse_pair(cls: ClassInfo):
    """adaptable_parameter getter g(attr) and set_adaptable_parameter f(value): decide g(f(v)) == v
    for the forms  c*log(R(attr)) with R(f) = exp(v)^k, c*k = 1   and   sqrt(R(attr)) with R(f) = v^2."""
    r = cls.resolve('set_adaptable_parameter')
    g = cls.resolve('adaptable_parameter', 'getter')
    if r is None or g is None:
        raise Unsupported(cls.node, 'getter/setter pair not found')
    fn, var, tgt_, stored = setter_store(cls)
    rets = [n for n in ast.walk(g[1]) if isinstance(n, ast.Return)]
    if len(rets) != 1:
        raise Unsupported(fn, 'getter/setter not single expressions')
    attr_text = ast.unparse(tgt_)

    def f_atom(e):
        if isinstance(e, ast.Name) and e.id == var:
            return Rat.sym('v')
        if isinstance(e, ast.Call) and (dotted_name(e.func) or '').split('.')[-1] == 'exp' and e.args:
            a = e.args[0]
            if isinstance(a, ast.Name) and a.id == var:
                return Rat.sym('E')
            if isinstance(a, ast.UnaryOp) and isinstance(a.op, ast.USub) and isinstance(a.operand, ast.Name) and a.operand.id == var:
                return Rat.const(1) / Rat.sym('E')
        return None
    f = ToRat(f_atom)(stored)

    def g_atom(e):
        if ast.unparse(e) == attr_text:
            return Rat.sym('t')
        return None
    rv = _inline_properties(cls, rets[0].value)
    c = 1
    if isinstance(rv, ast.UnaryOp) and isinstance(rv.op, ast.USub):
        c, rv = -1, rv.operand
    if not isinstance(rv, ast.Call):
        raise Unsupported(rv, 'getter form not understood')
    kind = (dotted_name(rv.func) or '').split('.')[-1]
    R = ToRat(g_atom)(rv.args[0]).subst('t', f)
    if kind == 'log':
        for k in (1, -1, 2, -2):
            if R.equals(Rat.sym('E') ** k):
                return c * k == 1, f"getter = {c}*log(R), R(setter(v)) = exp(v)^{k}"
        return False, f"getter log argument composed with the setter is {R}, not a power of exp(v)"
    if kind == 'sqrt':
        return (c == 1 and R.equals(Rat.sym('v') ** 2)), f"getter = sqrt(R), R(setter(v)) = {R}"
    raise Unsupported(rv, f"getter function {kind} not understood")


def check_tuning(ctx, rep):
    base = ctx.classes.get(OPERATOR)
    tune = base.resolve('tune')[1]
    W = where(base.module, tune)
    # tune: adaptable += (acc - target) / positive
    stores = [st for st in ast.walk(tune) if isinstance(st, ast.Assign) and isinstance(st.targets[0], ast.Name)]
    ok = False
    for st in stores:
        try:
            def atom(e):
                if self_attr(e) == 'adaptable_parameter':
                    return Rat.sym('x')
                if self_attr(e) == 'target_acceptance_probability':
                    return Rat.sym('target')
                if self_attr(e):
                    return Rat.sym('n_' + self_attr(e))
                if isinstance(e, ast.Call) and isinstance(e.func, ast.Attribute) and e.func.attr == 'item':
                    return atom(e.func.value)
                if isinstance(e, ast.Name):
                    return Rat.sym('acc' if 'acc' in e.id or 'prob' in e.id else e.id)
                return None
            val = ToRat(atom)(st.value)
        except Unsupported:
            continue
        d_acc = val.diff('acc')
        d_x = val.diff('x')
        if d_x.equals(1) and d_acc.sign_on_positive() == 1 and val.subst('acc', Rat.sym('target')).equals(Rat.sym('x')):
            ok = True
    rep.check('C15.A', 'MCMCOperator.tune::robbins-monro-sign', ok, W, None,
              "tune must move the adaptable value by +(acceptance − target)/positive: up when acceptance is above target, unchanged at target")
    n = 0
    for sub in [base] + ctx.classes.subclasses(OPERATOR, strict=True):
        if sub.is_abstract():
            continue
        n += 1
        key = f"{sub.qualname}::tuning-direction"
        try:
            attr, d1, d2, how = spread_direction(ctx, sub)
        except Unsupported as u:
            rep.undecided('C15.A', key, where(sub.module, sub.node), str(u))
            continue
        facts = {'tuned_attribute': attr, 'attribute_vs_adaptable_value': d1, 'spread_vs_attribute': d2, 'how': how}
        r = sub.resolve('set_adaptable_parameter')
        if d1 is None or d2 is None:
            rep.undecided('C15.A', key, where(r[0].module, r[1]), 'direction not determined by the structural rules', facts)
            continue
        try:
            inv_ok, inv_how = inverse_pair(sub)
            rep.check('C15.A', f"{sub.qualname}::getter-inverts-setter", inv_ok, where(r[0].module, r[1]), {'how': inv_how},
                      f"{sub.name}.adaptable_parameter is not the inverse of set_adaptable_parameter ({inv_how}): every tune() call jumps the tuning value")
        except Unsupported as u:
            rep.undecided('C15.A', f"{sub.qualname}::getter-inverts-setter", where(r[0].module, r[1]), str(u))
        rep.check('C15.A', key, d1 * d2 > 0, where(r[0].module, r[1]), facts,
                  f"{sub.name}: a larger adaptable value (acceptance above target) moves {attr} "
                  f"{'up' if d1 > 0 else 'down'}, which makes proposals {'bolder' if d1 * d2 > 0 else 'more timid'} ({how}): "
                  f"acceptance above target makes the next proposals more timid, so tuning drives the acceptance rate away from the target")
    if n < 5:
        raise AnalysisError('operator classes not found for tuning analysis')
    # step-size adaptors
    ad = ctx.classes.get('torchtree.inference.hmc.adaptation.AdaptiveStepSize')
    fn = ad.resolve('learn')[1]
    ok = False
    for st in ast.walk(fn):
        if isinstance(st, ast.Assign) and isinstance(st.targets[0], ast.Name):
            try:
                def atom2(e):
                    if isinstance(e, ast.Call) and (dotted_name(e.func) or '').endswith('log'):
                        return Rat.sym('x')
                    if self_attr(e) == 'target_acceptance_probability':
                        return Rat.sym('target')
                    if self_attr(e):
                        return Rat.sym('n_' + self_attr(e))
                    if isinstance(e, ast.Name):
                        return Rat.sym('acc')
                    return None
                val = ToRat(atom2)(st.value)
                if val.diff('x').equals(1) and val.diff('acc').sign_on_positive() == 1:
                    ok = True
            except Unsupported:
                pass
    rep.check('C15.A', 'AdaptiveStepSize.learn::sign', ok, where(ad.module, fn), None,
              "AdaptiveStepSize must move log(step size) by +(acceptance − target)/positive")
    da = ctx.classes.get('torchtree.inference.hmc.adaptation.DualAveragingStepSize')
    fn = da.resolve('learn')[1]
    # statistic handed to dual averaging is (target - acceptance): x = mu - s_bar*sqrt(t)/gamma decreases in s_bar
    stat_ok = False
    for c in method_calls(fn, 'step'):
        if c.args and isinstance(c.args[0], ast.BinOp) and isinstance(c.args[0].op, ast.Sub):
            l, rr = c.args[0].left, c.args[0].right
            if self_attr(l) and isinstance(rr, ast.Name):
                stat_ok = True
    dav = ctx.prog.module('torchtree.ops.dual_averaging').classes.get('DualAveraging')
    x_ok = False
    if dav is not None:
        for st in ast.walk(dav):
            if isinstance(st, ast.Assign) and any(self_attr(t) == 'x' for t in st.targets):
                v = st.value
                if isinstance(v, ast.BinOp) and isinstance(v.op, ast.Sub) and any(self_attr(a) == 's_bar' for a in ast.walk(v.right)) \
                        and not any(self_attr(a) == 's_bar' for a in ast.walk(v.left)):
                    x_ok = True
    rep.check('C15.A', 'DualAveragingStepSize.learn::sign', stat_ok and x_ok, where(da.module, fn), {'statistic_is_target_minus_acceptance': stat_ok, 'x_decreases_in_s_bar': x_ok},
              "dual averaging: the statistic must be (target − acceptance) and x = mu − s̄·√t/γ, so acceptance above target raises the step size")


# ---------------------------------------------------------------------------
# C15.U — one uniform draw has one use
# ---------------------------------------------------------------------------
RAND_POSITIVE = """
def propose(self):
    u = torch.rand(1).item()
    if u < self.p:
        m = self.a + self.b * u
    else:
        m = math.pow(self.s, 2.0 * u - 1)
    v = torch.rand(1)
    w = torch.rand(1)
    if v < self.p:
        k = w * 2
    return m, k
"""


def reused_draws(fn):
    """names bound to a random draw that decide a branch *and* enter a value computed inside that branch"""
    out = []
    draws = {}
    for st in ast.walk(fn):
        if isinstance(st, ast.Assign) and len(st.targets) == 1 and isinstance(st.targets[0], ast.Name):
            if any(isinstance(c, ast.Call) and (dotted_name(c.func) or '').split('.')[-1] in ('rand', 'uniform_', 'random', 'uniform') for c in ast.walk(st.value)) \
                    and not any(isinstance(c, ast.Call) and (dotted_name(c.func) or '').split('.')[-1] in ('randint', 'randperm') for c in ast.walk(st.value)):
                draws[st.targets[0].id] = st
    for node in ast.walk(fn):
        if isinstance(node, (ast.If, ast.IfExp)):
            tested = {x.id for x in ast.walk(node.test) if isinstance(x, ast.Name) and x.id in draws}
            if not tested:
                continue
            branches = (node.body + node.orelse) if isinstance(node, ast.If) else [node.body, node.orelse]
            for b in branches:
                for x in ast.walk(b):
                    if isinstance(x, ast.Name) and isinstance(x.ctx, ast.Load) and x.id in tested:
                        out.append((x.id, node, x))
    return out


def check_independent_draws(ctx, rep):
    t = ast.parse(RAND_POSITIVE)
    got = sorted({(name, x.lineno) for name, _, x in reused_draws(t.body[0])})
    if got != [('u', 5), ('u', 7)]:
        raise AnalysisError(f"C15.U self-check failed: {got}")
    n = 0
    for mname, m in sorted(ctx.prog.modules.items()):
        if not (mname.startswith('torchtree.inference.mcmc') or mname.startswith('torchtree.inference.hmc')):
            continue
        for cname, cnode in m.classes.items():
            for fn in [b for b in cnode.body if isinstance(b, ast.FunctionDef)]:
                has_draw = any(isinstance(c, ast.Call) and (dotted_name(c.func) or '').split('.')[-1] == 'rand' for c in ast.walk(fn))
                if not has_draw:
                    continue
                n += 1
                hits = reused_draws(fn)
                key = f"{cname}.{fn.name}::one-use-per-uniform-draw"
                if hits:
                    name, node, x = hits[0]
                    rep.bad('C15.U', key, where(m, x), {'draw': name, 'uses': sorted({y.lineno for _, _, y in hits})},
                            f"{cname}.{fn.name}: the uniform draw `{name}` chooses the branch (`{norm_text(node.test)[:50]}`) and is used again inside the chosen branch: conditionally on the "
                            f"branch it is no longer uniform on (0, 1), so the proposal does not have the density the Hastings ratio (or its claimed symmetry) assumes")
                else:
                    rep.ok('C15.U', key, where(m, fn), None)
    if n < 3:
        rep.incomplete('C15.U', '*', '', f"only {n} methods drawing uniforms found in the samplers")


def run(ctx, rep):
    from sa import callbind
    callbind.run_for(ctx, rep, 'C15', 6)
    rep.explanation = (
        "MCMC.run is decided on its CFG and def-use chains with roles recovered from dataflow (operator variable, Hastings "
        "variable = result of step(), carried density = joint() before the loop, proposal density = joint() inside it): "
        "accept/reject pairing on every path, carried density updated on the accepted branch only, evaluation order, the "
        "log-ratio as a polynomial identity, exp(min(0,·)) and the uniform comparison, non-finite guards.  Save/restore "
        "discipline of MCMCOperator and every subclass; Hastings terms of each operator by role; tuning direction by a "
        "sign/monotonicity analysis composing set_adaptable_parameter with how the tuned attribute enters the proposal."
    )
    rep.rule('C15.L', "MCMC.run: one of accept()/reject() on every path after step(); carried density updated only on acceptance from the proposal's density; "
                      "log ratio = +proposed − current + hastings; prob = exp(min(0,·)); accepted = prob > fresh uniform; non-finite proposals rejected")
    rep.rule('C15.S', "MCMCOperator.step clones every parameter tensor before _step; reject restores each through the tensor setter; overriding subclasses call super(); HMC failure path restores")
    rep.rule('C15.Q', "each operator returns the log ratio of reverse to forward proposal density of the move it makes (by dataflow role)")
    rep.rule('C15.A', "composition (adaptable value → tuned attribute → proposal spread) is increasing for every operator; tune/learn add +(acceptance − target)/positive")
    rep.assumptions += ["a Dirichlet proposal is more concentrated for a larger concentration multiplier; a larger integrator step size is a bolder proposal"]
    rep.not_decided += ["stationarity statistically", "logger row consistency at run time (implied by C11 wiring)", "HMC Hastings term (C16.K)"]
    # the HMC operator's Hastings term (kinetic-energy change, momentum draw ↔ kinetic energy pair) is decided by the
    # C16.K rules; they are part of this property too
    try:
        from props import c16

        class Proxy:
            def __init__(self, rep):
                self._rep = rep

            def __getattr__(self, name):
                return getattr(self._rep, name)

            def check(self, rule, key, cond, *a, **k):
                return self._rep.check('C15.Q', 'HMC::' + key, cond, *a, **k)

            def bad(self, rule, key, *a, **k):
                return self._rep.bad('C15.Q', 'HMC::' + key, *a, **k)

            def ok(self, rule, key, *a, **k):
                return self._rep.ok('C15.Q', 'HMC::' + key, *a, **k)

            def undecided(self, rule, key, *a, **k):
                return self._rep.undecided('C15.Q', 'HMC::' + key, *a, **k)
        c16.check_operator(ctx, Proxy(rep))
        c16.check_integrator(ctx, Proxy(rep))
    except Unsupported as u:
        rep.undecided('C15.Q', 'HMC::check_operator', f"line {getattr(u.node, 'lineno', 0)}", str(u))
    for fn in (check_loop, check_save_restore, check_hastings, check_tuning):
        try:
            fn(ctx, rep)
        except Unsupported as u:
            rep.undecided('C15.' + {'check_loop': 'L', 'check_save_restore': 'S', 'check_hastings': 'Q', 'check_tuning': 'A'}[fn.__name__],
                          fn.__name__, f"line {getattr(u.node, 'lineno', 0)}", str(u))
    # every logged row is self-consistent: loggers (and the sampler) evaluate the model, they never read its cache
    from props import c11
    c11.check_cache_bypass(ctx, rep, rule='C15.R', only=lambda m: m.name in ('torchtree.core.logger', 'torchtree.inference.mcmc.mcmc', 'torchtree.inference.sampler'))
    # the mass matrix the momentum is drawn from and the inverse the kinetic energies use stay in step: the adaptors write the metric through the notifying setter (C11.W on
    # the hmc package), as the operators do with the parameters they move
    from props import c11 as _c11q
    from sa.report import RuleProxy as _RPq
    _c11q.check_inplace(ctx, _RPq(rep, 'C15.Q', 'metric::'), rule='C11.W', only=lambda m_, fn_: m_.name.startswith('torchtree.inference.hmc'))
    rep.rule('C15.R', "logged densities are obtained by calling the model (never by reading the value cached by an earlier call)")
    rep.ok('C15.R', 'loggers::call-the-model', '', {'modules': 3})
    from sa.report import RuleProxy
    rep.rule('C15.U', "a uniform draw that chooses between proposal branches is not used again inside the chosen branch (each use of randomness is its own draw)")
    check_independent_draws(ctx, rep)
    # the density of the proposed state is the target at that state: a proposal / restore made through a view notifies the viewed parameter (its holders listen to it)
    c11.check_inplace(ctx, RuleProxy(rep, 'C15.R', 'in-place::'), rule='C11.W', only=lambda m, fn: m.name == 'torchtree.core.parameter')
    check_no_state_dependent_redraws(ctx, rep)
    check_loggers_keep_no_live_tensors(ctx, rep)
    # the Hastings ratio of the GMRF block update needs the Gaussian of the CURRENT state for the backward move (C20.H)
    from props import c20
    c20.check_block_update_reads_before_it_writes(ctx, RuleProxy(rep, 'C15.Q', 'gmrf-block-update::'))


REDRAW_POSITIVE = """
class Op:
    def _step(self):
        shift = self._width * (torch.rand(1).item() - 0.5)
        value = p[index2].item()
        while not self._in_support(value + shift):
            shift = self._width * (torch.rand(1).item() - 0.5)
        p[index2] += shift
        return torch.tensor(0.0)
"""


def state_dependent_redraws(fn):
    """`while <test on the proposed value>: <draw again>` inside a proposal: the move is drawn from the proposal distribution CONDITIONED on passing the test, whose normalising
    constant depends on the current state — q(x'|x) and q(x|x') then differ although the code returns the Hastings ratio of the unconditioned proposal"""
    out = []
    for lp in ast.walk(fn):
        if isinstance(lp, ast.While):
            draws = [c for c in ast.walk(lp) if isinstance(c, ast.Call) and (dotted_name(c.func) or '').split('.')[-1] in ('rand', 'randn', 'randint', 'sample', 'rsample', 'uniform', 'normal', 'random')]
            if draws:
                out.append((lp, draws[0]))
    return out


def check_no_state_dependent_redraws(ctx, rep):
    t = ast.parse(REDRAW_POSITIVE).body[0].body[0]
    if len(state_dependent_redraws(t)) != 1:
        raise AnalysisError('C15.Q self-check: the redraw loop of the embedded example is not recognised')
    n = 0
    for sub in [ctx.classes.get(OPERATOR)] + ctx.classes.subclasses(OPERATOR, strict=True):
        r = sub.resolve('_step')
        if r is None or r[0] is not sub:
            continue
        n += 1
        hits = state_dependent_redraws(r[1])
        rep.check('C15.Q', f"{sub.qualname}._step::proposal-is-not-redrawn-until-it-fits", not hits, where(sub.module, hits[0][0]) if hits else where(sub.module, r[1]),
                  {'loops': [norm_text(h[0].test)[:60] for h in hits]},
                  f"{sub.name}._step draws again inside `while {norm_text(hits[0][0].test)[:50] if hits else ''}`: the proposal actually made is the proposal distribution restricted to "
                  f"the values that pass the test, a restriction that depends on the current state; the Hastings ratio returned is that of the unrestricted proposal, so near the "
                  f"boundary forward and backward moves are not balanced")
    if n < 4:
        rep.incomplete('C15.Q', 'redraws', '', f"only {n} operator _step methods found")


ALIAS_POSITIVE = """
class L:
    def log(self, *args, **kwargs):
        row = [sample]
        for obj in self.objs:
            row.append(obj.tensor.detach())
        self._buffer.append(row)
    def log_ok(self, *args, **kwargs):
        row = [sample]
        for obj in self.objs:
            row.extend(obj.tensor.detach().cpu().tolist())
        self._buffer.append(row)
"""


def aliases_kept_by_logger(fn):
    """statements that put into the logger's own state a value that is still the live tensor of a parameter / the value a model returned (detach / cpu / reshape are views, not
    copies): when the row is written later, an in-place proposal or a rejection has changed what it shows"""
    COPY = ('tolist', 'item', 'clone', 'numpy', 'copy', 'float', 'str', 'format')

    def alias(e):
        """the expression is (a view of) a live tensor"""
        if isinstance(e, ast.Call) and isinstance(e.func, ast.Attribute):
            if e.func.attr in COPY:
                return False
            if e.func.attr in ('detach', 'cpu', 'reshape', 'view', 'squeeze', 'unsqueeze', 'sum', 'expand', 'flatten', 'contiguous', 'double', 'to'):
                return alias(e.func.value) if e.func.attr != 'sum' else alias(e.func.value)
            return False
        if isinstance(e, ast.Attribute) and e.attr == 'tensor':
            return True
        if isinstance(e, ast.Name) and e.id in tensor_names:
            return True
        return False
    tensor_names = set()
    for st in ast.walk(fn):
        if isinstance(st, ast.Assign) and len(st.targets) == 1 and isinstance(st.targets[0], ast.Name):
            v = st.value
            if (isinstance(v, ast.Call) and isinstance(v.func, ast.Name) and v.func.id == 'obj') or alias(v):
                tensor_names.add(st.targets[0].id)
    for _ in range(2):
        for st in ast.walk(fn):
            if isinstance(st, ast.Assign) and len(st.targets) == 1 and isinstance(st.targets[0], ast.Name) and alias(st.value):
                tensor_names.add(st.targets[0].id)
    lists = set()
    for c in ast.walk(fn):
        if isinstance(c, ast.Call) and isinstance(c.func, ast.Attribute) and c.func.attr in ('append', 'extend') and isinstance(c.func.value, ast.Name) and c.args and alias(c.args[0]):
            lists.add(c.func.value.id)
    out = []
    for st in ast.walk(fn):
        if isinstance(st, ast.Expr) and isinstance(st.value, ast.Call) and isinstance(st.value.func, ast.Attribute) and st.value.func.attr in ('append', 'extend', 'appendleft') \
                and self_attr(st.value.func.value) and st.value.args:
            a = st.value.args[0]
            if (isinstance(a, ast.Name) and a.id in lists) or alias(a):
                out.append(st)
        if isinstance(st, ast.Assign) and any(self_attr(t) or (isinstance(t, ast.Subscript) and self_attr(t.value)) for t in st.targets):
            if (isinstance(st.value, ast.Name) and st.value.id in lists) or alias(st.value):
                out.append(st)
    return out


def check_loggers_keep_no_live_tensors(ctx, rep):
    t = ast.parse(ALIAS_POSITIVE).body[0]
    got = [len(aliases_kept_by_logger(f)) for f in t.body]
    if got != [1, 0]:
        raise AnalysisError(f"C15.R self-check: embedded logger examples give {got}")
    m = ctx.prog.module('torchtree.core.logger')
    n = 0
    for cname, cnode in sorted(m.classes.items()):
        for fn in cnode.body:
            if isinstance(fn, ast.FunctionDef) and fn.name in ('log', '__call__', 'run'):
                n += 1
                hits = aliases_kept_by_logger(fn)
                rep.check('C15.R', f"loggers::{cname}.{fn.name}::rows-are-materialised-when-they-are-logged", not hits, where(m, hits[0]) if hits else where(m, fn),
                          {'kept': [norm_text(h)[:60] for h in hits]},
                          f"{cname}.{fn.name} keeps `{norm_text(hits[0])[:60] if hits else ''}` — a view of the live tensor, not a copy: by the time the row is written an in-place proposal "
                          f"(or its rejection) has changed it, and the logged density no longer belongs to the logged parameter values")
    if n < 3:
        rep.incomplete('C15.R', 'loggers', '', f"only {n} logging methods found")
