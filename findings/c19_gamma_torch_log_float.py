"""C19 (fixed): `torchtree-cli advi --distribution Gamma` raised TypeError (torch.log on a float).
Run: PYTHONPATH=<tree> /venv/bin/python findings/c19_gamma_torch_log_float.py   (exit 1 = defect present)"""
import io, sys, contextlib
from torchtree.cli.cli import main
sys.argv = ['torchtree-cli', 'advi', '-i', '/repo/data/fluA.fa', '-t', '/repo/data/fluA.tree', '--distribution', 'Gamma']
buf = io.StringIO()
try:
    with contextlib.redirect_stdout(buf):
        main()
except TypeError as e:
    print('DEFECT: CLI crashed:', e); sys.exit(1)
print('OK: configuration emitted,', len(buf.getvalue()), 'bytes'); sys.exit(0)
