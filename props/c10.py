"""C10 — a sample dimension never mixes samples.

Decided clause (C10.D) only: in the evaluation methods of densities, models, transforms and derived parameters, and in the
likelihood kernels, no *whole-tensor* reduction (sum / mean / prod / max / min / logsumexp / unique … without an axis) is
applied to a value that can carry a sample dimension (a value derived from a method argument or from an attribute of the
object).  Such a reduction folds all samples into one number, so for batched input the value reported for sample s depends
on the other samples — a violation of the property for every batched evaluation that reaches it.  This is a necessary
condition of C10, not C10: which broadcasts are right when only some parameters are batched, the S == K coincidences and the
shape-dependent reduction of the joint density quantify over run-time shapes and are not decided.

Whole-tensor reductions that exist today were read one by one; the ones that are right are frozen in TABLE with their reason
(boolean reductions used only to choose a code path are recognised structurally).
"""
from __future__ import annotations

import ast
from typing import Dict, List, Optional

from sa.loader import AnalysisError, Unsupported, dotted_name, norm_text
from sa.report import where
from sa.util import backward_slice, local_assignments

REDUCTIONS = {'sum', 'mean', 'prod', 'max', 'min', 'amax', 'amin', 'logsumexp', 'median', 'norm', 'unique', 'nansum', 'nanmean', 'std', 'var', 'argmax', 'argmin'}
BOOLEAN = {'any', 'all'}
SKIP_METHODS = {'from_json', 'json_factory', '__init__', '__repr__', '__str__', '__eq__', 'maximum_likelihood', 'to', 'cuda', 'cpu', 'state_dict', 'load_state_dict',
                'update_bounds', 'sort_indices', 'update_traversals', 'update_leaf_heights', 'setup_indexes', 'initialize', 'log', 'close', 'parameters'}
SCOPE_PACKAGES = ('torchtree.distributions.', 'torchtree.evolution.coalescent', 'torchtree.evolution.bdsk', 'torchtree.evolution.birth_death', 'torchtree.evolution.tree_likelihood',
                  'torchtree.evolution.site_model', 'torchtree.evolution.branch_model', 'torchtree.evolution.substitution_model.', 'torchtree.evolution.tree_model',
                  'torchtree.evolution.tree_height_transform', 'torchtree.evolution.rate_transform', 'torchtree.evolution.poisson_tree_likelihood', 'torchtree.core.parameter',
                  'torchtree.core.container', 'torchtree.core.model', 'torchtree.nn.', 'torchtree.ops.', 'torchtree.distributions')

# whole-tensor reductions confirmed by reading: (qualified function, normalised text of the call) -> reason
TABLE = {
    ('torchtree.distributions.joint_distribution.JointDistributionModel.entropy', 'torch.cat(entropies, 0).sum()'):
        "entropy of the variational family: a number per family, its parameters are never sampled; not the model call the property is about",
}


def method_name(call: ast.Call) -> str:
    return (dotted_name(call.func) or (call.func.attr if isinstance(call.func, ast.Attribute) else '')).split('.')[-1]


def reduction_without_axis(c: ast.Call) -> Optional[ast.AST]:
    """operand of a whole-tensor reduction, None if the call names an axis or is not a tensor reduction"""
    if not isinstance(c.func, ast.Attribute):
        return None
    name = c.func.attr
    if name not in REDUCTIONS and name not in BOOLEAN:
        return None
    base = c.func.value
    torch_fn = isinstance(base, ast.Name) and base.id == 'torch'
    if isinstance(base, ast.Name) and base.id in ('math', 'np', 'numpy', 'itertools', 'functools', 'builtins', 'random', 'operator', 'collections'):
        return None
    args = c.args[1:] if torch_fn else c.args
    if torch_fn and not c.args:
        return None
    if any(k.arg in ('dim', 'axis') for k in c.keywords):
        return None
    if args:
        # torch.max(a, b) element-wise; x.max(other) element-wise; everything else positional is the axis
        if name in ('max', 'min') and len(args) == 1 and not isinstance(args[0], (ast.Constant, ast.UnaryOp)):
            return None
        return None
    return c.args[0] if torch_fn else base


def may_be_batched(e: ast.AST, fn: ast.FunctionDef, defs) -> bool:
    """the value is derived from a method argument or an attribute of the object (not only from shapes, constants or fresh index ranges)"""
    params = {a.arg for a in fn.args.args + fn.args.kwonlyargs} - {'self', 'cls'}
    # one row picked out of a flattened tensor (`x.flatten()[:k]`, `x.reshape(-1)[:k]`) has no sample dimension left
    if isinstance(e, ast.Subscript) and isinstance(e.value, ast.Call) and isinstance(e.value.func, ast.Attribute) and (
            (e.value.func.attr in ('flatten', 'ravel') and not e.value.args) or (e.value.func.attr in ('reshape', 'view') and len(e.value.args) == 1 and ast.unparse(e.value.args[0]) == '-1')):
        return False
    exprs = list(backward_slice(e, defs))
    # lists filled by append / extend
    names = {n.id for x in exprs for n in ast.walk(x) if isinstance(n, ast.Name)}
    for c in ast.walk(fn):
        if isinstance(c, ast.Call) and isinstance(c.func, ast.Attribute) and c.func.attr in ('append', 'extend', 'insert') and isinstance(c.func.value, ast.Name) \
                and c.func.value.id in names and c.args:
            exprs += backward_slice(c.args[-1], defs)
    for x in exprs:
        for n in ast.walk(x):
            if isinstance(n, ast.Name) and n.id in params:
                par = getattr(n, '_parent', None)
                if isinstance(par, ast.Attribute) and par.attr in ('shape', 'dtype', 'device', 'ndim'):
                    continue
                return True
            if isinstance(n, ast.Attribute) and isinstance(n.value, ast.Name) and n.value.id == 'self':
                par = getattr(n, '_parent', None)
                if isinstance(par, ast.Attribute) and par.attr in ('shape', 'dtype', 'device', 'ndim'):
                    continue
                if n.attr in ('taxa_count', 'state_count', '_categories', 'dim', 'k'):
                    continue
                return True
    return False


def used_only_as_branch_condition(c: ast.Call) -> bool:
    p, child = getattr(c, '_parent', None), c
    while isinstance(p, (ast.BoolOp, ast.UnaryOp, ast.Compare)):
        child, p = p, getattr(p, '_parent', None)
    if isinstance(p, (ast.If, ast.While, ast.IfExp, ast.Assert)) and p.test is child:
        return True
    # x = torch.any(…); if x: …
    if isinstance(p, ast.Assign) and len(p.targets) == 1 and isinstance(p.targets[0], ast.Name):
        name = p.targets[0].id
        fn = p
        while fn is not None and not isinstance(fn, ast.FunctionDef):
            fn = getattr(fn, '_parent', None)
        if fn is not None:
            uses = [n for n in ast.walk(fn) if isinstance(n, ast.Name) and n.id == name and isinstance(n.ctx, ast.Load)]
            return bool(uses) and all(used_only_as_branch_condition_name(u) for u in uses)
    return False


def used_only_as_branch_condition_name(u: ast.Name) -> bool:
    p, child = getattr(u, '_parent', None), u
    while isinstance(p, (ast.BoolOp, ast.UnaryOp, ast.Compare)):
        child, p = p, getattr(p, '_parent', None)
    return isinstance(p, (ast.If, ast.While, ast.IfExp, ast.Assert)) and p.test is child



def branch_condition_kind(operand: ast.AST, fn: ast.FunctionDef, defs) -> str:
    """'numerical' (isinf / isnan / comparison with a tiny threshold of a computed value), 'tip-data' (derived from the tip part of the node heights only), else 'parameter'"""
    exprs = list(backward_slice(operand, defs))
    calls = {method_name(c) for e in exprs for c in ast.walk(e) if isinstance(c, ast.Call)}
    if calls & {'isinf', 'isnan', 'isfinite'}:
        return 'numerical'
    if any(isinstance(x, ast.Compare) and any(isinstance(y, ast.Name) and y.id in ('threshold', 'eps', 'tiny') for y in ast.walk(x)) for e in [operand] for x in ast.walk(e)):
        return 'numerical'
    names = {n.id for e in exprs for n in ast.walk(e) if isinstance(n, ast.Name)}
    attrs = {n.attr for e in exprs for n in ast.walk(e) if isinstance(n, ast.Attribute) and isinstance(n.value, ast.Name) and n.value.id == 'self'}
    params = {a.arg for a in fn.args.args} - {'self'}
    if not attrs and names & params and all('tip' in nm or nm in params or nm in ('torch', 'taxa_shape', 'taxa_count', 'int', 'len') for nm in names):
        # every name in the slice is the heights argument, a tip slice of it or a taxon count
        if any('tip' in nm for nm in names):
            return 'tip-data'
    return 'parameter'


POSITIVE = """
class D:
    def log_prob(self, x):
        a = torch.sum(x * self.theta)
        b = x.max()
        c = torch.logsumexp(x, -1)
        d = torch.max(x, self.theta)
        e = torch.arange(x.shape[-1]).sum()
        return a + b + c.sum(-1) + d.sum(dim=-1) + e
"""


def self_check():
    """the classifier must flag exactly the two whole-tensor reductions of the embedded example on every run"""
    t = ast.parse(POSITIVE)
    for n in ast.walk(t):
        for ch in ast.iter_child_nodes(n):
            ch._parent = n
    fn = t.body[0].body[0]
    defs = local_assignments(fn)
    flagged = []
    for c in ast.walk(fn):
        if isinstance(c, ast.Call):
            op = reduction_without_axis(c)
            if op is not None and may_be_batched(op, fn, defs):
                flagged.append(ast.unparse(c))
    if sorted(flagged) != ['torch.sum(x * self.theta)', 'x.max()']:
        raise AnalysisError(f"C10.D self-check failed: flagged {flagged}")


# ---------------------------------------------------------------------------
# C10.J — the joint density classifies each component against that component's own sample shape and adds components only
# ---------------------------------------------------------------------------
JOINT = 'torchtree.distributions.joint_distribution'


def check_joint(ctx, rep):
    m = ctx.prog.module(JOINT)
    cls = m.classes.get('JointDistributionModel')
    fn = next((f for f in cls.body if isinstance(f, ast.FunctionDef) and f.name == 'log_prob'), None) if cls is not None else None
    if fn is None:
        raise AnalysisError('JointDistributionModel.log_prob not found')
    loops = [n for n in fn.body if isinstance(n, ast.For) and isinstance(n.target, ast.Name) and 'callables' in ast.unparse(n.iter)]
    if len(loops) != 1:
        raise AnalysisError('JointDistributionModel.log_prob: loop over the component callables not found')
    loop = loops[0]
    comp = loop.target.id
    lp_names = {st.targets[0].id for st in loop.body if isinstance(st, ast.Assign) and isinstance(st.targets[0], ast.Name) and isinstance(st.value, ast.Call)
                and isinstance(st.value.func, ast.Name) and st.value.func.id == comp}
    if not lp_names:
        raise AnalysisError('JointDistributionModel.log_prob: component evaluation `lp = distr()` not found')
    # names bound to a sample shape, and whose it is: in statement order (a loop-body definition wins over one before the loop)
    owner = {}
    for st in fn.body:
        if st is loop:
            break
        if isinstance(st, ast.Assign) and isinstance(st.targets[0], ast.Name) and isinstance(st.value, ast.Attribute) and st.value.attr == 'sample_shape':
            owner[st.targets[0].id] = ast.unparse(st.value.value)
    for st in loop.body:
        if isinstance(st, ast.Assign) and isinstance(st.targets[0], ast.Name) and isinstance(st.value, ast.Attribute) and st.value.attr == 'sample_shape':
            owner[st.targets[0].id] = ast.unparse(st.value.value)

    def whose(e):
        if isinstance(e, ast.Attribute) and e.attr == 'sample_shape':
            return ast.unparse(e.value)
        if isinstance(e, ast.Name):
            return owner.get(e.id)
        return None
    n = 0
    for t in ast.walk(loop):
        if not isinstance(t, ast.Compare):
            continue
        sides = [t.left] + list(t.comparators)
        # `lp.shape == <sample shape>` and `len(lp.shape) - len(<sample shape>) > 0`: the classification of the component's value
        mentions_lp_shape = any(isinstance(x, ast.Attribute) and x.attr == 'shape' and isinstance(x.value, ast.Name) and x.value.id in lp_names for s_ in sides for x in ast.walk(s_))
        shapes = [w for s_ in sides for x in ast.walk(s_) for w in [whose(x)] if w is not None and not (isinstance(getattr(x, '_parent', None), ast.Attribute))]
        direct = isinstance(t.left, ast.Attribute) and t.left.attr == 'shape' and isinstance(t.left.value, ast.Name) and t.left.value.id in lp_names
        rank_diff = any(isinstance(x, ast.BinOp) and isinstance(x.op, ast.Sub) for s_ in sides for x in ast.walk(s_))
        if not (mentions_lp_shape and shapes and (direct or rank_diff)):
            continue
        n += 1
        ok = all(w == comp for w in shapes)
        rep.check('C10.J', f"JointDistributionModel.log_prob::component-classified-by-its-own-sample-shape::{norm_text(t)[:50]}", ok, where(m, t), {'sample_shape_of': shapes},
                  f"`{norm_text(t)[:70]}` compares the component's value with the sample shape of `{[w for w in shapes if w != comp]}` instead of the component's own: an unbatched "
                  f"component whose event size happens to equal the number of samples is taken for one value per sample and its terms are spread over the samples")
    if n < 2:
        rep.incomplete('C10.J', 'JointDistributionModel.log_prob::classification', where(m, fn), f"only {n} shape tests of the component value recognised")
    rets = [r for r in ast.walk(fn) if isinstance(r, ast.Return) and r.value is not None]
    acc = {c.func.value.id for st in ast.walk(loop) for c in [getattr(st, 'value', None)] if isinstance(st, ast.Expr) and isinstance(c, ast.Call)
           and isinstance(c.func, ast.Attribute) and c.func.attr == 'append' and isinstance(c.func.value, ast.Name)}

    def last_axis(c, pos):
        a = c.args[pos] if len(c.args) > pos else next((k.value for k in c.keywords if k.arg == 'dim'), None)
        return a is not None and ast.unparse(a) == '-1'

    def cat_sum(v):
        if not (isinstance(v, ast.Call) and isinstance(v.func, ast.Attribute) and v.func.attr == 'sum' and last_axis(v, 0)):
            return False
        c = v.func.value
        return isinstance(c, ast.Call) and ast.unparse(c.func) == 'torch.cat' and c.args and isinstance(c.args[0], ast.Name) and c.args[0].id in acc and last_axis(c, 1)
    ok = len(rets) == 1 and cat_sum(rets[0].value)
    # the terms are sample_shape_i + (1,): broadcasting them against each other aligns them on the RIGHT, i.e. the sample axes of a term of lower rank with later axes of the others
    after = fn.body[fn.body.index(loop) + 1:]
    bc = [c for st in after for c in ast.walk(st) if isinstance(c, ast.Call) and (ast.unparse(c.func).split('.')[-1] in ('broadcast_tensors', 'broadcast_to', 'expand', 'expand_as'))
          and any(isinstance(x, ast.Name) and x.id in acc for a in c.args for x in ast.walk(a))]
    rep.check('C10.J', 'JointDistributionModel.log_prob::component-terms-are-not-broadcast-against-each-other', not bc, where(m, bc[0] if bc else fn),
              {'accumulators': sorted(acc), 'statements_after_the_loop': len(after)},
              f"`{norm_text(bc[0])[:70] if bc else ''}` broadcasts the per-component terms (each <its sample shape> + (1,)) against each other: broadcasting aligns on the right, so a "
              f"term with fewer sample axes has its samples spread over another axis of the others — sample k of one component is added to sample (s, k) of the joint where the "
              f"plain concatenation refuses the mix")
    rep.check('C10.J', 'JointDistributionModel.log_prob::components-added-along-the-last-axis-only', ok, where(m, fn), {'returned': norm_text(rets[0].value)[:80] if rets else None},
              "the joint density must concatenate the per-component terms along the last axis and sum that axis only")


# ---------------------------------------------------------------------------
# C10.P — axes are addressed from the end
# ---------------------------------------------------------------------------
AXIS_OPS = {'unsqueeze', 'squeeze', 'sum', 'mean', 'prod', 'cumsum', 'logsumexp', 'amax', 'amin', 'transpose', 'flip', 'softmax', 'log_softmax', 'diff', 'select', 'permute', 'movedim',
            'flatten', 'argsort', 'sort', 'unbind', 'cat', 'stack'}
FRONT_TABLE = {
    ('torchtree.evolution.substitution_model.general.EmpiricalSubstitutionModel.create_rate_matrix', 'torch.sum(Q, dim=1)'):
        "builds the fixed rate matrix once in the constructor from JSON numbers: Q is created as torch.zeros((n, n)), rank 2 by construction",
}


ROW0_POSITIVE = """
def log_prob(self, x):
    times = torch.broadcast_to(self.times, self.mu.shape[:-1] + (3,))
    grid = times.reshape(-1, times.shape[-1])[0]
    g2 = times.flatten(0, -2)[0]
    k = x.shape[0]
    tips = x.flatten()[:4]
    return torch.bucketize(x, grid), g2, k, tips
"""


def first_sample_rows(fn):
    """`v.reshape(-1, n)[0]` / `v.view(-1, n)[0]` / `v.flatten(0, -2)[0]`: all sample axes are folded into one and its first entry is taken — sample 0 stands in for every
    sample"""
    out = []
    for x in ast.walk(fn):
        if not (isinstance(x, ast.Subscript) and isinstance(x.slice, ast.Constant) and isinstance(x.slice.value, int) and not isinstance(x.slice.value, bool)):
            continue
        c = x.value
        if not (isinstance(c, ast.Call) and isinstance(c.func, ast.Attribute)):
            continue
        a = c.func.attr
        folded = (a in ('reshape', 'view') and len(c.args) >= 2 and ast.unparse(c.args[0]) == '-1') or \
                 (a in ('reshape', 'view') and len(c.args) == 1 and isinstance(c.args[0], (ast.Tuple, ast.List)) and len(c.args[0].elts) >= 2 and ast.unparse(c.args[0].elts[0]) == '-1') or \
                 (a == 'flatten' and len(c.args) == 2 and ast.unparse(c.args[0]) == '0' and ast.unparse(c.args[1]) in ('-2', '-3'))
        if folded:
            out.append((x, c.func.value))
    return out


def check_kernel_slots_agree(ctx, rep, rule='C10.R'):
    """the pruning kernels are all called by TreeLikelihoodModel with the same laid-out operands: the matrices, the frequencies reshaped to [..., 1, state] and the
    proportions are prepared once in `_call` and handed down.  A call that hands a kernel the model's raw attribute instead (`self.subst_model.frequencies`, [S, state]) gives
    `freqs @ partials` a vector-matrix product whose sample axes no longer line up ([S, S, N]).  Sibling rule: for each kernel parameter the expressions passed at the call
    sites agree; a deviant is reported."""
    mname = 'torchtree.evolution.tree_likelihood'
    m = ctx.prog.module(mname)
    cls = m.classes.get('TreeLikelihoodModel')
    if cls is None:
        raise AnalysisError('TreeLikelihoodModel not found')
    by_param = {}
    n = 0
    for fn in [b for b in cls.body if isinstance(b, ast.FunctionDef)]:
        for c in ast.walk(fn):
            if isinstance(c, ast.Call) and isinstance(c.func, ast.Name) and c.func.id.startswith('calculate_treelikelihood') and c.func.id in m.functions:
                n += 1
                params = [a.arg for a in m.functions[c.func.id].args.args]
                for i, a in enumerate(c.args):
                    if i < len(params):
                        by_param.setdefault(params[i], []).append((fn, c, norm_text(a)))
                for k in c.keywords:
                    if k.arg:
                        by_param.setdefault(k.arg, []).append((fn, c, norm_text(k.value)))
    if n < 4:
        rep.incomplete(rule, 'kernels::slots', '', f"only {n} kernel calls found in TreeLikelihoodModel")
        return
    for pname in ('freqs', 'weights'):      # the matrices and proportions legitimately differ between kernels with and without a category axis
        sites = by_param.get(pname, [])
        if len(sites) < 2:
            continue
        texts = {}
        for fn, c, t in sites:
            texts.setdefault(t, []).append((fn, c))
        major = max(texts, key=lambda t: len(texts[t]))
        dev = [(t, fc) for t, lst in texts.items() if t != major for fc in lst]
        rep.check(rule, f"evolution.tree_likelihood::TreeLikelihoodModel::kernels-receive-the-same-{pname}", not dev, where(m, dev[0][1][1]) if dev else where(m, cls),
                  {'passed': {t: len(v) for t, v in texts.items()}},
                  f"{dev[0][1][0].name if dev else ''} hands a pruning kernel `{dev[0][0][:50] if dev else ''}` as `{pname}` where the other {len(texts[major])} kernel calls hand it "
                  f"`{major[:40]}` (laid out in _call for the sample, category and state axes): the raw attribute has another layout, so `freqs @ partials` pairs the sample axis of "
                  f"one operand with a data axis of the other")


def check_first_sample_rows(ctx, rep, rule='C10.P', only=None):
    t = ast.parse(ROW0_POSITIVE)
    if len(first_sample_rows(t.body[0])) != 2:
        raise AnalysisError(f'{rule} self-check: the rows of sample 0 in the embedded example are not recognised')
    n = 0
    for mname, m in sorted(ctx.prog.modules.items()):
        if not any(mname.startswith(p) or mname == p.rstrip('.') for p in SCOPE_PACKAGES):
            continue
        if only is not None and not only(mname):
            continue
        for fn in ast.walk(m.tree):
            if not isinstance(fn, ast.FunctionDef) or fn.name in SKIP_METHODS:
                continue
            n += 1
            defs = local_assignments(fn)
            cl = getattr(fn, '_parent', None)
            scope = f"{cl.name}.{fn.name}" if isinstance(cl, ast.ClassDef) else fn.name
            for x, operand in first_sample_rows(fn):
                if any(x is y for sub in ast.walk(fn) if isinstance(sub, ast.FunctionDef) and sub is not fn for y in ast.walk(sub)):
                    continue
                if may_be_batched(operand, fn, defs):
                    rep.bad(rule, f"{mname.replace('torchtree.', '')}.{scope}::{norm_text(x)[:60]}::row-of-the-first-sample", where(m, x), None,
                            f"{scope}: `{norm_text(x)[:70]}` folds the sample axes of a value that can differ between samples and keeps entry 0: every sample is then evaluated with "
                            f"the row of the first one (its epoch grid, its heights), the others' own values are ignored")
    rep.ok(rule, 'first-sample-rows::scanned', '', {'functions_scanned': n})
    return n


FOREIGN_GUARD_POSITIVE = """
def p_t(self, t):
    if len(self.frequencies.shape) == 1:
        pi = self.frequencies.unsqueeze(0)
        kappa = self.kappa.unsqueeze(0)
    else:
        pi = self.frequencies.unsqueeze(-2)
        kappa = self.kappa.unsqueeze(-1)
    return pi * kappa * t
"""
FOREIGN_GUARD_NEGATIVE = """
def q(self):
    raise NotImplementedError
    if len(self.frequencies.shape) == 1:
        kappa = self.kappa.unsqueeze(0)
def q2(self):
    if len(self.frequencies.shape[:-1]) != len(self.rates.shape[:-1]):
        pi = self.frequencies.unsqueeze(0)
    elif self.frequencies.dim() == 1:
        rates = self.rates.unsqueeze(0)
"""


class _Hits(list):
    examined = 0


def _rank_subjects(test):
    """texts of the values whose rank the test looks at: len(X.shape…), X.dim(), X.ndim"""
    out = set()
    for x in ast.walk(test):
        if isinstance(x, ast.Call) and isinstance(x.func, ast.Name) and x.func.id == 'len' and x.args:
            a = x.args[0]
            while isinstance(a, ast.Subscript):
                a = a.value
            if isinstance(a, ast.Attribute) and a.attr == 'shape':
                out.add(ast.unparse(a.value))
        if isinstance(x, ast.Call) and isinstance(x.func, ast.Attribute) and x.func.attr in ('dim', 'ndimension') and not x.args:
            out.add(ast.unparse(x.func.value))
        if isinstance(x, ast.Attribute) and x.attr == 'ndim':
            out.add(ast.unparse(x.value))
    return out


def _foreign_rank_guards(fn, count=False):
    from sa.cfg import CFG
    hits = _Hits()
    cands = []
    if not hasattr(fn.body[0], '_parent'):
        for par in ast.walk(fn):
            for ch in ast.iter_child_nodes(par):
                ch._parent = par
    for c in ast.walk(fn):
        if isinstance(c, ast.Call) and isinstance(c.func, ast.Attribute) and c.func.attr == 'unsqueeze' and c.args and isinstance(c.args[0], ast.Constant) and c.args[0].value == 0 \
                and not isinstance(c.args[0].value, bool):
            torch_fn = isinstance(c.func.value, ast.Name) and c.func.value.id == 'torch'
            operand = c.func.value if not torch_fn else None
            if operand is None or not (isinstance(operand, ast.Attribute) and isinstance(operand.value, ast.Name) and operand.value.id == 'self'):
                continue        # a parameter / model attribute of the object: the values that arrive batched
            cands.append((c, ast.unparse(operand)))
    if not cands:
        return hits
    live = None
    for c, operand in cands:
        subjects, p, stmt = set(), c, None
        while p is not fn and p is not None:
            par = getattr(p, '_parent', None)
            if isinstance(par, (ast.If, ast.IfExp)) and p is not par.test:
                subjects |= _rank_subjects(par.test)
                # an elif chain: the tests that failed before this branch constrain it as well
            if isinstance(p, ast.stmt) and stmt is None:
                stmt = p
            p = par
        # tests of enclosing `if`s whose else-branch we are in are found above (p is in par.orelse); their subjects count too
        if not subjects:
            continue
        hits.examined += 1
        if operand in subjects:
            continue
        if live is None:
            cfg = CFG(fn)
            live = cfg.reachable(cfg.entry)
            by = cfg.by_stmt
        node = by.get(id(stmt))
        if node is not None and node.id not in live:
            continue            # dead code (after an unconditional raise / return)
        hits.append((c, operand, sorted(subjects)[0]))
    return hits


def check_front_axes(ctx, rep, only=None):
    n = 0
    used = set()
    for mname, m in sorted(ctx.prog.modules.items()):
        if not any(mname.startswith(p) or mname == p.rstrip('.') for p in SCOPE_PACKAGES):
            continue
        if only is not None and not only(mname):
            continue
        fns = []
        for cname, cnode in m.classes.items():
            for st in cnode.body:
                if isinstance(st, ast.FunctionDef) and st.name not in SKIP_METHODS:
                    fns.append((f"{mname}.{cname}.{st.name}", st))
        for fname, f in m.functions.items():
            if fname not in SKIP_METHODS:
                fns.append((f"{mname}.{fname}", f))
        for qual, fn in fns:
            defs = local_assignments(fn)
            for c in ast.walk(fn):
                if not (isinstance(c, ast.Call) and isinstance(c.func, ast.Attribute) and c.func.attr in AXIS_OPS):
                    continue
                torch_fn = isinstance(c.func.value, ast.Name) and c.func.value.id == 'torch'
                operand = (c.args[0] if c.args else None) if torch_fn else c.func.value
                args = c.args[1:] if torch_fn else c.args
                def is_neg(a):
                    return isinstance(a, ast.UnaryOp) and isinstance(a.op, ast.USub) and isinstance(a.operand, ast.Constant)
                cands = list(args) + [k.value for k in c.keywords if k.arg in ('dim', 'axis', 'dim0', 'dim1')]
                dims = [a for a in cands if isinstance(a, ast.Constant) and isinstance(a.value, int) and not isinstance(a.value, bool)]
                if operand is None or not (dims or any(is_neg(a) for a in cands)):
                    continue
                n += 1
                front = [d.value for d in dims if d.value >= 1]
                if not front:
                    continue
                txt = norm_text(c)
                key = f"{qual.replace('torchtree.', '')}::{txt[:60]}"
                op_for_batch = operand.elts[0] if isinstance(operand, (ast.List, ast.Tuple)) and operand.elts else operand
                if not may_be_batched(op_for_batch, fn, defs):
                    rep.ok('C10.P', key, where(m, c), {'class': 'operand free of sample dimensions'})
                elif (qual, txt) in FRONT_TABLE:
                    used.add((qual, txt))
                    rep.ok('C10.P', key, where(m, c), {'class': 'confirmed by reading', 'reason': FRONT_TABLE[(qual, txt)]})
                else:
                    rep.bad('C10.P', key, where(m, c), {'axes': front},
                            f"{qual.split('.')[-2]}.{qual.split('.')[-1]}: `{txt[:70]}` addresses axis {front} counted from the front of a value that can carry sample dimensions: "
                            f"the position of an axis from the front depends on how many sample dimensions there are ([S] or [S, K]); with a different number the operation hits a "
                            f"sample axis and values of different samples are combined or misaligned")
    # transpose / swapaxes / movedim with one axis counted from the front and one from the end: `torch.stack(xs).transpose(0, -1)` puts the stacked axis last only when
    # there is exactly one sample dimension; with [S, K] it swaps the two sample axes
    def mixed_sign_swaps(tree):
        out = []
        for c in ast.walk(tree):
            if isinstance(c, ast.Call) and isinstance(c.func, ast.Attribute) and c.func.attr in ('transpose', 'swapaxes', 'swapdims', 'movedim', 'moveaxis'):
                torch_fn = isinstance(c.func.value, ast.Name) and c.func.value.id == 'torch'
                args = c.args[1:] if torch_fn else c.args
                vals = []
                for a in args[:2]:
                    try:
                        vals.append(int(ast.literal_eval(a)))
                    except Exception:
                        vals.append(None)
                if len(vals) == 2 and None not in vals and (vals[0] >= 0) != (vals[1] >= 0):
                    out.append((c, (c.args[0] if c.args else None) if torch_fn else c.func.value, vals))
        return out
    if len(mixed_sign_swaps(ast.parse("def f(self, x):\n    return torch.stack(hs).transpose(0, -1), x.transpose(-1, -2), x.transpose(0, 1)"))) != 1:
        raise AnalysisError('C10.P self-check: mixed-sign transpose of the embedded example not recognised')
    for mname, m in sorted(ctx.prog.modules.items()):
        if not any(mname.startswith(p) or mname == p.rstrip('.') for p in SCOPE_PACKAGES):
            continue
        if only is not None and not only(mname):
            continue
        for fn in ast.walk(m.tree):
            if not isinstance(fn, ast.FunctionDef) or fn.name in SKIP_METHODS:
                continue
            defs = local_assignments(fn)
            for c, operand, vals in mixed_sign_swaps(fn):
                if any(c is x for sub in ast.walk(fn) if isinstance(sub, ast.FunctionDef) and sub is not fn for x in ast.walk(sub)):
                    continue
                inner = operand
                while isinstance(inner, ast.Call) and isinstance(inner.func, ast.Attribute) and inner.func.attr in ('stack', 'cat') and inner.args:
                    seq = inner.args[0]
                    inner = seq.elts[0] if isinstance(seq, (ast.List, ast.Tuple)) and seq.elts else seq
                cl = getattr(fn, '_parent', None)
                scope = f"{cl.name}.{fn.name}" if isinstance(cl, ast.ClassDef) else fn.name
                txt = norm_text(c)
                if operand is not None and may_be_batched(inner, fn, defs):
                    rep.bad('C10.P', f"{mname.replace('torchtree.', '')}.{scope}::{txt[:60]}", where(m, c), {'axes': vals},
                            f"{scope}: `{txt[:70]}` exchanges axis {vals[0]} with axis {vals[1]} — one counted from the front, one from the end — on a value that can carry sample "
                            f"dimensions: which axis the front index hits depends on the number of sample dimensions; with [S, K] it is a sample axis and the samples are permuted")
    # hstack / vstack / dstack / column_stack / row_stack address axes 1 / 0 / 2 counted from the FRONT without saying so: on values with sample dimensions they join along a
    # sample axis (or, for [B, 1] inputs, along the event axis only by coincidence of the rank)
    for mname, m in sorted(ctx.prog.modules.items()):
        if not any(mname.startswith(p) or mname == p.rstrip('.') for p in SCOPE_PACKAGES):
            continue
        if only is not None and not only(mname):
            continue
        for fn in ast.walk(m.tree):
            if not isinstance(fn, ast.FunctionDef) or fn.name in SKIP_METHODS:
                continue
            defs = local_assignments(fn)
            cl = getattr(fn, '_parent', None)
            scope = f"{cl.name}.{fn.name}" if isinstance(cl, ast.ClassDef) else fn.name
            for c in ast.walk(fn):
                if isinstance(c, ast.Call) and (dotted_name(c.func) or '') in ('torch.hstack', 'torch.vstack', 'torch.dstack', 'torch.column_stack', 'torch.row_stack') and c.args:
                    seq = c.args[0]
                    first = seq.elts[0] if isinstance(seq, (ast.List, ast.Tuple)) and seq.elts else seq
                    n += 1
                    if may_be_batched(first, fn, defs):
                        txt = norm_text(c)
                        rep.bad('C10.P', f"{mname.replace('torchtree.', '')}.{scope}::{txt[:60]}::stack-along-a-front-axis", where(m, c), None,
                                f"{scope}: `{txt[:60]}` joins along an axis counted from the front (hstack: axis 1, or 0 for 1-d inputs): with one more sample dimension the pieces are "
                                f"joined along a SAMPLE axis — the categories end up in different samples and the last axis no longer holds one entry per category")
    # a piece of constant size (`x.new_ones(1)`, `torch.zeros(1)`) has no sample dimensions: concatenated with a value that can carry them it only fits the un-batched case
    def _const_sized(e):
        if isinstance(e, ast.Call) and isinstance(e.func, ast.Attribute) and e.func.attr in ('new_ones', 'new_zeros', 'new_full', 'new_empty', 'ones', 'zeros', 'full', 'empty'):
            sizes = list(e.args) if e.func.attr.startswith('new_') else list(e.args[:1])
            if e.func.attr in ('new_full', 'full'):
                sizes = sizes[:1]
            return bool(sizes) and all(isinstance(z, ast.Constant) or (isinstance(z, (ast.Tuple, ast.List)) and all(isinstance(y, ast.Constant) for y in z.elts)) for z in sizes)
        return False
    for mname, m in sorted(ctx.prog.modules.items()):
        if not any(mname.startswith(p) or mname == p.rstrip('.') for p in SCOPE_PACKAGES):
            continue
        if only is not None and not only(mname):
            continue
        for fn in ast.walk(m.tree):
            if not isinstance(fn, ast.FunctionDef) or fn.name in SKIP_METHODS:
                continue
            defs = local_assignments(fn)
            cl = getattr(fn, '_parent', None)
            scope = f"{cl.name}.{fn.name}" if isinstance(cl, ast.ClassDef) else fn.name
            for c in ast.walk(fn):
                if isinstance(c, ast.Call) and (dotted_name(c.func) or '') in ('torch.cat', 'torch.concat') and c.args and isinstance(c.args[0], (ast.Tuple, ast.List)):
                    pieces = c.args[0].elts
                    fixed = [p_ for p_ in pieces if _const_sized(p_)]
                    batched = [p_ for p_ in pieces if not _const_sized(p_) and may_be_batched(p_, fn, defs)]
                    if fixed and batched:
                        n += 1
                        txt = norm_text(c)
                        rep.bad('C10.P', f"{mname.replace('torchtree.', '')}.{scope}::{txt[:60]}::piece-without-sample-dimensions", where(m, c), {'piece': norm_text(fixed[0])[:40]},
                                f"{scope}: `{txt[:60]}` joins `{norm_text(fixed[0])[:30]}` — a tensor of fixed size, without sample dimensions — to `{norm_text(batched[0])[:30]}`, which "
                                f"can carry them: the ranks differ as soon as the input is batched (torch.cat raises; with broadcasting helpers around it, samples are mixed)")
    # axis 0 of a value that may carry sample dimensions is its first SAMPLE axis unless the value is known to have none: `x.unsqueeze(0)` under a test of the rank of x is
    # the un-batched branch; under a test of the rank of ANOTHER value it is applied to x whatever its own sample shape ([S,1] -> [1,S,1]: the samples of x slide onto the
    # next axis of whatever it is combined with)
    if len(_foreign_rank_guards(ast.parse(FOREIGN_GUARD_POSITIVE).body[0])) != 1 or any(_foreign_rank_guards(f_) for f_ in ast.parse(FOREIGN_GUARD_NEGATIVE).body):
        raise AnalysisError('C10.P self-check: axis-0 operations under the rank test of another value are not recognised as expected')
    g = 0
    for mname, m in sorted(ctx.prog.modules.items()):
        if not any(mname.startswith(p) or mname == p.rstrip('.') for p in SCOPE_PACKAGES):
            continue
        if only is not None and not only(mname):
            continue
        for fn in ast.walk(m.tree):
            if not isinstance(fn, ast.FunctionDef) or fn.name in SKIP_METHODS:
                continue
            cl = getattr(fn, '_parent', None)
            scope = f"{cl.name}.{fn.name}" if isinstance(cl, ast.ClassDef) else fn.name
            hits = _foreign_rank_guards(fn, count=True)
            g += hits.examined
            for c, operand, tested in hits:
                txt = norm_text(c)
                rep.bad('C10.P', f"{mname.replace('torchtree.', '')}.{scope}::{txt[:60]}::axis-0-under-the-rank-test-of-another-value", where(m, c), {'tested': tested},
                        f"{scope}: `{txt[:60]}` puts a new first axis on `{operand}` in the branch selected by the rank of `{tested}`: when `{operand}` is batched and `{tested}` is "
                        f"not, its sample axis moves to position 1 and is broadcast against the next axis (branches, categories) of what it is combined with — with equal sizes "
                        f"silently, sample s then uses the value of sample b")
    rep.analysed['axis_0_operations_under_rank_tests'] = g
    rep.analysed['axis_operations_with_constant_axis'] = n
    if only is not None:
        return n
    if n < 150:
        rep.incomplete('C10.P', '*', '', f"only {n} axis operations with a constant axis found")
    for qual, txt in sorted(set(FRONT_TABLE) - used):
        rep.undecided('C10.P', f"table::{qual}::{txt[:40]}", '', 'frozen table entry no longer matches any construct (the table must be re-confirmed)')

# ---------------------------------------------------------------------------
# C10.R — ranks relative to the sample shape agree in element-wise operations
# ---------------------------------------------------------------------------
RANK_TABLE = {
    # attribute chains with a documented layout: rank = len(sample_shape) + k
    'self.clock_model.rates': (1, "branch model rates are [..., branch]"),
    'self.tree_model.node_heights': (1, "node heights are [..., node]"),
}
SHAPE_FROM_SAMPLE = ('sample_shape', 'batch_shape')


def _shift(r, k):
    if isinstance(r, int):
        return r + k
    if isinstance(r, tuple):
        return ('rel', r[1], r[2] + k)
    return None

class Ranks:
    """flow-sensitive ranks of the form len(sample_shape) + k for values shaped by `<sample shape> + (…)`"""

    def __init__(self, fn, prop_rank=None):
        self.fn = fn
        self.reports = []
        self.decided = 0
        self._seen = set()
        self._keep = []                 # synthesised nodes stay alive: `_seen` is keyed by id(), a freed node's address may be handed to the next one
        self.prop_rank = prop_rank      # name of a property of the class -> rank of what it returns (1 for `return self._x.tensor`)
        # names the function itself uses as (batches of) matrices: argument of cholesky / inverse / det / solve / diagonal(dim1=-2, dim2=-1) / triu / tril
        self.matrix_names = set()
        for c in ast.walk(fn):
            if isinstance(c, ast.Call) and isinstance(c.func, ast.Attribute):
                nm = c.func.attr
                torch_like = isinstance(c.func.value, (ast.Name, ast.Attribute)) and ast.unparse(c.func.value) in ('torch', 'torch.linalg')
                operand = (c.args[0] if c.args else None) if torch_like else c.func.value
                if nm in ('cholesky', 'inverse', 'inv', 'det', 'logdet', 'slogdet', 'cholesky_inverse', 'triu', 'tril', 'matrix_exp', 'eigh', 'eig') or \
                        (nm == 'diagonal' and any(k.arg in ('dim1', 'dim2') for k in c.keywords)):
                    if isinstance(operand, ast.Name):
                        self.matrix_names.add(operand.id)

    def shape_rank(self, e, env):
        """rank of a shape expression `sample_shape + (a, b)`"""
        if isinstance(e, ast.BinOp) and isinstance(e.op, ast.Add):
            l, r = e.left, e.right
            base = None
            if isinstance(l, ast.Name) and l.id in SHAPE_FROM_SAMPLE or (isinstance(l, ast.Attribute) and l.attr in SHAPE_FROM_SAMPLE):
                base = 0
            elif isinstance(l, ast.Subscript) and isinstance(l.value, ast.Attribute) and l.value.attr == 'shape' and ast.unparse(l.slice) == ':-1' \
                    and self.rank(l.value.value, env) == 1:
                base = 0        # <parameter tensor>.shape[:-1]: the sample shape of a value of rank 1
            elif isinstance(l, ast.BinOp):
                base = self.shape_rank(l, env)
            if base is None:
                return None
            if isinstance(r, ast.Tuple):
                return base + len(r.elts)
            if isinstance(r, ast.Call) and ast.unparse(r.func) in ('torch.Size',) and r.args and isinstance(r.args[0], (ast.List, ast.Tuple)):
                return base + len(r.args[0].elts)
            return None
        return None

    def rank(self, e, env):
        txt = ast.unparse(e) if isinstance(e, ast.Attribute) else None
        if txt in RANK_TABLE:
            return RANK_TABLE[txt][0]
        if isinstance(e, ast.Name):
            if e.id in self.matrix_names:
                return 2
            return env.get(e.id)
        if isinstance(e, ast.Attribute) and e.attr == 'tensor' and isinstance(e.value, ast.Name) and e.value.id in {a.arg for a in self.fn.args.args} - {'self'}:
            return 1            # the tensor of a parameter passed to the method
        if isinstance(e, ast.Attribute) and e.attr == 'tensor' and isinstance(e.value, ast.Attribute) and isinstance(e.value.value, ast.Name) and e.value.value.id == 'self':
            return 1            # the tensor of a parameter held by the object: [sample…, event]
        if isinstance(e, ast.Attribute) and isinstance(e.value, ast.Name) and e.value.id == 'self' and self.prop_rank is not None:
            return self.prop_rank(e.attr)
        if isinstance(e, ast.UnaryOp):
            return self.rank(e.operand, env)
        if isinstance(e, ast.Constant) and isinstance(e.value, (int, float)) and not isinstance(e.value, bool):
            return 'scalar'
        if isinstance(e, ast.Subscript) and isinstance(e.slice, ast.Tuple) and e.slice.elts and isinstance(e.slice.elts[0], ast.Constant) and e.slice.elts[0].value is Ellipsis:
            # x[..., a:b] keeps the axis, x[..., i] drops it: the result is known RELATIVE to x even when the rank of x is not
            dropped = 0
            for ix in e.slice.elts[1:]:
                if isinstance(ix, ast.Slice):
                    continue
                if isinstance(ix, ast.Constant) and isinstance(ix.value, int) or (isinstance(ix, ast.UnaryOp) and isinstance(ix.op, ast.USub) and isinstance(ix.operand, ast.Constant)
                                                                                   and isinstance(ix.operand.value, int)):
                    dropped += 1
                    continue
                return None          # a name: an integer or an index tensor
            rb = self.rank(e.value, env)
            if rb is None and isinstance(e.value, ast.Name):
                rb = ('rel', e.value.id, 0)
            if isinstance(rb, int):
                return rb - dropped
            if isinstance(rb, tuple):
                return ('rel', rb[1], rb[2] - dropped)
            return None
        if isinstance(e, ast.Subscript) and isinstance(e.slice, ast.Constant) and e.slice.value == 0 and isinstance(e.value, ast.Call) and ast.unparse(e.value.func) in ('torch.sort',) \
                and e.value.args:
            return self.rank(e.value.args[0], env)
        if isinstance(e, ast.Call) and isinstance(e.func, ast.Attribute):
            a = e.func.attr
            torch_fn = isinstance(e.func.value, ast.Name) and e.func.value.id == 'torch'
            if a in ('expand', 'reshape', 'view') and not torch_fn and len(e.args) == 1:
                return self.shape_rank(e.args[0], env)
            if torch_fn and a in ('zeros', 'ones', 'full', 'empty') and e.args:
                return self.shape_rank(e.args[0], env)
            recv = (e.args[0] if e.args else None) if torch_fn else e.func.value
            rest = e.args[1:] if torch_fn else e.args
            if recv is None:
                return None
            if a == 'unsqueeze' and rest:
                return _shift(self.rank(recv, env), 1)
            if a == 'squeeze' and rest:
                return _shift(self.rank(recv, env), -1)
            if a in ('log', 'exp', 'clone', 'abs', 'sqrt', 'contiguous', 'to', 'double', 'float', 'gather', 'pow', 'square', 'cumsum', 'flip'):
                return self.rank(recv, env)
            if a == 'cat' and torch_fn and isinstance(e.args[0], (ast.Tuple, ast.List)):
                rs = [self.rank(x, env) for x in e.args[0].elts]
                if any(isinstance(r, (tuple, str)) for r in rs):
                    rels = [r for r in rs if isinstance(r, tuple)]
                    # pieces concatenated along the last axis with a piece of x: the result has the rank of that piece
                    return rels[0] if rels and all(r == rels[0] for r in rels) else None
                known = [r for r in rs if r is not None]
                if len(known) == len(rs) and known:
                    self.decided += 1
                    if len(set(known)) > 1 and id(e) not in self._seen:
                        self._seen.add(id(e))
                        self.reports.append((e, known))
                    return known[0]
                return None
            return None
        if isinstance(e, ast.BinOp) and isinstance(e.op, ast.MatMult):
            # [S, d] @ [S, d, d]: matmul reads the first operand as ONE S×d matrix and broadcasts it against the batch of the second: the result is [S, S, d]
            l, r = self.rank(e.left, env), self.rank(e.right, env)
            if isinstance(l, int) and isinstance(r, int):
                if id(e) not in self._seen:
                    self._seen.add(id(e))
                    self.decided += 1
                    if {l, r} == {1, 2}:
                        self.reports.append((e, [l, r]))
                return min(l, r) if {l, r} == {1, 2} else max(l, r)
            return None
        if isinstance(e, ast.BinOp) and isinstance(e.op, (ast.Add, ast.Sub, ast.Mult, ast.Div)):
            l, r = self.rank(e.left, env), self.rank(e.right, env)
            if l == 'scalar' or r == 'scalar':
                return r if l == 'scalar' else l
            if isinstance(l, tuple) or isinstance(r, tuple):
                if isinstance(l, tuple) and isinstance(r, tuple) and l[1] == r[1]:
                    if id(e) not in self._seen:
                        self._seen.add(id(e))
                        self.decided += 1
                        if l[2] != r[2]:
                            self.reports.append((e, [l[2], r[2]]))
                    return ('rel', l[1], max(l[2], r[2]))
                return None
            if l is not None and r is not None:
                if id(e) not in self._seen:
                    self._seen.add(id(e))
                    self.decided += 1
                    if l != r:
                        self.reports.append((e, [l, r]))
                return max(l, r)
            return None
        return None

    def block(self, stmts, env):
        for st in stmts:
            env = self.stmt(st, env)
        return env

    def stmt(self, st, env):
        if isinstance(st, ast.Assign):
            for x in ast.walk(st.value):
                if isinstance(x, (ast.BinOp, ast.Call)):
                    self.rank(x, env)
            v = self.rank(st.value, env)
            env = dict(env)
            for t in st.targets:
                if isinstance(t, ast.Name):
                    env[t.id] = v
            return env
        if isinstance(st, ast.AugAssign) and isinstance(st.target, ast.Name) and isinstance(st.op, (ast.Add, ast.Sub, ast.Mult, ast.Div)):
            for x in ast.walk(st.value):
                if isinstance(x, (ast.BinOp, ast.Call)):
                    self.rank(x, env)
            b = ast.BinOp(left=ast.Name(id=st.target.id, ctx=ast.Load()), op=st.op, right=st.value)
            ast.copy_location(b, st)
            ast.copy_location(b.left, st)
            self._keep.append(b)
            v = self.rank(b, env)
            env = dict(env)
            env[st.target.id] = v if v != 'scalar' else None
            return env
        if isinstance(st, ast.If):
            a, b = self.block(st.body, dict(env)), self.block(st.orelse, dict(env))
            return {k: (a.get(k) if a.get(k) == b.get(k) else None) for k in set(a) | set(b)}
        if isinstance(st, (ast.For, ast.While)):
            a = self.block(st.body, dict(env))
            return {k: (a.get(k) if a.get(k) == env.get(k) else None) for k in set(a) | set(env)}
        if isinstance(st, ast.With):
            return self.block(st.body, env)
        if isinstance(st, (ast.Return, ast.Expr)) and st.value is not None:
            for x in ast.walk(st.value):
                if isinstance(x, (ast.BinOp, ast.Call)):
                    self.rank(x, env)
        return env

    def run(self):
        self.block(self.fn.body, {})
        return self.reports


RANK_POSITIVE = """
def _call(self):
    sample_shape = self.sample_shape
    bl = self.tree_model.branch_lengths()
    if bl.dim() == 1:
        a = self.clock_model.rates * bl.expand(sample_shape + (1, -1))
        b = self.clock_model.rates * bl.expand(sample_shape + (-1,))
    z = torch.cat((b, torch.zeros(sample_shape + (1,))), -1)
    return a, z
"""


def check_ranks(ctx, rep):
    t = ast.parse(RANK_POSITIVE)
    got = [ast.unparse(r[0])[:40] for r in Ranks(t.body[0]).run()]
    if got != ['self.clock_model.rates * bl.expand(sampl']:
        raise AnalysisError(f"C10.R self-check failed: {got}")
    n = 0
    for mname, m in sorted(ctx.prog.modules.items()):
        if not any(mname.startswith(p) or mname == p.rstrip('.') for p in SCOPE_PACKAGES):
            continue
        for fn in ast.walk(m.tree):
            if not isinstance(fn, ast.FunctionDef):
                continue
            cl0 = getattr(fn, '_parent', None)
            ci = ctx.classes.find(f"{mname}.{cl0.name}") if isinstance(cl0, ast.ClassDef) else None

            def prop_rank(attr, ci=ci):
                if ci is None:
                    return None
                try:
                    g = ci.resolve(attr, 'getter')
                except Exception:
                    g = None
                if not g:
                    return None
                body = [b for b in g[1].body if not (isinstance(b, ast.Expr) and isinstance(b.value, ast.Constant))]
                if len(body) == 1 and isinstance(body[0], ast.Return) and isinstance(body[0].value, ast.Attribute) and body[0].value.attr == 'tensor' \
                        and isinstance(body[0].value.value, ast.Attribute) and isinstance(body[0].value.value.value, ast.Name) and body[0].value.value.value.id == 'self':
                    return 1
                return None
            rk = Ranks(fn, prop_rank)
            reports = rk.run()
            n += rk.decided
            cl = getattr(fn, '_parent', None)
            scope = f"{cl.name}.{fn.name}" if isinstance(cl, ast.ClassDef) else fn.name
            for node, ranks in reports:
                txt = norm_text(node)[:70]
                rep.bad('C10.R', f"{mname.replace('torchtree.', '')}::{scope}::{txt}", where(m, node), {'ranks_beyond_sample_shape': ranks},
                        f"{scope}: `{txt}` combines values of rank len(sample_shape)+{ranks[0]} and len(sample_shape)+{ranks[1]}: broadcasting aligns the shorter one's sample axes "
                        f"with other axes of the longer one, so the result has an extra [S] axis and samples are combined with each other (a later reshape hides it)")
            if rk.decided and not reports:
                rep.ok('C10.R', f"{mname.replace('torchtree.', '')}::{scope}::ranks-agree", where(m, fn), {'operations_with_known_ranks': rk.decided})
    rep.analysed['rank_operations_classified'] = n
    if n < 2:
        rep.incomplete('C10.R', '*', '', f"only {n} operations with both ranks known")

# ---------------------------------------------------------------------------
# C10.S — Distribution._sample_shape, folded over the abstract shape cases
# ---------------------------------------------------------------------------
class _Sh:
    """evaluates the shape arithmetic of a `_sample_shape` method over abstract shapes (tuples of dimension symbols): len, comparisons, slices, ± on ints, if / conditional
    expressions.  Anything else is refused (Unsupported → the rule is undecided)."""

    def __init__(self, binds):
        self.binds = binds   # source text of an expression -> abstract value

    def ev(self, e, env):
        txt = ast.unparse(e)
        if txt in self.binds:
            return self.binds[txt]
        if isinstance(e, ast.Name):
            if e.id in env:
                return env[e.id]
            raise Unsupported(e, f"unbound name {e.id}")
        if isinstance(e, ast.Constant) and isinstance(e.value, (int, bool)):
            return e.value
        if isinstance(e, ast.UnaryOp) and isinstance(e.op, ast.USub):
            return -self.ev(e.operand, env)
        if isinstance(e, ast.UnaryOp) and isinstance(e.op, ast.Not):
            return not self.ev(e.operand, env)
        if isinstance(e, ast.BinOp) and isinstance(e.op, (ast.Add, ast.Sub)):
            l, r = self.ev(e.left, env), self.ev(e.right, env)
            if isinstance(l, tuple) != isinstance(r, tuple):
                raise Unsupported(e, 'mixed tuple / int arithmetic')
            return l + r if isinstance(e.op, ast.Add) else l - r
        if isinstance(e, ast.Call) and isinstance(e.func, ast.Name) and e.func.id == 'len' and len(e.args) == 1:
            return len(self.ev(e.args[0], env))
        if isinstance(e, ast.Call) and isinstance(e.func, ast.Name) and e.func.id in ('max', 'min') and all(not isinstance(a, ast.Starred) for a in e.args):
            vals = [self.ev(a, env) for a in e.args]
            key = next((k.value for k in e.keywords if k.arg == 'key'), None)
            if key is not None and ast.unparse(key) != 'len':
                raise Unsupported(e, 'max/min key')
            f = max if e.func.id == 'max' else min
            return f(vals, key=len) if key is not None else f(vals)
        if isinstance(e, ast.Call) and ast.unparse(e.func) == 'torch.Size' and len(e.args) == 1:
            return tuple(self.ev(a, env) for a in e.args[0].elts) if isinstance(e.args[0], (ast.List, ast.Tuple)) else self.ev(e.args[0], env)
        if isinstance(e, ast.Tuple):
            return tuple(self.ev(a, env) for a in e.elts)
        if isinstance(e, ast.Compare) and len(e.ops) == 1:
            l, r = self.ev(e.left, env), self.ev(e.comparators[0], env)
            op = e.ops[0]
            table = {ast.Gt: lambda a, b: a > b, ast.GtE: lambda a, b: a >= b, ast.Lt: lambda a, b: a < b, ast.LtE: lambda a, b: a <= b,
                     ast.Eq: lambda a, b: a == b, ast.NotEq: lambda a, b: a != b}
            if type(op) not in table:
                raise Unsupported(e, 'comparison')
            return table[type(op)](l, r)
        if isinstance(e, ast.BoolOp):
            vals = [self.ev(v, env) for v in e.values]
            return all(vals) if isinstance(e.op, ast.And) else any(vals)
        if isinstance(e, ast.IfExp):
            return self.ev(e.body, env) if self.ev(e.test, env) else self.ev(e.orelse, env)
        if isinstance(e, ast.Subscript):
            base = self.ev(e.value, env)
            if not isinstance(base, tuple):
                raise Unsupported(e, 'subscript of a non-shape')
            if isinstance(e.slice, ast.Slice):
                lo = self.ev(e.slice.lower, env) if e.slice.lower is not None else None
                hi = self.ev(e.slice.upper, env) if e.slice.upper is not None else None
                if e.slice.step is not None:
                    raise Unsupported(e, 'slice step')
                return base[lo:hi]
            i = self.ev(e.slice, env)
            if not isinstance(i, int) or not (-len(base) <= i < len(base)):
                raise Unsupported(e, 'index out of the abstract shape')
            return base[i]
        raise Unsupported(e, f"`{txt[:40]}` outside the shape vocabulary")

    def run(self, stmts, env):
        for st in stmts:
            if isinstance(st, ast.Expr) and isinstance(st.value, ast.Constant):
                continue
            if isinstance(st, ast.Assign) and len(st.targets) == 1 and isinstance(st.targets[0], ast.Name):
                env[st.targets[0].id] = self.ev(st.value, env)
            elif isinstance(st, ast.If):
                r = self.run(st.body if self.ev(st.test, env) else st.orelse, env)
                if r is not None:
                    return r
            elif isinstance(st, ast.Return) and st.value is not None:
                v = self.ev(st.value, env)
                return ('ret', v)
            else:
                raise Unsupported(st, f"statement `{ast.unparse(st)[:40]}` outside the shape vocabulary")
        return None


SHAPE_CASES = [
    # (shape of x, batch shape of the distribution's parameters, expected sample shape, what the case is)
    (('N',), (), (), 'unbatched x, scalar parameters'),
    (('N',), ('1',), (), 'unbatched x, one-element parameters'),
    (('N',), ('N',), (), 'unbatched x, element-wise parameters'),
    (('S', 'N'), (), ('S',), 'batched x, scalar parameters'),
    (('S', 'N'), ('1',), ('S',), 'batched x, unbatched one-element parameters'),
    (('S', 'N'), ('N',), ('S',), 'batched x, unbatched element-wise parameters'),
    (('S', 'K', 'N'), ('1',), ('S', 'K'), 'x batched twice, unbatched parameters'),
    (('S', 'N'), ('S', '1'), ('S',), 'x and parameters batched together (sampled hyperparameters)'),
    (('S', '1'), ('S', '1'), ('S',), 'one-element x and parameters batched together'),
    (('S', 'N'), ('S', 'N'), ('S',), 'x and element-wise parameters batched together'),
    (('S', 'K', 'N'), ('S', 'K', '1'), ('S', 'K'), 'x and parameters batched twice together'),
    (('N',), ('S', 'N'), ('S',), 'likelihood term: data x, batched parameters'),
    (('N',), ('S', 'K', 'N'), ('S', 'K'), 'likelihood term: data x, parameters batched twice'),
    # a block with two event dimensions (a matrix of rates): the parameters' batch shape has both
    (('S', 'M', 'N'), ('M', 'N'), ('S',), 'batched matrix-valued x, unbatched element-wise parameters'),
    (('S', 'K', 'M', 'N'), ('M', 'N'), ('S', 'K'), 'matrix-valued x batched twice, unbatched element-wise parameters'),
]


def check_distribution_sample_shape(ctx, rep):
    m = ctx.prog.module('torchtree.distributions.distributions')
    cls = m.classes.get('Distribution')
    fn = next((f for f in cls.body if isinstance(f, ast.FunctionDef) and f.name == '_sample_shape'), None) if cls is not None else None
    if fn is None:
        raise AnalysisError('Distribution._sample_shape not found')
    for xs, bs, want, what in SHAPE_CASES:
        key = f"Distribution._sample_shape::x{list(xs)}::parameters{list(bs)}"
        try:
            r = _Sh({'self.x.tensor.shape': xs, 'self.x.shape': xs, 'self.batch_shape': bs, 'self.distribution.batch_shape': bs}).run(fn.body, {})
        except Unsupported as u:
            rep.undecided('C10.S', key, where(m, fn), str(u))
            continue
        got = r[1] if r else None
        rep.check('C10.S', key, got == want, where(m, fn), {'case': what, 'returned': list(got) if isinstance(got, tuple) else got, 'expected': list(want)},
                  f"Distribution._sample_shape returns {list(got) if isinstance(got, tuple) else got} for x of shape {list(xs)} and parameters of batch shape {list(bs)} ({what}); the sample "
                  f"dimensions are {list(want)}: with a wrong sample shape JointDistributionModel reduces over the sample axes and returns one pooled number (or mixes components of "
                  f"different samples)")

# ---------------------------------------------------------------------------
# C10.C — an element-wise density counts every operand in its sample shape
# ---------------------------------------------------------------------------
def check_elementwise_coverage(ctx, rep):
    """When `_call` returns an element-wise (broadcasting) combination of parameter tensors and tree quantities that all keep the trailing axis, the result carries the
    sample dimensions of every one of them; `_sample_shape` must count each (else JointDistributionModel sees more leading dimensions than the sample shape and sums them)."""
    from sa.axes import Axes, K
    base = 'torchtree.core.model.CallableModel'
    n = 0
    for cls in sorted(ctx.classes.subclasses(base), key=lambda c: c.qualname):
        if cls.is_abstract() or not any(cls.module.name.startswith(p) or cls.module.name == p.rstrip('.') for p in SCOPE_PACKAGES):
            continue
        rc, rs = cls.resolve('_call'), cls.resolve('_sample_shape')
        if not rc or not rs or rc[0] is not cls:
            continue
        fn = rc[1]
        rets = [r for r in ast.walk(fn) if isinstance(r, ast.Return) and r.value is not None]
        if len(rets) != 1:
            continue
        ax = Axes(fn)
        env = ax.block(fn.body[:fn.body.index(rets[0])] if rets[0] in fn.body else fn.body, {})
        if ax.kind(rets[0].value, env) != K or ax.reports:
            continue
        defs = local_assignments(fn)
        sources = set()
        for e in backward_slice(rets[0].value, defs):
            for x in ast.walk(e):
                if isinstance(x, ast.Attribute) and isinstance(x.value, ast.Name) and x.value.id == 'self':
                    par = getattr(x, '_parent', None)
                    if (isinstance(par, ast.Attribute) and par.attr in ('tensor', 'node_heights')) or (isinstance(par, ast.Attribute) and isinstance(getattr(par, '_parent', None), ast.Call)
                                                                                                       and par.attr in ('branch_lengths',)):
                        sources.add(x.attr)
        if not sources:
            continue
        n += 1
        ss = rs[1]
        refs = {x.attr for x in ast.walk(ss) if isinstance(x, ast.Attribute) and isinstance(x.value, ast.Name) and x.value.id == 'self'}
        models = {s_ for s_ in sources if 'tree' in s_ or 'model' in s_}
        params = sources - models
        missing = sorted((params - refs if '_parameters' not in refs else set()) | (models - refs if '_models' not in refs else set()))
        rep.check('C10.C', f"{cls.qualname.replace('torchtree.', '')}::sample-shape-counts-every-operand-of-the-element-wise-density", not missing, where(rs[0].module, ss),
                  {'operands': sorted(sources), 'counted_by_sample_shape': sorted(refs)},
                  f"{cls.name}._call returns an element-wise combination of {sorted(sources)} (all keep the trailing axis, so the value carries the sample dimensions of each), but "
                  f"{rs[0].name}._sample_shape does not count {missing}: with only {missing} batched the model reports a shorter sample shape and JointDistributionModel sums the "
                  f"samples into one number")
    rep.analysed['elementwise_densities'] = n
    if n < 2:
        rep.incomplete('C10.C', '*', '', f"only {n} element-wise densities recognised")

# ---------------------------------------------------------------------------
# C10.K — parameters are concatenated along the event axis
# ---------------------------------------------------------------------------
def check_cat_axis(ctx, rep):
    """A CatParameter built by the library itself (for a list-valued x of a distribution, for ratios + root height, for a transformed list) joins parameters that each carry
    their sample dimensions in front: the concatenation axis must be the last one (dim=-1).  CatParameter's default is dim=0 — the first, i.e. a sample axis as soon as the
    parameters are batched: [S, n] + [S, m] becomes [2S, n] instead of [S, n+m] and the rows of different parameters are treated as samples."""
    n = 0
    for mname, m in sorted(ctx.prog.modules.items()):
        if not mname.startswith('torchtree.') or '.cli.' in mname:
            continue
        for c in ast.walk(m.tree):
            if not (isinstance(c, ast.Call) and isinstance(c.func, ast.Name) and c.func.id == 'CatParameter'):
                continue
            fn = c
            while fn is not None and not isinstance(fn, ast.FunctionDef):
                fn = getattr(fn, '_parent', None)
            if fn is not None and fn.name in ('from_json', '__repr__', 'json_factory'):
                continue        # the axis comes from the specification
            n += 1
            dim = c.args[2] if len(c.args) > 2 else next((k.value for k in c.keywords if k.arg == 'dim'), None)
            ok = dim is not None and ast.unparse(dim) == '-1'
            cl = getattr(fn, '_parent', None) if fn is not None else None
            scope = f"{cl.name}.{fn.name}" if isinstance(cl, ast.ClassDef) else (fn.name if fn is not None else '<module>')
            rep.check('C10.K', f"{mname.replace('torchtree.', '')}::{scope}::{norm_text(c)[:50]}", ok, where(m, c), {'axis': ast.unparse(dim) if dim is not None else 'default (0)'},
                      f"{scope}: `{norm_text(c)[:60]}` concatenates parameters along axis {ast.unparse(dim) if dim is not None else '0 (the default)'}: with sampled (batched) parameters "
                      f"that is a sample axis — [S, n] and [S, m] become [2S, n] instead of [S, n + m], so the value of a sample is assembled from rows of different parameters")
    if n < 4:
        rep.incomplete('C10.K', '*', '', f"only {n} CatParameter constructions found")


def check_whole_reductions(ctx, rep, only=None):
    self_check()
    n_fn = n_red = 0
    used_table = set()
    for mname, m in sorted(ctx.prog.modules.items()):
        if not any(mname.startswith(p) or mname == p.rstrip('.') for p in SCOPE_PACKAGES):
            continue
        if only is not None and not only(mname):
            continue
        fns = []
        for cname, cnode in m.classes.items():
            for st in cnode.body:
                if isinstance(st, ast.FunctionDef) and st.name not in SKIP_METHODS:
                    fns.append((f"{mname}.{cname}.{st.name}", st))
        for fname, f in m.functions.items():
            if fname not in SKIP_METHODS:
                fns.append((f"{mname}.{fname}", f))
        for qual, fn in fns:
            n_fn += 1
            defs = local_assignments(fn)
            for c in ast.walk(fn):
                if not isinstance(c, ast.Call):
                    continue
                # nested defs are visited on their own
                operand = reduction_without_axis(c)
                if operand is None:
                    continue
                name = c.func.attr
                n_red += 1
                txt = norm_text(c)
                key = f"{qual.replace('torchtree.', '')}::{txt[:70]}"
                W = where(m, c)
                if not may_be_batched(operand, fn, defs):
                    rep.ok('C10.D', key, W, {'class': 'operand free of sample dimensions (shapes / constants / index ranges)'})
                    continue
                if name in BOOLEAN and used_only_as_branch_condition(c):
                    kind = branch_condition_kind(operand, fn, defs)
                    if kind == 'numerical':
                        rep.excluded('C10.D', key, W, 'whole-batch test of a computed value for overflow / underflow: switches between two evaluations of the same quantity, no '
                                                      'formula of one sample is applied to another')
                        continue
                    if kind == 'tip-data':
                        rep.excluded('C10.D', key, W, 'whole-batch test of the tip heights (sampling dates are data shared by every sample of a batch of trees)')
                        continue
                    rep.bad('C10.D', key, W, {'operand': norm_text(operand)[:100], 'kind': 'branch on a whole-batch test of parameter values'},
                            f"{qual.split('.')[-2]}.{qual.split('.')[-1]}: `{txt[:80]}` decides for the whole batch at once which formula is evaluated, from a test on parameter values: "
                            f"when the test is true for some samples only, the other samples are evaluated with the formula chosen for them (an element-wise torch.where is the "
                            f"per-sample form)")
                    continue
                if (qual, txt) in TABLE:
                    used_table.add((qual, txt))
                    rep.ok('C10.D', key, W, {'class': 'confirmed by reading', 'reason': TABLE[(qual, txt)]})
                    continue
                rep.bad('C10.D', key, W, {'operand': norm_text(operand)[:100]},
                        f"{qual.split('.')[-2]}.{qual.split('.')[-1]}: `{txt[:80]}` reduces over every axis of a value derived from the method's inputs; evaluated with parameters "
                        f"that carry a sample dimension it folds all samples into one number, so the value for sample s depends on the other samples")
    rep.analysed.update({'functions_scanned': n_fn, 'reductions_without_axis': n_red, 'table_entries_used': len(used_table), 'table_entries': len(TABLE)})
    if only is not None:
        if n_fn < 5:
            raise AnalysisError(f"only {n_fn} evaluation methods scanned")
        return n_red
    if n_fn < 300:
        raise AnalysisError(f"only {n_fn} evaluation methods scanned")
    stale = set(TABLE) - used_table
    for qual, txt in sorted(stale):
        rep.undecided('C10.D', f"table::{qual}::{txt[:40]}", '', 'frozen table entry no longer matches any construct (the table must be re-confirmed)')
    return n_red


def run(ctx, rep):
    rep.explanation = (
        "Every call of a tensor reduction in the evaluation methods of the density / model / transform / parameter classes and in the likelihood kernels is "
        "classified: names an axis (fine), element-wise two-argument max/min (fine), operand provably free of sample dimensions (shape-derived, constants, index "
        "ranges: fine), boolean reduction used only as a branch condition (chooses a code path, no value is mixed: listed), frozen table entry (reason printed), or "
        "a whole-tensor reduction of a value derived from an argument or attribute — a violation: for batched input it folds all samples into one number."
    )
    rep.rule('C10.D', "no whole-tensor reduction (no axis named) of a value that can carry a sample dimension in densities, models, transforms, derived parameters and kernels")
    rep.not_decided += ["which broadcasts are right when only some parameters are batched", "S == K coincidences", "shape-dependent reduction of the joint density",
                        "that unsupported shape combinations raise", "reductions along a wrong but named axis (see C01, C05, C06, C08, C20 for the instances decided there)"]
    check_whole_reductions(ctx, rep)
    rep.rule('C10.J', "the joint density classifies each component's value against that component's own sample shape and adds components along the last axis only")
    rep.rule('C10.P', "in evaluation methods, axes of values that can carry sample dimensions are addressed from the end (no axis index >= 1 counted from the front)")
    rep.rule('C10.A', "no element-wise operation combines a value that keeps the trailing event axis ([S, 1]) with one that dropped it ([S]) — an [S, S] outer combination of samples")
    check_joint(ctx, rep)
    check_front_axes(ctx, rep)
    check_first_sample_rows(ctx, rep)
    from sa import axes
    axes.check_event_axes(ctx, rep, 'C10.A', SCOPE_PACKAGES, 15)
    rep.rule('C10.R', "element-wise operations and concatenations combine values of the same rank relative to the sample shape (ranks read from `<sample shape> + (…)` expansions and the documented layout of branch-model rates)")
    check_ranks(ctx, rep)
    check_kernel_slots_agree(ctx, rep)
    rep.rule('C10.S', "Distribution._sample_shape, folded over 13 abstract shape cases (x / parameters unbatched, batched separately, batched together, likelihood term), returns the sample dimensions")
    check_distribution_sample_shape(ctx, rep)
    rep.rule('C10.C', "a density that is an element-wise combination of parameter tensors and tree quantities counts every one of them in its sample shape")
    check_elementwise_coverage(ctx, rep)
    rep.rule('C10.K', "parameters joined by the library into one (CatParameter for a list-valued x, ratios + root height …) are concatenated along the last axis")
    check_cat_axis(ctx, rep)
    # C10.H — a model that is re-evaluated after a new batch was assigned to its parameters uses that batch: the change handlers of the substitution / site models mark every
    # cache dirty (C11.H machinery; a stale cache returns the values — and the sample dimension — of the previous batch)
    from props import c11
    from sa.members import Kinds
    from sa.report import RuleProxy
    rep.rule('C10.H', "substitution and site models re-evaluated after a new batch was assigned to their parameters do not serve caches of the previous batch (C11.H rules on these classes)")
    kinds = Kinds(ctx.classes)
    nh = 0
    for cls in sorted(ctx.classes.classes.values(), key=lambda c: c.qualname):
        if (cls.module.name.startswith('torchtree.evolution.substitution_model') or cls.module.name == 'torchtree.evolution.site_model') and not cls.is_abstract() \
                and cls.has_base('torchtree.core.parametric.Parametric'):
            nh += 1
            c11.check_handlers(ctx, RuleProxy(rep, 'C10.H', 'handlers::'), kinds, cls)
    if nh < 8:
        rep.incomplete('C10.H', '*', '', f"only {nh} substitution / site model classes found")
