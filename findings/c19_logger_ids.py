"""C19 (fixed): advi emitted loggers that refer to ids no object defines:
  --clock ucln            -> 'branchmodel.rates.prior.scale' (the object is ...prior.stdev)
  --birth-death constant  -> 'bdsk.R', 'bdsk.delta', 'bdsk.rho', 'bdsk.origin' (the objects are constant.*)
Run: PYTHONPATH=<tree> /venv/bin/python findings/c19_logger_ids.py   (exit 1 = defect present)"""
import io, sys, json, contextlib, importlib, logging
import torch
from torchtree.cli.cli import main
from torchtree.core.utils import process_objects, package_contents, remove_comments, expand_plates, JSONParseError
for module in package_contents('torchtree'):
    importlib.import_module(module)
bad = 0
for extra in (['--clock', 'ucln', '--coalescent', 'constant'], ['--clock', 'strict', '--birth-death', 'constant']):
    sys.argv = ['torchtree-cli', 'advi', '-i', '/repo/data/fluA.fa', '-t', '/repo/data/fluA.tree'] + extra
    buf = io.StringIO()
    with contextlib.redirect_stdout(buf):
        main()
    data = json.loads(buf.getvalue())
    remove_comments(data); expand_plates(data)
    dic = {}
    try:
        with contextlib.redirect_stdout(io.StringIO()):
            for e in data:
                process_objects(e, dic)
        print(' '.join(extra), ': loaded,', len(dic), 'objects')
    except JSONParseError as e:
        root = e
        while root.__context__ is not None:
            root = root.__context__
        print(' '.join(extra), ': REJECTED:', root)
        bad += 1
sys.exit(1 if bad else 0)
