"""C11.H: models whose handle_parameter_changed is `pass` while they hold parameters return the cached value
after a parameter update (pinned tree: three FAIL lines; after the fix: all OK)."""
import torch
from torchtree.core.parameter import Parameter
from torchtree.core.utils import process_object
from torchtree.distributions.tree_prior import CompoundGammaDirichletPrior
from torchtree.evolution.poisson_tree_likelihood import PoissonTreeLikelihood
import torchtree.evolution.tree_model, torchtree.evolution.taxa, torchtree.evolution.branch_model  # register
bad = 0
dic = {}
taxa = {'id': 'taxa', 'type': 'Taxa', 'taxa': [{'id': t, 'type': 'Taxon'} for t in 'ABC']}
tree = process_object({'id': 'tree', 'type': 'UnRootedTreeModel', 'newick': '(A:0.1,B:0.2,C:0.3);', 'taxa': taxa,
                       'branch_lengths': {'id': 'bl', 'type': 'Parameter', 'tensor': [0.1, 0.2, 0.3]}}, dic)
mk = lambda i, v: Parameter(i, torch.tensor([v]))
alpha = mk('alpha', 1.0)
prior = CompoundGammaDirichletPrior('p', tree, alpha, mk('c', 0.5), mk('shape', 1.0), mk('rate', 2.0))
before = prior().clone()
alpha.tensor = torch.tensor([3.0])
fresh = CompoundGammaDirichletPrior('p2', tree, alpha, prior.c, prior.shape, prior.rate)()
ok = torch.allclose(prior(), fresh)
print('CompoundGammaDirichletPrior', 'OK' if ok else f'FAIL stale {prior().item()} vs fresh {fresh.item()}'); bad += not ok

dic = {}
ttree = process_object({'id': 'tt', 'type': 'TimeTreeModel', 'newick': '((A:1,B:1):1,C:2);',
                        'taxa': {'id': 'taxa', 'type': 'Taxa', 'taxa': [{'id': t, 'type': 'Taxon', 'attributes': {'date': 0.0}} for t in 'ABC']},
                        'internal_heights': {'id': 'h', 'type': 'Parameter', 'tensor': [1.0, 2.0]}}, dic)
clock = process_object({'id': 'clock', 'type': 'StrictClockModel', 'tree_model': 'tt',
                        'rate': {'id': 'rate', 'type': 'Parameter', 'tensor': [1.0]}}, dic)
e = Parameter('e', torch.tensor([1.0, 1.0, 1.0, 2.0]))
pl = PoissonTreeLikelihood('pl', ttree, clock, e)
pl()
e.tensor = torch.tensor([3.0, 1.0, 2.0, 2.0])
fresh = PoissonTreeLikelihood('pl2', ttree, clock, e)()
ok = torch.allclose(pl(), fresh)
print('PoissonTreeLikelihood', 'OK' if ok else f'FAIL stale {pl().item()} vs fresh {fresh.item()}'); bad += not ok

from torchtree.variational.kl import SELBO
from torchtree.core.model import CallableModel
class Const(CallableModel):
    def __init__(self, i, x): super().__init__(i); self.x = x
    def _call(self, *a, **k): return -(self.x.tensor ** 2).sum(-1)
    def _sample_shape(self): return self.x.shape[:-1]
    def rsample(self, s): pass
    def entropy(self): return torch.tensor([0.0])
    @classmethod
    def from_json(cls, d, dic): ...
x = Parameter('x', torch.tensor([[1.0]]))
w = Parameter('w', torch.tensor([0.5, 0.5]))
q1, q2, p = Const('q1', x), Const('q2', x), Const('p', x)
s = SELBO('s', [q1, q2], w, p, torch.Size([1]), entropy=True)
s()
w.tensor = torch.tensor([0.9, 0.1]) * 2
fresh = SELBO('s2', [q1, q2], w, p, torch.Size([1]), entropy=True)()
ok = torch.allclose(s(), fresh)
print('SELBO', 'OK' if ok else f'FAIL stale {s().item()} vs fresh {fresh.item()}'); bad += not ok
raise SystemExit(1 if bad else 0)
