"""Constant folding of module/class-level literal tables.

A deliberately tiny evaluator: literals, tuples/lists/strings, + and * on sequences and
ints, constant subscripts and slices, ord(), len(), range(), tuple()/list(), enumerate(),
`for` over range/enumerate with subscript stores, .extend/.append, list comprehensions.
Anything else raises Unsupported.  Nothing of the analysed package is imported or called.
"""
from __future__ import annotations

import ast
from typing import Any, Dict

from .loader import Unsupported

_BUILTINS = {'ord': ord, 'len': len, 'range': range, 'tuple': tuple, 'list': list, 'enumerate': enumerate, 'int': int, 'float': float,
             'sum': sum, 'min': min, 'max': max, 'str': str, 'sorted': sorted, 'zip': zip, 'abs': abs}


class ConstEval:
    def __init__(self, env: Dict[str, Any] = None, class_name: str = None):
        self.env: Dict[str, Any] = dict(env or {})
        self.class_name = class_name

    def fold_body(self, body, stop_at_defs=True):
        for st in body:
            if isinstance(st, (ast.FunctionDef, ast.AsyncFunctionDef, ast.ClassDef)):
                continue
            if isinstance(st, ast.Expr) and isinstance(st.value, ast.Constant):
                continue
            try:
                self.stmt(st)
            except Unsupported:
                # a statement we cannot fold poisons the names it assigns
                for n in ast.walk(st):
                    if isinstance(n, ast.Name) and isinstance(n.ctx, ast.Store):
                        self.env.pop(n.id, None)
        return self.env

    def stmt(self, st):
        if isinstance(st, ast.Assign):
            v = self.expr(st.value)
            for t in st.targets:
                self.assign(t, v)
            return
        if isinstance(st, ast.AnnAssign) and st.value is not None:
            self.assign(st.target, self.expr(st.value))
            return
        if isinstance(st, ast.AugAssign):
            cur = self.expr(st.target if not isinstance(st.target, ast.Name) else ast.Name(id=st.target.id, ctx=ast.Load()))
            v = self.binop(st.op, cur, self.expr(st.value), st)
            self.assign(st.target, v)
            return
        if isinstance(st, ast.For):
            it = self.expr(st.iter)
            n = 0
            for x in it:
                n += 1
                if n > 100000:
                    raise Unsupported(st, 'loop too long')
                self.assign(st.target, x)
                for b in st.body:
                    self.stmt(b)
            return
        if isinstance(st, ast.Expr) and isinstance(st.value, ast.Call):
            c = st.value
            if isinstance(c.func, ast.Attribute) and c.func.attr in ('extend', 'append') and len(c.args) == 1:
                obj = self.expr(c.func.value)
                if not isinstance(obj, list):
                    raise Unsupported(st, 'extend/append on a non-list')
                arg = self.expr(c.args[0])
                if c.func.attr == 'extend':
                    obj.extend(arg)
                else:
                    obj.append(arg)
                return
        if isinstance(st, ast.Pass):
            return
        raise Unsupported(st, f"statement {type(st).__name__} not foldable")

    def assign(self, t, v):
        if isinstance(t, ast.Name):
            self.env[t.id] = v
        elif isinstance(t, (ast.Tuple, ast.List)):
            vals = list(v)
            if len(vals) != len(t.elts):
                raise Unsupported(t, 'unpacking arity')
            for e, x in zip(t.elts, vals):
                self.assign(e, x)
        elif isinstance(t, ast.Subscript):
            obj = self.expr(t.value)
            idx = self.expr(t.slice)
            if not isinstance(obj, list):
                raise Unsupported(t, 'store into a non-list')
            obj[idx] = v
        else:
            raise Unsupported(t, 'assignment target not foldable')

    def binop(self, op, a, b, node):
        try:
            if isinstance(op, ast.Add):
                return a + b
            if isinstance(op, ast.Sub):
                return a - b
            if isinstance(op, ast.Mult):
                return a * b
            if isinstance(op, ast.Div):
                return a / b
            if isinstance(op, ast.FloorDiv):
                return a // b
            if isinstance(op, ast.Mod):
                return a % b
        except Exception as e:
            raise Unsupported(node, f"cannot fold: {e}")
        raise Unsupported(node, 'operator not foldable')

    def expr(self, e):
        if isinstance(e, ast.Constant):
            return e.value
        if isinstance(e, ast.Name):
            if e.id in self.env:
                return self.env[e.id]
            raise Unsupported(e, f"name {e.id} is not a folded constant")
        if isinstance(e, ast.Attribute) and isinstance(e.value, ast.Name) and e.value.id == self.class_name and e.attr in self.env:
            return self.env[e.attr]
        if isinstance(e, ast.Tuple):
            return tuple(self.expr(x) for x in e.elts)
        if isinstance(e, ast.List):
            return [self.expr(x) for x in e.elts]
        if isinstance(e, ast.UnaryOp) and isinstance(e.op, ast.USub):
            return -self.expr(e.operand)
        if isinstance(e, ast.BinOp):
            return self.binop(e.op, self.expr(e.left), self.expr(e.right), e)
        if isinstance(e, ast.Subscript):
            obj = self.expr(e.value)
            if isinstance(e.slice, ast.Slice):
                lo = self.expr(e.slice.lower) if e.slice.lower is not None else None
                hi = self.expr(e.slice.upper) if e.slice.upper is not None else None
                stp = self.expr(e.slice.step) if e.slice.step is not None else None
                return obj[lo:hi:stp]
            try:
                return obj[self.expr(e.slice)]
            except Exception as ex:
                raise Unsupported(e, f"subscript: {ex}")
        if isinstance(e, ast.Call) and isinstance(e.func, ast.Name) and e.func.id in _BUILTINS and not e.keywords:
            args = [self.expr(a) for a in e.args]
            try:
                v = _BUILTINS[e.func.id](*args)
            except Exception as ex:
                raise Unsupported(e, f"call: {ex}")
            if e.func.id in ('range', 'enumerate', 'zip'):
                v = list(v)
            return v
        if isinstance(e, ast.ListComp) and len(e.generators) == 1 and not e.generators[0].ifs:
            g = e.generators[0]
            out = []
            saved = dict(self.env)
            for x in self.expr(g.iter):
                self.assign(g.target, x)
                out.append(self.expr(e.elt))
            self.env = {**saved, **{k: v for k, v in self.env.items() if k in saved}}
            return out
        raise Unsupported(e, f"expression {type(e).__name__} not foldable")


def fold_class(cls_node: ast.ClassDef) -> Dict[str, Any]:
    ev = ConstEval(class_name=cls_node.name)
    return ev.fold_body(cls_node.body)
