from sa.selftest import Mut

TL = 'torchtree/evolution/tree_likelihood.py'
R = 'calculate_treelikelihood_discrete_rescaled'
S = 'calculate_treelikelihood_discrete_safe'
TS = 'calculate_treelikelihood_tip_states_discrete_rescaled'

def T(id, old, new, expect=None, benign=False):
    return Mut(id, TL, '', old, new, expect=expect, benign=benign, mode='text')

CORPUS = [
    Mut('c03-drop-append', TL, R, 'scalers.append(scaler)', 'pass', expect=[('C03.P', f"{R}::scaler-recorded-on-the-same-path")]),
    Mut('c03-per-category-scaler', TL, TS, 'scaler, _ = torch.max(partial.view(*partial.shape[:-3], -1, *partial.shape[-1:]), -2, keepdim=True)',
        'scaler, _ = torch.max(partial, -2, keepdim=True)', expect=[('C03.P', f"{TS}::one-scaler-per-site")]),
    Mut('c03-scaler-of-other', TL, R, 'scaler, _ = torch.max(partial.view(*partial.shape[:-3], -1, *partial.shape[-1:]), -2, keepdim=True)',
        'scaler, _ = torch.max(partials[left].view(*partial.shape[:-3], -1, *partial.shape[-1:]), -2, keepdim=True)', expect=[('C03.P', f"{R}::scaler-is-max-of-the-divided-product")]),
    T('c03-scalers-after-weights', "            + torch.cat(scalers, -2).log().sum(dim=-2).unsqueeze(-2)\n        )\n        * weights,\n        dim=-1,\n    )\n\n\ndef calculate_treelikelihood_tip_states_discrete_rescaled(",
      "        )\n        * weights + torch.cat(scalers, -2).log().sum(dim=-2).unsqueeze(-2),\n        dim=-1,\n    )\n\n\ndef calculate_treelikelihood_tip_states_discrete_rescaled(",
      expect=[('C03.P', f"{R}::log-scalers-added-inside-weighted-sum")]),
    T('c03-safe-guard-right', "            rescaled[left]\n            or rescaled[right]\n", "            rescaled[left]\n", expect=[('C03.P', f"{S}::recompute-when-a-child-was-rescaled")]),
    Mut('c03-safe-no-mark', TL, S, 'rescaled[node] = True', 'pass', expect=[('C03.P', f"{S}::recompute-when-a-child-was-rescaled")]),
    T('c03-flag-reset', "    def handle_parameter_changed(self, variable, index, event):\n        pass\n\n    def _sample_shape(self) -> torch.Size:\n        return max([model.sample_shape for model in self._models.values()], key=len)",
      "    def handle_parameter_changed(self, variable, index, event):\n        self.rescale = False\n\n    def _sample_shape(self) -> torch.Size:\n        return max([model.sample_shape for model in self._models.values()], key=len)",
      expect=[('C03.S', 'TreeLikelihoodModel.rescale::monotone')]),
    T('c03-return-infinite', "            if torch.any(torch.isinf(log_p)):\n                self.rescale = True\n                log_p = calculate_treelikelihood_discrete_safe(",
      "            if torch.any(torch.isinf(log_p)):\n                self.rescale = True\n                log_p2 = calculate_treelikelihood_discrete_safe(", expect=[('C03.G', 'calculate_with_tip_partials::infinite-result-is-recomputed-rescaled')]),
    T('c03-flag-not-set', "            if torch.any(torch.isinf(log_p)):\n                self.rescale = True\n                log_p = calculate_treelikelihood_tip_states_discrete_rescaled(",
      "            if torch.any(torch.isinf(log_p)):\n                log_p = calculate_treelikelihood_tip_states_discrete_rescaled(", expect=[('C03.G', 'calculate_with_tip_states::infinite-result-is-recomputed-rescaled')]),
    T('c03-flag-on-plain-kernel', "        if self.rescale:\n            log_p = calculate_treelikelihood_discrete_rescaled(", "        if self.rescale:\n            log_p = calculate_treelikelihood_discrete(",
      expect=[('C03.G', 'calculate_with_tip_partials::flag-on-uses-rescaling-kernel-only')]),
    T('c03-nan-not-inf', "            if torch.any(torch.isinf(log_p)):\n                self.rescale = True\n                log_p = calculate_treelikelihood_discrete_safe(",
      "            if torch.any(torch.isnan(log_p)):\n                self.rescale = True\n                log_p = calculate_treelikelihood_discrete_safe(", expect=[('C03.G', 'calculate_with_tip_partials::infinite-result-is-recomputed-rescaled')]),
    T('c03-tipstates-uses-partials-kernel', "            if torch.any(torch.isinf(log_p)):\n                self.rescale = True\n                log_p = calculate_treelikelihood_tip_states_discrete_rescaled(",
      "            if torch.any(torch.isinf(log_p)):\n                self.rescale = True\n                log_p = calculate_treelikelihood_discrete_rescaled(", expect=[('C03.G', 'calculate_with_tip_states::kernel-kind')]),
    T('c03-switch-needs-all-infinite', "            if torch.any(torch.isinf(log_p)):\n                self.rescale = True\n                log_p = calculate_treelikelihood_discrete_safe(",
      "            if torch.all(torch.isinf(log_p)):\n                self.rescale = True\n                log_p = calculate_treelikelihood_discrete_safe(", expect=[('C03.G', 'calculate_with_tip_partials::switches-when-any-element-is-infinite')]),
    T('c03-switch-any-finite', "            if torch.any(torch.isinf(log_p)):\n                self.rescale = True\n                log_p = calculate_treelikelihood_tip_states_discrete_rescaled(",
      "            if not torch.isinf(log_p).logical_not().any():\n                self.rescale = True\n                log_p = calculate_treelikelihood_tip_states_discrete_rescaled(", expect=[('C03.G', 'calculate_with_tip_states::')]),
    T('c03-benign-switch-method-form', "            if torch.any(torch.isinf(log_p)):\n                self.rescale = True\n                log_p = calculate_treelikelihood_discrete_safe(",
      "            if torch.isinf(log_p).any():\n                self.rescale = True\n                log_p = calculate_treelikelihood_discrete_safe(", benign=True),
    T('c03-benign-switch-not-all-finite', "            if torch.any(torch.isinf(log_p)):\n                self.rescale = True\n                log_p = calculate_treelikelihood_tip_states_discrete_rescaled(",
      "            if not torch.isfinite(log_p).all() and torch.any(torch.isinf(log_p)):\n                self.rescale = True\n                log_p = calculate_treelikelihood_tip_states_discrete_rescaled(", benign=True),
    Mut('c03-benign-rename-scaler', TL, R, 'scalers.append(scaler)', 'scalers.append(scaler)\nn_scaled = len(scalers)', benign=True),
    Mut('c03-scalers-escape-the-pattern-weights', 'torchtree/evolution/tree_likelihood.py', '', "    return torch.sum(\n        (\n            torch.log(freqs @ torch.sum(props * partials[post_indexing[-1][0]], dim=-3))\n            + torch.cat(scalers, -2).log().sum(dim=-2).unsqueeze(-2)\n        )\n        * weights,\n        dim=-1,\n    )\n", "    site_log_p = torch.log(freqs @ torch.sum(props * partials[post_indexing[-1][0]], dim=-3))\n    log_scalers = torch.cat(scalers, -2).log().sum(dim=-2).unsqueeze(-2)\n    return torch.sum(site_log_p * weights + log_scalers, dim=-1)\n", expect=[('C03.P', 'log-scalers-added-inside-weighted-sum')], mode='text', nth=1),
    Mut('c03-benign-return-through-locals', 'torchtree/evolution/tree_likelihood.py', '', "    return torch.sum(\n        (\n            torch.log(freqs @ torch.sum(props * partials[post_indexing[-1][0]], dim=-3))\n            + torch.cat(scalers, -2).log().sum(dim=-2).unsqueeze(-2)\n        )\n        * weights,\n        dim=-1,\n    )\n", "    site_log_p = torch.log(freqs @ torch.sum(props * partials[post_indexing[-1][0]], dim=-3))\n    log_scalers = torch.cat(scalers, -2).log().sum(dim=-2).unsqueeze(-2)\n    return torch.sum((site_log_p + log_scalers) * weights, dim=-1)\n", benign=True, mode='text', nth=1),
]
CORPUS += [
    Mut('c03-plain-kernel-never-returns-minus-infinity', 'torchtree/evolution/tree_likelihood.py', 'calculate_treelikelihood_discrete', 'return torch.sum(…',
        'site_likelihoods = freqs @ torch.sum(props * partials[post_indexing[-1][0]], -3)\nreturn torch.sum(torch.log(site_likelihoods + 1e-300) * weights, -1)',
        expect=[('C03.G', 'calculate_treelikelihood_discrete::underflow-surfaces-as-minus-infinity')]),
]
CORPUS += [
    Mut('c03-threshold-at-the-smallest-normal', 'torchtree/evolution/tree_likelihood.py', 'TreeLikelihoodModel.__init__', 'self.threshold = …',
        'self.threshold = torch.finfo(subst_model.frequencies.dtype).tiny', expect=[('C03.P', 'TreeLikelihoodModel.threshold::two-children-at-the-threshold-do-not-underflow::float64')]),
    Mut('c03-benign-threshold-square-root-of-tiny', 'torchtree/evolution/tree_likelihood.py', 'TreeLikelihoodModel.__init__', 'self.threshold = …',
        'self.threshold = math.sqrt(torch.finfo(subst_model.frequencies.dtype).tiny)', benign=True),
]
CORPUS += [
    Mut('c03-scalers-collected-in-a-default-argument', 'torchtree/evolution/tree_likelihood.py', '', "    threshold: float,\n) -> torch.Tensor:", "    threshold: float,\n    scalers: list = [],\n) -> torch.Tensor:", mode='text',
        expect=[], benign=True, note='a mutable default that is never written is harmless'),
    Mut('c03-node-rescaled-by-a-whole-tensor-maximum', 'torchtree/evolution/tree_likelihood.py', '', "            or torch.any(torch.max(partials[node], -2, keepdim=True)[0] < threshold)\n", "            or partials[node].max() < threshold\n", mode='text',
        expect=[('C03.P', 'per-site-decisions::')]),
]
