"""C19 (known): `--birth-death constant|bdsk --clock strict --heights shift` emits an origin parameter whose transform refers to `tree.root_height`, an id that only the
ratio parameterisation defines: torchtree stops with "Object with ID `tree.root_height' not found".
Run: PYTHONPATH=<tree> /venv/bin/python findings/c19_known_birth_death_with_shift_heights.py   (exit 1 = defect present)"""
import os, subprocess, sys, tempfile
REPO = os.environ.get('PYTHONPATH', '/repo').split(':')[0]
bad = 0
for bd in ('constant', 'bdsk'):
    for heights in ('ratio', 'shift'):
        cmd = [sys.executable, '-c', 'from torchtree.cli.cli import main; main()', 'advi', '-i', f'{REPO}/data/fluA.fa', '-t', f'{REPO}/data/fluA.tree', '--clock', 'strict',
               '--birth-death', bd, '--heights', heights, '--iter', '1', '--samples', '1'] + (['--grid', '3'] if bd == 'bdsk' else [])
        r = subprocess.run(cmd, capture_output=True, text=True)
        if r.returncode != 0:
            print(bd, heights, '-> rejected by the CLI')
            continue
        with tempfile.NamedTemporaryFile('w', suffix='.json', delete=False) as fp:
            fp.write(r.stdout)
        run = subprocess.run([sys.executable, '-c', 'from torchtree.torchtree import main; main()', fp.name], capture_output=True, text=True, cwd=tempfile.gettempdir())
        os.unlink(fp.name)
        missing = [l for l in (run.stderr + run.stdout).splitlines() if 'not found' in l]
        if missing:
            bad += 1
            print(bd, heights, '-> emitted, torchtree stops:', missing[-1].strip()[:100])
        else:
            print(bd, heights, '-> every id resolves')
print('DEFECT present' if bad else 'OK')
sys.exit(1 if bad else 0)
