from sa.selftest import Mut

EV = 'torchtree/cli/evolution.py'
AD = 'torchtree/cli/advi.py'
MC = 'torchtree/cli/mcmc.py'
HM = 'torchtree/cli/hmc.py'
UT = 'torchtree/cli/utils.py'
JA = 'torchtree/cli/jacobians.py'
LO = 'torchtree/cli/loggers.py'


def T(id, file, old, new, expect=None, benign=False, note=''):
    return Mut(id, file, '', old, new, expect=expect, benign=benign, mode='text', note=note)


CORPUS = [
    # --- T / K -----------------------------------------------------------------------------------------------
    T('c19-type-typo', LO, '            "type": "TreeLogger",', '            "type": "TreeLoger",', expect=[('C19.T', 'loggers.create_loggers::TreeLoger')]),
    T('c19-missing-mandatory-key', LO, '            "tree_model": "tree",\n', '', expect=[('C19.K', 'loggers.create_loggers::TreeLogger')]),
    T('c19-transform-string-typo', UT, "json_object['transform'] = 'torch.distributions.SigmoidTransform'", "json_object['transform'] = 'torchtree.distributions.SigmoidTransform'",
      expect=[]),
    # --- J -----------------------------------------------------------------------------------------------------
    T('c19-jacobians-early-return', JA, "            ):\n                params.append(dict_def['id'])\n", "            ):\n                params.append(dict_def['id'])\n            else:\n                return params\n",
      expect=[('C19.J', 'create_jacobians::visits-every-nested-object-once')]),
    T('c19-jacobians-skip-every-affine', JA, "                and dict_def['parameters']['scale'] == 1.0\n", "                and dict_def['parameters']['scale'] > 0.0\n", expect=[('C19.J', 'create_jacobians::skips-only-unit-scale-affine')]),
    T('c19-jacobians-skip-every-affine-2', JA, "                dict_def['transform'] == 'torch.distributions.AffineTransform'\n                and dict_def['parameters']['scale'] == 1.0\n",
      "                dict_def['transform'] == 'torch.distributions.AffineTransform'\n", expect=[('C19.J', 'create_jacobians::skips-only-unit-scale-affine')]),
    T('c19-jacobians-results-dropped', JA, "        for value in dict_def.values():\n            params.extend(create_jacobians(value))", "        for value in dict_def.values():\n            create_jacobians(value)",
      expect=[('C19.J', 'create_jacobians::visits-every-nested-object-once')]),
    T('c19-tree-jacobian-without-clock-test', MC, '    if arg.clock is not None and arg.heights == "ratio":\n        jacobians_list.append("tree")', '    if arg.heights == "ratio":\n        jacobians_list.append("tree")',
      expect=[('C19.J', 'build_mcmc::ratio-height-jacobian'), ('C19.J', 'builders::jacobian-edits-agree')]),
    T('c19-theta-jacobian-kept-for-skyride', HM, '    if arg.coalescent in COALESCENT_PIECEWISE:\n        jacobians_list.remove("coalescent.theta")', '    if arg.coalescent == "skygrid":\n        jacobians_list.remove("coalescent.theta")',
      expect=[('C19.J', 'build_hmc::no-jacobian-for-gmrf-on-log-scale'), ('C19.J', 'builders::jacobian-edits-agree')]),
    T('c19-sampler-targets-constrained-joint', MC, '    opt_dict = create_mcmc("joint.jacobian", parameters, parameters_unres, arg)', '    opt_dict = create_mcmc("joint", parameters, parameters_unres, arg)',
      expect=[('C19.J', 'build_mcmc::target-is-joint.jacobian')]),
    T('c19-jacobian-counted-twice', HM, '        "distributions": ["joint"] + jacobians_list,', '        "distributions": ["joint"] + jacobians_list + jacobians_list,', expect=[('C19.J', 'build_hmc::joint-plus-each-jacobian-once')]),
    T('c19-jacobians-before-unconstraining', MC, '    parameters_unres, parameters = make_unconstrained(json_list)\n\n    jacobians_list = create_jacobians(json_list)\n',
      '    jacobians_list = create_jacobians(json_list)\n    parameters_unres, parameters = make_unconstrained(json_list)\n\n', expect=[('C19.J', 'build_mcmc::collected-after-constraints-became-transforms')]),
    T('c19-benign-jacobians-get-and-helper', JA, "        if 'type' in dict_def and dict_def['type'] == 'TransformedParameter':",
      "        if dict_def.get('type') == 'TransformedParameter':\n            unit = dict_def['transform'] == 'torch.distributions.AffineTransform' and dict_def['parameters']['scale'] == 1.0",
      benign=True),
    T('c19-benign-tree-jacobian-condition-reordered', MC, '    if arg.clock is not None and arg.heights == "ratio":\n        jacobians_list.append("tree")', '    if arg.heights == "ratio" and arg.clock is not None:\n        jacobians_list.append("tree")',
      benign=True),
    T('c19-benign-joint-jacobian-unpacked', HM, '        "distributions": ["joint"] + jacobians_list,', '        "distributions": ["joint", *jacobians_list],', benign=True),
    # --- U -----------------------------------------------------------------------------------------------------
    T('c19-positive-gets-sigmoid', UT, "                    json_object['transform'] = 'torch.distributions.ExpTransform'", "                    json_object['transform'] = 'torch.distributions.SigmoidTransform'",
      expect=[('C19.U', 'make_unconstrained::lower<=0::transform-matches-constraint')]),
    T('c19-inverse-of-other-transform', UT, "                    transform = torch.distributions.ExpTransform()", "                    transform = torch.distributions.SigmoidTransform()",
      expect=[('C19.U', 'make_unconstrained::lower<=0::initial-value-through-the-same-inverse')]),
    T('c19-handwritten-wrong-logit', UT, "                    elif 'full' in json_object:\n                        json_object['x']['tensor'] = transform.inv(\n                            torch.tensor(json_object['tensor'])\n                        ).item()\n                        json_object['x']['full'] = json_object['full']\n                        del json_object['full']\n                    elif 'full_like' in json_object:\n                        json_object['x']['tensor'] = transform.inv(\n                            torch.tensor(json_object['tensor'])\n                        ).item()\n                        json_object['x']['full_like'] = json_object['full_like']\n                        del json_object['full_like']\n                    del json_object['tensor']\n\n                    parameters.append(json_object['id'])\n                    parameters_unres.append(json_object['x'])\n                elif (",
      "                    elif 'full' in json_object:\n                        json_object['x']['tensor'] = torch.tensor(json_object['tensor']).log().item() - torch.log1p(torch.tensor(json_object['tensor'])).item()\n                        json_object['x']['full'] = json_object['full']\n                        del json_object['full']\n                    elif 'full_like' in json_object:\n                        json_object['x']['tensor'] = transform.inv(\n                            torch.tensor(json_object['tensor'])\n                        ).item()\n                        json_object['x']['full_like'] = json_object['full_like']\n                        del json_object['full_like']\n                    del json_object['tensor']\n\n                    parameters.append(json_object['id'])\n                    parameters_unres.append(json_object['x'])\n                elif (",
      expect=[('C19.U', 'make_unconstrained::unit-interval::initial-value-through-the-same-inverse')]),
    T('c19-benign-handwritten-correct-logit', UT, "                    elif 'full' in json_object:\n                        json_object['x']['tensor'] = transform.inv(\n                            torch.tensor(json_object['tensor'])\n                        ).item()\n                        json_object['x']['full'] = json_object['full']\n                        del json_object['full']\n                    elif 'full_like' in json_object:\n                        json_object['x']['tensor'] = transform.inv(\n                            torch.tensor(json_object['tensor'])\n                        ).item()\n                        json_object['x']['full_like'] = json_object['full_like']\n                        del json_object['full_like']\n                    del json_object['tensor']\n\n                    parameters.append(json_object['id'])\n                    parameters_unres.append(json_object['x'])\n                elif (",
      "                    elif 'full' in json_object:\n                        json_object['x']['tensor'] = torch.tensor(json_object['tensor']).log().item() - torch.log1p(-torch.tensor(json_object['tensor'])).item()\n                        json_object['x']['full'] = json_object['full']\n                        del json_object['full']\n                    elif 'full_like' in json_object:\n                        json_object['x']['tensor'] = transform.inv(\n                            torch.tensor(json_object['tensor'])\n                        ).item()\n                        json_object['x']['full_like'] = json_object['full_like']\n                        del json_object['full_like']\n                    del json_object['tensor']\n\n                    parameters.append(json_object['id'])\n                    parameters_unres.append(json_object['x'])\n                elif (",
      benign=True),
    T('c19-constrained-tensor-kept', UT, "                        del json_object['full_like']\n                    del json_object['tensor']\n\n                    parameters.append(json_object['id'])\n                    parameters_unres.append(json_object['x'])\n                elif (",
      "                        del json_object['full_like']\n\n                    parameters.append(json_object['id'])\n                    parameters_unres.append(json_object['x'])\n                elif (",
      expect=[('C19.U', 'make_unconstrained::unit-interval::initial-value-through-the-same-inverse')]),
    # --- E / N -------------------------------------------------------------------------------------------------
    T('c19-heights-value-without-handler', EV, '        elif arg.heights == "shift":', '        elif arg.heights == "shifts":', expect=[('C19.E', 'evolution.create_tree_model::tree_model')]),
    T('c19-clock-value-without-handler', EV, '    elif arg.clock == "horseshoe":\n        prior_list.extend(create_clock_horseshoe_prior(branch_model_id, tree_id))\n    return prior_list',
      '    elif arg.clock == "horseshoe":\n        hs = create_clock_horseshoe_prior(branch_model_id, tree_id)\n    if arg.clock == "horseshoe" or arg.clock == "strict":\n        prior_list.extend(hs)\n    return prior_list',
      expect=[('C19.E', 'evolution.create_clock_prior::hs')]),
    T('c19-torch-log-of-float', AD, "                    tensor = torch.tensor(json_object['tensor'])\n                    var = tensor * 0.01\n", "                    tensor = torch.tensor(json_object['tensor'])\n                    var = tensor * torch.exp(-4.6)\n",
      expect=[('C19.N', 'advi.create_meanfield::torch.exp(-4.6)')]),
    T('c19-benign-new-local-under-same-test', EV, '    if arg.clock is not None:\n        dates = [taxon["attributes"]["date"] for taxon in taxa["taxa"]]\n        offset = max(dates) - min(dates)\n',
      '    if arg.clock is not None:\n        dates = [taxon["attributes"]["date"] for taxon in taxa["taxa"]]\n        youngest = max(dates)\n        offset = youngest - min(dates)\n', benign=True),
    # --- R -----------------------------------------------------------------------------------------------------
    T('c19-logger-id-literal-for-other-parameterisation', MC, "        parameters2 = list(filter(lambda x: 'tree.ratios' != x, parameters))\n        mcmc_json[\"loggers\"]",
      "        parameters2 = list(filter(lambda x: 'tree.ratios' != x, parameters))\n        if arg.clock is not None:\n            parameters2.insert(0, 'tree.root_height')\n        mcmc_json[\"loggers\"]",
      expect=[('C19.R', 'Logger.parameters::tree.root_height@create_loggers')]),
    T('c19-definition-renamed', EV, '                    "gmrf.precision",\n                    **{"tensor": [0.1]},', '                    "gmrf.tau",\n                    **{"tensor": [0.1]},', expect=[('C19.R', 'gmrf.precision')]),
    T('c19-ucln-logger-id', AD, "                    f'{branch_model_id}.rates.prior.stdev',", "                    f'{branch_model_id}.rates.prior.scale',", expect=[('C19.R', 'Logger.parameters::branchmodel.rates.prior.scale@create_sampler')]),
    T('c19-logger-id-always-appended', AD, "            parameters2.append('coalescent.theta.log')\n            models.append('gmrf')\n            models.append(\n                {\n                    'id': arg.coalescent,\n                    'type': 'JointDistributionModel',\n                    'distributions': ['coalescent', 'gmrf'],\n                }\n            )\n\n    return {\n        \"id\": id_,\n        \"type\": \"Logger\",",
      "            models.append('gmrf')\n            models.append(\n                {\n                    'id': arg.coalescent,\n                    'type': 'JointDistributionModel',\n                    'distributions': ['coalescent', 'gmrf'],\n                }\n            )\n    parameters2.append('coalescent.theta.log')\n\n    return {\n        \"id\": id_,\n        \"type\": \"Logger\",",
      expect=[('C19.R', 'Logger.parameters::coalescent.theta.log@create_logger')]),
    T('c19-pinv-stored-in-ignored-key', EV, '            site_model = {"id": id_, "type": "InvariantSiteModel", "invariant": prop}', '            site_model = {"id": id_, "type": "ConstantSiteModel", "invariant": prop}',
      expect=[('C19.R', 'Logger.parameters@create_sampler::with::--invariant')]),
    T('c19-prior-on-undefined-parameter', EV, '                    f"{sitemodel_id}.shape",\n                    {"rate": 2.0},\n                )\n            )\n    return joint_list', '                    f"{sitemodel_id}.alpha",\n                    {"rate": 2.0},\n                )\n            )\n    return joint_list',
      expect=[('C19.R', 'sitemodel.alpha')]),
    T('c19-benign-ids-renamed-consistently', EV, '                    "gmrf.precision",\n                    **{"tensor": [0.1]},', '                    "gmrf." + "precision",\n                    **{"tensor": [0.1]},', benign=True),
    T('c19-benign-filter-by-tuple', MC, "        parameters2 = list(filter(lambda x: 'tree.ratios' != x, parameters))", "        hidden = ('tree.ratios',)\n        parameters2 = list(filter(lambda x: x not in hidden, parameters))", benign=True),
    # --- U: the variational builders' own helpers -------------------------------------------------------------
    T('c19-advi-affine-called-with-scale', AD, "                    apply_affine_transform(\n                        json_object, json_object[CONSTRAINT.LOWER.value], 1.0\n                    )\n\n                    # now id becomes",
      "                    apply_affine_transform(\n                        json_object, json_object[CONSTRAINT.LOWER.value], 2.0\n                    )\n\n                    # now id becomes",
      expect=[('C19.U', 'apply_affine_transform::unit-scale-at-every-call-site')]),
    T('c19-advi-exp-helper-wrong-inverse', AD, "        'tensor': torch.tensor(json_object['tensor']).log().tolist(),", "        'tensor': torch.tensor(json_object['tensor']).log1p().tolist(),",
      expect=[('C19.U', 'apply_exp_transform::initial-value-through-the-same-inverse')]),
    T('c19-advi-sigmoid-helper-other-inverse', AD, "            json_object['x']['tensor'] = (\n                torch.distributions.SigmoidTransform()\n                .inv(torch.tensor(json_object['tensor']))\n                .tolist()\n            )\n        else:\n            json_object['x']['tensor'] = value\n            json_object['x']['full'] = [len(json_object['tensor'])]",
      "            json_object['x']['tensor'] = (\n                torch.distributions.ExpTransform()\n                .inv(torch.tensor(json_object['tensor']))\n                .tolist()\n            )\n        else:\n            json_object['x']['tensor'] = value\n            json_object['x']['full'] = [len(json_object['tensor'])]",
      expect=[('C19.U', 'apply_sigmoid_transformed::initial-value-through-the-same-inverse')]),
    T('c19-advi-positive-gets-sigmoid', AD, "                    unres_id = apply_exp_transform(json_object)\n                    distr, loc, scale = create_normal_distribution(", "                    unres_id = apply_sigmoid_transformed(json_object)\n                    distr, loc, scale = create_normal_distribution(",
      expect=[('C19.U', 'create_meanfield::lower<=0::apply_sigmoid_transformed::transform-matches-constraint')]),
    T('c19-bounded-parameter-not-unit-interval', EV, "    rho[CONSTRAINT.LOWER.value] = 0.0\n    rho[CONSTRAINT.UPPER.value] = 1.0\n\n    origin = {\n        \"id\": f\"{birth_death_id}.origin\",\n        \"type\": \"TransformedParameter\",\n        \"transform\": \"torch.distributions.AffineTransform\",\n        \"x\": {\n            \"id\": f\"{birth_death_id}.origin.unshifted\",\n            \"type\": \"Parameter\",\n            \"tensor\": [1.0],\n            CONSTRAINT.LOWER.value: 0.0,\n        },\n        \"parameters\": {\n            \"loc\": f\"{tree_id}.root_height\",\n            \"scale\": 1.0,\n        },\n    }\n\n    bd = {",
      "    rho[CONSTRAINT.LOWER.value] = 0.0\n    rho[CONSTRAINT.UPPER.value] = 0.5\n\n    origin = {\n        \"id\": f\"{birth_death_id}.origin\",\n        \"type\": \"TransformedParameter\",\n        \"transform\": \"torch.distributions.AffineTransform\",\n        \"x\": {\n            \"id\": f\"{birth_death_id}.origin.unshifted\",\n            \"type\": \"Parameter\",\n            \"tensor\": [1.0],\n            CONSTRAINT.LOWER.value: 0.0,\n        },\n        \"parameters\": {\n            \"loc\": f\"{tree_id}.root_height\",\n            \"scale\": 1.0,\n        },\n    }\n\n    bd = {",
      expect=[('C19.U', 'evolution.create_constant_birth_death::rho::bounded-constraint-is-unit-interval-or-fixed')]),
    T('c19-benign-advi-exp-helper-torch-log', AD, "        'tensor': torch.tensor(json_object['tensor']).log().tolist(),", "        'tensor': torch.log(torch.tensor(json_object['tensor'])).tolist(),", benign=True),
    # --- V / U: leftover loop variable, priority of the fixed-parameter test, root of the unconstraining pass -----------
    T('c19-shape-prior-on-leftover-loop-variable', EV, '            for tag in ("12", "3"):\n                joint_list.append(\n                    Distribution.json_factory(\n                        f"{sitemodel_id}.{tag}.shape.prior",',
      '            for part in ("12", "3"):\n                joint_list.append(\n                    Distribution.json_factory(\n                        f"{sitemodel_id}.{part}.shape.prior",', expect=[('C19.V', 'create_evolution_priors::tag')]),
    T('c19-simplex-branch-before-the-bounds-test', UT, "            if (\n                CONSTRAINT.LOWER.value in json_object\n                and CONSTRAINT.UPPER.value in json_object\n            ):\n                if (",
      "            if json_object.get(CONSTRAINT.SIMPLEX.value, False) and 'never' not in json_object:\n                parameters.append(json_object['id'])\n                parameters_unres.append(json_object)\n            elif (\n                CONSTRAINT.LOWER.value in json_object\n                and CONSTRAINT.UPPER.value in json_object\n            ):\n                if (",
      expect=[('C19.U', 'make_unconstrained::fixed-parameters-stay-fixed::branch-')]),
    T('c19-benign-guarded-branch-before-the-bounds-test', UT, "            if (\n                CONSTRAINT.LOWER.value in json_object\n                and CONSTRAINT.UPPER.value in json_object\n            ):\n                if (",
      "            if json_object.get('never', False) and CONSTRAINT.LOWER.value not in json_object:\n                parameters.append(json_object['id'])\n                parameters_unres.append(json_object)\n            elif (\n                CONSTRAINT.LOWER.value in json_object\n                and CONSTRAINT.UPPER.value in json_object\n            ):\n                if (",
      benign=True),
    T('c19-advi-unconstrains-the-joint-only', AD, "    var_dic, var_parameters = create_variational_model('variational', json_list, arg)", "    var_dic, var_parameters = create_variational_model('variational', joint_dic, arg)",
      expect=[('C19.U', 'advi.build_advi::constraints-removed-over-the-whole-configuration')]),
    T('c19-hmc-unconstrains-the-joint-only', HM, "    parameters_unres, parameters = make_unconstrained(json_list)", "    parameters_unres, parameters = make_unconstrained(joint_dic)",
      expect=[('C19.U', 'hmc.build_hmc::constraints-removed-over-the-whole-configuration')]),
    T('c19-time-tree-prior-without-clock-accepted', EV, "    if arg.clock is None and (\n        arg.coalescent is not None or arg.birth_death is not None\n    ):", "    if False and (\n        arg.coalescent is not None or arg.birth_death is not None\n    ):",
      expect=[('C19.R', 'TransformedParameter.parameters.loc::tree.root_height@create_constant_birth_death')]),
    T('c19-bdsk-grid-not-required', EV, '    if arg.birth_death == "bdsk" and arg.grid is None:\n        parser.error("bdsk birth-death model requires the grid argument")\n', '', expect=[('C19.G', 'create_bdsk::full=[arg.grid]')]),
    T('c19-benign-bdsk-grid-required-elsewhere', EV, '    if arg.birth_death == "bdsk" and arg.grid is None:\n        parser.error("bdsk birth-death model requires the grid argument")\n',
      '    if arg.grid is None and arg.birth_death is not None and arg.birth_death == "bdsk":\n        parser.error("--grid is required by bdsk")\n', benign=True),
    T('c19-rescaled-rates-listed-as-a-jacobian', 'torchtree/cli/jacobians.py', "            if dict_def['transform'] != 'RescaledRateTransform' and not (", "            if not (", expect=[('C19.J', 'log-determinant-of-RescaledRateTransform')]),
    T('c19-block-update-emitted-with-integrated-gmrf', 'torchtree/cli/mcmc.py', "            and not arg.gmrf_integrated\n", "", expect=[('C19.D', 'GMRFPiecewiseCoalescentBlockUpdatingOperator.gmrf->gmrf:GMRFGammaIntegrated')]),
    T('c19-grid-or-cutoff-is-enough', EV, "        elif arg.coalescent in piecewise_grid and (\n            arg.cutoff is None or arg.grid is None\n        ):", "        elif arg.coalescent in piecewise_grid and (\n            arg.cutoff is None and arg.grid is None\n        ):",
      expect=[('C19.G', 'create_coalesent::')]),
    T('c19-benign-grid-check-through-a-flag', EV, "        elif arg.coalescent in piecewise_grid and (\n            arg.cutoff is None or arg.grid is None\n        ):", "        elif arg.coalescent in piecewise_grid and (\n            arg.grid is None or arg.cutoff is None\n        ):",
      benign=True),
    T('c19-priors-built-before-the-tree', EV, "    likelihood_dic = create_tree_likelihood(\"like\", taxa, alignment, arg)\n    prior_dic = {\n        \"id\": \"prior\",\n        \"type\": \"JointDistributionModel\",\n        \"distributions\": create_evolution_priors(taxa, arg),\n    }\n",
      "    priors = create_evolution_priors(taxa, arg)\n    likelihood_dic = create_tree_likelihood(\"like\", taxa, alignment, arg)\n    prior_dic = {\n        \"id\": \"prior\",\n        \"type\": \"JointDistributionModel\",\n        \"distributions\": priors,\n    }\n",
      expect=[('C19.O', 'create_evolution_joint::arg._coalescent_init')]),
    T('c19-dates-tested-by-truthiness', EV, "    if arg.dates == 0:\n        s[CONSTRAINT.UPPER.value] = 0.0", "    if not arg.dates:\n        s[CONSTRAINT.UPPER.value] = 0.0", expect=[('C19.Z', '--dates::truthiness-test')]),
    T('c19-shifts-rescaled-in-parameter-space', EV, "                    tree_model[\"shifts\"][\"tensor\"] = tree_model_obj.transform.inv(\n                        heights\n                    ).tolist()",
      "                    tree_model[\"shifts\"][\"tensor\"] = (tree_model_obj._internal_heights.tensor * (arg.root_height_init / heights[-1])).tolist()", expect=[('C19.U', 'create_tree_model::shifts.tensor')]),
]
for m in CORPUS:
    if m.id == 'c19-transform-string-typo':
        m.expect = [('C19.T', 'store::transform=torchtree.distributions.SigmoidTransform')]
CORPUS += [
    Mut('c19-root-height-bounded-only-for-dated-tips', 'torchtree/cli/evolution.py', '', "            root_height[CONSTRAINT.LOWER.value] = offset\n            tree_model = ReparameterizedTimeTreeModel.json_factory(\n                id_, newick, \"taxa\", ratios=ratios, root_height=root_height, **kwargs\n",
        "            if offset > 0.0:\n                root_height[CONSTRAINT.LOWER.value] = offset\n            tree_model = ReparameterizedTimeTreeModel.json_factory(\n                id_, newick, \"taxa\", ratios=ratios, root_height=root_height, **kwargs\n",
        mode='text', expect=[('C19.U', 'bound-does-not-depend-on-the-data')]),
    Mut('c19-empirical-rates-left-next-to-full', 'torchtree/cli/evolution.py', '', "                del rates[\"full\"]\n", "", mode='text',
        expect=[('C19.I', 'list-valued-tensor-next-to-full')], note='the state of the tree before 51a10de'),
    Mut('c19-growth-starts-at-zero-with-a-constant-initialisation', 'torchtree/cli/evolution.py', 'create_coalesent', 'growth = Parameter.json_factory(f\'{id_}.growth\', **{\'tensor\': [0.01]})',
        "growth_value = 0.01\nif arg.coalescent_init == 'constant':\n    growth_value = 0.0\ngrowth = Parameter.json_factory(f'{id_}.growth', **{'tensor': [growth_value]})",
        expect=[('C19.S', 'create_coalesent::growth-starts-off-the-singularity')]),
    Mut('c19-benign-growth-starts-small-with-a-constant-initialisation', 'torchtree/cli/evolution.py', 'create_coalesent', 'growth = Parameter.json_factory(f\'{id_}.growth\', **{\'tensor\': [0.01]})',
        "growth_value = 0.01\nif arg.coalescent_init == 'constant':\n    growth_value = 1e-06\ngrowth = Parameter.json_factory(f'{id_}.growth', **{'tensor': [growth_value]})", benign=True),
]
CORPUS += [
    Mut('c19-clock-prior-chosen-by-the-unsplit-name', 'torchtree/cli/evolution.py', 'create_clock_prior', 'name, params = parse_distribution(arg.clockpr)',
        "name, params = parse_distribution(arg.clockpr)\nif name == 'lognormal':\n    params = None", expect=[('C19.L', 'create_clock_prior::name ==')]),
    Mut('c19-benign-clock-prior-chosen-by-the-first-element', 'torchtree/cli/evolution.py', 'create_clock_prior', 'name, params = parse_distribution(arg.clockpr)',
        "name, params = parse_distribution(arg.clockpr)\nif arg.clockpr.split('(')[0] == 'lognormal':\n    params = None", benign=True),
]
CORPUS += [
    Mut('c19-tree-jacobian-behind-an-unrelated-switch', 'torchtree/cli/hmc.py', '', '    if arg.clock is not None and arg.heights == "ratio":\n        jacobians_list.append("tree")',
        '    if arg.clock is not None and arg.heights == "ratio" and arg.include_jacobian:\n        jacobians_list.append("tree")', mode='text',
        expect=[('C19.J', 'build_hmc::jacobian-terms-depend-on-the-model-options-only')]),
    Mut('c19-benign-tree-jacobian-test-nested', 'torchtree/cli/hmc.py', '', '    if arg.clock is not None and arg.heights == "ratio":\n        jacobians_list.append("tree")',
        '    if arg.clock is not None:\n        if arg.heights == "ratio":\n            jacobians_list.append("tree")', mode='text', benign=True),
    Mut('c19-number-options-keep-integers', 'torchtree/cli/argparse_utils.py', '', "    try:\n        return float(arg)\n    except ValueError:\n        if (isinstance(choices",
        "    try:\n        return int(arg)\n    except ValueError:\n        pass\n    try:\n        return float(arg)\n    except ValueError:\n        if (isinstance(choices", mode='text',
        expect=[('C19.L', 'cli.evolution::isinstance(arg.brlens_init, float)')]),
    Mut('c19-benign-number-option-through-a-helper', 'torchtree/cli/argparse_utils.py', '', "    try:\n        return float(arg)\n    except ValueError:\n        if (isinstance(choices",
        "    try:\n        return float(str(arg).strip())\n    except ValueError:\n        if (isinstance(choices", mode='text', benign=True),
    Mut('c19-map-joint-built-before-the-alignment', 'torchtree/cli/map.py', '',
        "    alignment = create_alignment('alignment', 'taxa', arg)\n    json_list.append(alignment)\n\n    if arg.model == 'SRD06':\n        json_list.append(create_site_model_srd06_mus('srd06.mus'))\n\n    joint_dic = create_evolution_joint(taxa, 'alignment', arg)\n",
        "    joint_dic = create_evolution_joint(taxa, 'alignment', arg)\n    alignment = create_alignment('alignment', 'taxa', arg)\n    json_list.append(alignment)\n\n    if arg.model == 'SRD06':\n        json_list.append(create_site_model_srd06_mus('srd06.mus'))\n\n",
        mode='text', expect=[('C19.O', 'cli.map.build_optimizer::arg._data_type::first-user-is-emitted-first')]),
    Mut('c19-horseshoe-on-the-rescaled-rates', 'torchtree/cli/priors.py', '', "        'x': f'{branch_model_id}.rates.unscaled',\n        'parameters': {'tree_model': tree_id},",
        "        'x': f'{branch_model_id}.rates',\n        'parameters': {'tree_model': tree_id},", mode='text', expect=[('C19.J', 'cli.priors::{}.rates.logdiff::not-stacked-on-a-transform-without-jacobian')]),
]
CORPUS += [
    Mut('c19-helper-tree-keeps-branch-lengths-in-one-branch-only', 'torchtree/cli/evolution.py', '', "                    ReparameterizedTimeTreeModel.from_json(\n                        tree_model, {\"taxa\": taxa_obj}\n                    )\n                )\n\n                ratios = Parameter.json_factory(",
        "                    ReparameterizedTimeTreeModel.from_json(\n                        dict(tree_model, keep_branch_lengths=True), {\"taxa\": taxa_obj}\n                    )\n                )\n\n                ratios = Parameter.json_factory(",
        mode='text', expect=[('C19.U', 'cli.evolution::create_tree_model::tree_model::helper-objects-built-alike')]),
]
CORPUS += [
    Mut('c19-branch-model-built-without-the-requested-rate', 'torchtree/cli/evolution.py', '', "        treelikelihood_model[\"branch_model\"] = create_branch_model(\n            \"branchmodel\", tree_id, len(taxa[\"taxa\"]), arg, rate_init\n        )\n",
        "        treelikelihood_model[\"branch_model\"] = create_branch_model(\n            \"branchmodel\", tree_id, len(taxa[\"taxa\"]), arg\n        )\n", mode='text',
        expect=[('C19.U', 'cli.evolution::create_tree_likelihood::create_branch_model(…)::passes-rate_init')]),
    Mut('c19-benign-requested-rate-passed-by-keyword', 'torchtree/cli/evolution.py', '', "        treelikelihood_model[\"branch_model\"] = create_branch_model(\n            \"branchmodel\", tree_id, len(taxa[\"taxa\"]), arg, rate_init\n        )\n",
        "        treelikelihood_model[\"branch_model\"] = create_branch_model(\n            \"branchmodel\", tree_id, len(taxa[\"taxa\"]), arg, rate_init=rate_init\n        )\n", mode='text', benign=True),
]
