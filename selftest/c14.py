from sa.selftest import Mut

KL = 'torchtree/variational/kl.py'
VR = 'torchtree/variational/renyi.py'
CH = 'torchtree/variational/chi.py'

CORPUS = [
    Mut('c14-elbo-sign', KL, 'ELBO._call', 'lp = (self.p() - self.q()).mean()', 'lp = (self.q() - self.p()).mean()', expect=[('C14.T', 'ELBO._call::sample-shape=[S]')]),
    Mut('c14-elbo-sum', KL, 'ELBO._call', 'lp = (self.p() - self.q()).mean()', 'lp = (self.p() - self.q()).sum()', expect=[('C14.T', 'ELBO._call::sample-shape=[S]')]),
    Mut('c14-elbo-plus', KL, 'ELBO._call', 'lp = (self.p() - self.q()).mean()', 'lp = (self.p() + self.q()).mean()', expect=[('C14.T', 'ELBO._call::sample-shape=[S]')]),
    Mut('c14-iwae-no-logK', KL, 'ELBO._call', 'lp = (torch.logsumexp(log_p - log_q, -1) - torch.tensor(float(log_p.shape[-1])).log()).mean()',
        'lp = torch.logsumexp(log_p - log_q, -1).mean()', expect=[('C14.T', 'ELBO._call::sample-shape=[S,K]')]),
    Mut('c14-iwae-wrong-axis-size', KL, 'ELBO._call', 'lp = (torch.logsumexp(log_p - log_q, -1) - torch.tensor(float(log_p.shape[-1])).log()).mean()',
        'lp = (torch.logsumexp(log_p - log_q, -1) - torch.tensor(float(log_p.shape[0])).log()).mean()', expect=[]),
    Mut('c14-klpq-no-normalise', KL, 'KLpq._call', 'log_w_norm = log_w - torch.logsumexp(log_w, -1)', 'log_w_norm = log_w', expect=[('C14.T', 'KLpq._call')]),
    Mut('c14-vr-no-scale', VR, 'VR._call', 'return log_w_mean.mean(-1) / (1.0 - self.alpha)', 'return log_w_mean.mean(-1)', expect=[('C14.T', 'VR._call')]),
    Mut('c14-vr-no-log-n', VR, 'VR._call', 'log_w_mean = torch.logsumexp(log_w, dim=-1) - math.log(log_w.shape[-1])', 'log_w_mean = torch.logsumexp(log_w, dim=-1)', expect=[('C14.T', 'VR._call')]),
    Mut('c14-vr-alpha', VR, 'VR._call', 'log_w = (1.0 - self.alpha) * (self.p() - self.q())', 'log_w = self.alpha * (self.p() - self.q())', expect=[('C14.T', 'VR._call')]),
    Mut('c14-cubo-no-shift', CH, 'CUBO._call', 'return torch.log(log_w_rescaled.mean()) / self.n + log_max', 'return torch.log(log_w_rescaled.mean()) / self.n', expect=[('C14.T', 'CUBO._call')]),
    Mut('c14-cubo-shift-scaled', CH, 'CUBO._call', 'return torch.log(log_w_rescaled.mean()) / self.n + log_max', 'return (torch.log(log_w_rescaled.mean()) + log_max) / self.n', expect=[('C14.T', 'CUBO._call')]),
    Mut('c14-elbo-eval-before-draw', KL, 'ELBO._call', 'self.q.rsample(samples)', 'pass', nth=1, expect=[('C14.S', 'ELBO._call::draw-before-evaluation')]),
    Mut('c14-vr-two-draws', VR, 'VR._call', 'log_w = (1.0 - self.alpha) * (self.p() - self.q())',
        'log_p = self.p()\nself.q.rsample(samples)\nlog_w = (1.0 - self.alpha) * (log_p - self.q())', expect=[('C14.S', 'VR._call::same-draw-for-p-and-q')]),
    Mut('c14-cubo-fixed-samples', CH, 'CUBO._call', "samples = kwargs.get('samples', self.samples)", 'samples = self.samples', expect=[('C14.S', 'CUBO._call::sample-shape-from-request')]),
    Mut('c14-cubo-sample-not-rsample', CH, 'CUBO._call', 'self.q.rsample(samples)', 'self.q.sample(samples)', expect=[('C14.S', 'CUBO._call::reparameterised-draw')]),
    # benign
    Mut('c14-benign-elbo-split', KL, 'ELBO._call', 'lp = (self.p() - self.q()).mean()', 'log_p = self.p()\nlog_q = self.q()\nlp = (log_p - log_q).mean()', benign=True),
    Mut('c14-benign-vr-reorder', VR, 'VR._call', 'return log_w_mean.mean(-1) / (1.0 - self.alpha)', 'return (1.0 / (1.0 - self.alpha)) * log_w_mean.mean(-1)', benign=True),
    Mut('c14-benign-mathlog', KL, 'ELBO._call', 'lp = (torch.logsumexp(log_p - log_q, -1) - torch.tensor(float(log_p.shape[-1])).log()).mean()',
        'lp = (torch.logsumexp(log_p - log_q, -1) - math.log(log_p.shape[-1])).mean()', benign=True),
    Mut('c14-vr-sums-outer-dimension', 'torchtree/variational/renyi.py', '', "        return log_w_mean.mean(-1) / (1.0 - self.alpha)", "        return log_w_mean.sum(-1) / (1.0 - self.alpha)", expect=[('C14.T', 'VR._call::sample-shape=[S,K]')], mode='text'),
    Mut('c14-joint-iterates-models-only', 'torchtree/distributions/joint_distribution.py', '', "        for distr in self._distributions.callables():", "        for distr in self._distributions.models():", expect=[('C14.C', 'JointDistributionModel.log_prob::sums-every-callable-component')], mode='text'),
    Mut('c14-elbo-flags-swapped-positionally', 'torchtree/variational/kl.py', '', "        obj = _from_json(cls, data, dic)\n        obj.entropy = data.get('entropy', False)\n        obj.score = data.get('score', False)\n        return obj",
        "        samples = data.get('samples', 1)\n        return cls(data['id'], process_object(data['variational'], dic), process_object(data['joint'], dic), samples, data.get('score', False), data.get('entropy', False))",
        expect=[('C14.O', 'ELBO::positional')], mode='text'),
    Mut('c14-klpq-weights-normalised-outside-log-space', 'torchtree/variational/kl.py', '', "        log_w_norm = log_w - torch.logsumexp(log_w, -1)\n        return torch.sum(log_w_norm.exp() * log_w)\n",
        "        w = log_w.exp()\n        w_norm = w / w.sum(-1, keepdim=True)\n        return torch.sum(w_norm * log_w, -1)\n", expect=[('C14.T', 'exp-of-unshifted-log-weights')], mode='text'),
    Mut('c14-container-name-clash-checked-in-one-registry', 'torchtree/core/container.py', '', "        while hasattr(self, unique_id):\n", "        registered = self._parameters if isinstance(obj, AbstractParameter) else self._models\n        while unique_id in registered:\n",
        expect=[('C14.C', 'Container._unique_id::name-unused-by-any-component')], mode='text'),
    Mut('c14-benign-container-name-clash-checked-in-both-registries', 'torchtree/core/container.py', '', "        while hasattr(self, unique_id):\n", "        while unique_id in self._parameters or unique_id in self._models or hasattr(self, unique_id):\n",
        benign=True, mode='text'),
    Mut('c14-mvn-closed-form-entropy-precision-sign', 'torchtree/distributions/multivariate_normal.py', '', "        kwargs = {self.parameterization: self.parameter.tensor}\n        return torch.distributions.MultivariateNormal(\n            self.loc.tensor, **kwargs\n        ).entropy()\n", "        if self.parameterization == 'scale_tril':\n            half_log_det = self.parameter.tensor.diagonal(dim1=-2, dim2=-1).log().sum(-1)\n        elif self.parameterization == 'covariance_matrix':\n            half_log_det = 0.5 * torch.linalg.slogdet(self.parameter.tensor)[1]\n        else:\n            half_log_det = 0.5 * torch.linalg.slogdet(self.parameter.tensor)[1]\n        dim = self.loc.shape[-1]\n        return 0.5 * dim * (1.0 + math.log(2.0 * math.pi)) + half_log_det\n", expect=[('C14.C', 'MultivariateNormal.entropy::entropy-of-the-distribution-log_prob-evaluates::precision_matrix')], mode='text',
        more=[dict(scope='', old="from typing import Union\n", new="import math\nfrom typing import Union\n", mode='text')]),
    Mut('c14-benign-mvn-closed-form-entropy', 'torchtree/distributions/multivariate_normal.py', '', "        kwargs = {self.parameterization: self.parameter.tensor}\n        return torch.distributions.MultivariateNormal(\n            self.loc.tensor, **kwargs\n        ).entropy()\n", "        if self.parameterization == 'scale_tril':\n            half_log_det = self.parameter.tensor.diagonal(dim1=-2, dim2=-1).log().sum(-1)\n        elif self.parameterization == 'covariance_matrix':\n            half_log_det = 0.5 * torch.linalg.slogdet(self.parameter.tensor)[1]\n        else:\n            half_log_det = -0.5 * torch.linalg.slogdet(self.parameter.tensor)[1]\n        dim = self.loc.shape[-1]\n        return 0.5 * dim * (1.0 + math.log(2.0 * math.pi)) + half_log_det\n", benign=True, mode='text',
        more=[dict(scope='', old="from typing import Union\n", new="import math\nfrom typing import Union\n", mode='text')]),
    Mut('c14-renyi-squeezes-a-size-one-last-axis-of-log-q', 'torchtree/variational/renyi.py', 'VR._call', 'log_w = (1.0 - self.alpha) * (self.p() - self.q())',
        'log_q = self.q()\nif log_q.dim() > 0 and log_q.shape[-1] == 1:\n    log_q = log_q.squeeze(-1)\nlog_w = (1.0 - self.alpha) * (self.p() - log_q)',
        expect=[('C14.T', 'VR._call::sample-shape=[S,K]::K=1::samples-paired-across-draws')],
        note='the trailing axis of size one may be the K axis of a [S,1] sample shape: [S,1] - [S] is an S x S matrix'),
    Mut('c14-benign-renyi-squeezes-both-operands', 'torchtree/variational/renyi.py', 'VR._call', 'log_w = (1.0 - self.alpha) * (self.p() - self.q())',
        'log_d = self.p() - self.q()\nif log_d.dim() > 1 and log_d.shape[-1] == 1:\n    log_d = log_d.squeeze(-1).unsqueeze(-1)\nlog_w = (1.0 - self.alpha) * log_d', benign=True),
]
CORPUS = [m for m in CORPUS if m.id != 'c14-iwae-wrong-axis-size']
CORPUS += [
    Mut('c14-cat-parameter-writes-the-storage-of-its-components', 'torchtree/core/parameter.py', '', "            parameter.tensor = tensor[..., start : (start + parameter.shape[-1])]\n",
        "            parameter._tensor = tensor[..., start : (start + parameter.shape[-1])]\n", expect=[('C14.S', 'draw-reaches-the-model::')], mode='text'),
    Mut('c14-joint-flattens-from-the-second-axis', 'torchtree/distributions/joint_distribution.py', '', "lp.view(lp.shape[: len(sample_shape)] + (-1,)).sum(-1, keepdim=True)", "lp.flatten(1).sum(-1, keepdim=True)", mode='text',
        expect=[('C14.C', 'joint-shapes::')]),
    Mut('c14-mvn-precision-converted-by-inverting-its-factor', 'torchtree/distributions/multivariate_normal.py', 'MultivariateNormal.log_prob', 'kwargs = {self.parameterization: self.parameter.tensor}',
        "kwargs = {self.parameterization: self.parameter.tensor}\nif self.parameterization == 'precision_matrix':\n    return torch.distributions.MultivariateNormal(self.loc.tensor, scale_tril=torch.linalg.inv(torch.linalg.cholesky(self.parameter.tensor))).log_prob(x.tensor)",
        expect=[('C14.C', 'MultivariateNormal.log_prob::covariance-of-the-torch-distribution-is-the-parameterised-one::precision_matrix')]),
    Mut('c14-benign-mvn-precision-converted-through-the-covariance', 'torchtree/distributions/multivariate_normal.py', 'MultivariateNormal.log_prob', 'kwargs = {self.parameterization: self.parameter.tensor}',
        "kwargs = {self.parameterization: self.parameter.tensor}\nif self.parameterization == 'precision_matrix':\n    return torch.distributions.MultivariateNormal(self.loc.tensor, scale_tril=torch.linalg.cholesky(torch.linalg.inv(self.parameter.tensor))).log_prob(x.tensor)",
        benign=True),
]
CORPUS += [
    Mut('c14-elbo-entropy-left-unsummed', 'torchtree/variational/kl.py', '', "                lp = self.p().mean() + self.q.entropy().sum()\n", "                lp = self.p().mean() + self.q.entropy()\n", mode='text',
        expect=[('C14.T', 'ELBO._call::analytic-entropy-is-the-total')]),
    Mut('c14-benign-elbo-entropy-in-a-local', 'torchtree/variational/kl.py', '', "                lp = self.p().mean() + self.q.entropy().sum()\n",
        "                total_entropy = self.q.entropy().sum()\n                lp = self.p().mean() + total_entropy\n", mode='text', benign=True),
    Mut('c14-entropy-replicated-to-the-width-of-x', 'torchtree/distributions/distributions.py', '', "        ).entropy()\n", "        ).entropy().expand(self.x.shape[-1:])\n", mode='text',
        expect=[('C14.C', 'Distribution.entropy::entropy-of-the-distribution-as-it-is')]),
    Mut('c14-draws-copied-into-what-the-getter-returns', 'torchtree/distributions/distributions.py', '', "        ).rsample(sample_shape)\n        self.x.tensor = x\n",
        "        ).rsample(sample_shape)\n        self.x.tensor.copy_(x)\n        self.x.fire_parameter_changed()\n", mode='text', expect=[('C14.S', 'draw-reaches-the-model::')]),
]
_IG_ANCHOR = "    @property\n    def concentration(self):\n        return self.base_dist.concentration\n"
CORPUS += [
    Mut('c14-inverse-gamma-entropy-with-the-sign-of-a-rate', 'torchtree/distributions/inverse_gamma.py', '', _IG_ANCHOR,
        "    def entropy(self):\n        return self.concentration - self.rate.log() + self.concentration.lgamma() - (1.0 + self.concentration) * self.concentration.digamma()\n\n" + _IG_ANCHOR,
        mode='text', expect=[('C14.C', 'InverseGamma::entropy')]),
    Mut('c14-benign-inverse-gamma-entropy', 'torchtree/distributions/inverse_gamma.py', '', _IG_ANCHOR,
        "    def entropy(self):\n        return self.concentration + torch.log(self.rate) + torch.lgamma(self.concentration) - (1.0 + self.concentration) * torch.digamma(self.concentration)\n\n" + _IG_ANCHOR,
        mode='text', benign=True),
]
