"""C11.K — Hamiltonian.__call__ is CallableModel.__call__: the value is cached until a parameter of the joint changes, although it depends on the momentum
handed in by the caller.  Two calls with different momenta at the same position return the same number (found broken at 248fd6f, fixed afterwards).

Run: PYTHONPATH=/repo /venv/bin/python findings/c11_hamiltonian_served_from_the_cache.py   (exit 1 = defect present)"""
import sys
import torch
from torchtree import Parameter
from torchtree.distributions.distributions import Distribution
from torchtree.distributions.joint_distribution import JointDistributionModel
from torchtree.inference.hmc.hamiltonian import Hamiltonian

x = Parameter('x', torch.tensor([0.3, -1.2]))
joint = JointDistributionModel('j', [Distribution('n', torch.distributions.Normal, x, {'loc': Parameter('m', torch.zeros(2)), 'scale': Parameter('s', torch.ones(2))})])
h = Hamiltonian('h', joint)
inv = torch.ones(2)
p1, p2 = torch.tensor([1.0, 0.0]), torch.tensor([3.0, -2.0])
a = h(momentum=p1, inverse_mass_matrix=inv)
b = h(momentum=p2, inverse_mass_matrix=inv)
fresh = Hamiltonian('h2', joint)(momentum=p2, inverse_mass_matrix=inv)
expected = -joint().sum() + 0.5 * (p2 * p2).sum()
print('H(p1) =', float(a), ' H(p2) =', float(b), ' freshly built H(p2) =', float(fresh), ' by hand =', float(expected))
if abs(float(b) - float(expected)) > 1e-9:
    print('DEFECT: the second call returned the cached value of the first')
    sys.exit(1)
print('OK')
