CLAIMED = {
    'C01': {
        'text': "Two clauses. (T) The alphabet tables of the nucleotide, amino-acid and codon data types are constant-folded from the class bodies and checked exhaustively: for each of the 128 code points the tip vector is the indicator of the union of states the symbol stands for (IUPAC table written in the checker; unknown symbols = any state), genetic-code tables have 64 symbols, a state count equal to 64 minus the stops, and base-4 triplet order - this is the 'an ambiguous tip counts as the union of the states it may stand for' clause for every symbol. (K) For each of the six pruning kernels the post-order loop is parsed: exactly one factor per child, transition matrix and partial indexed by the same child, orientation P @ L without transpose (a transposed product is invisible under JC69, the only model the likelihood tests use), tip-state gather on the last axis, root = last post-order node, category axis -3 summed with the proportions inside the log, weights outside and summed over sites; kernels must agree with each other. Four of the six kernels are not exercised with a non-symmetric P by any test. Also: (B) the assembly of per-branch quantities in TreeLikelihoodModel._call (lengths in node order then exactly one zero for unrooted trees, rate x time with a clock, times the site rate) and (W) pattern compression keeps every distinct column with its count; tip-vector memos must be keyed by every argument they depend on.",
        'note': "Does not decide numerical equality with an independent oracle, the shape plumbing of TreeLikelihoodModel._call, or the post-order / taxon indexing.",
        'technique': "constant folding of literal tables + exhaustive table-against-table comparison; structural fact extraction over the kernel ASTs with sibling cross-check",
    },
    'C02': {
        'text': "(M) Representation switch: for every one of the 128 code points and both table-driven data types, the tip vector that partial(c, use_ambiguities=False) returns - decided from the folded tables and the string literal of the missing-data branch - equals the column the tip-state kernels select for encoding(c) clamped to the state count (one-hot for a definite state, the appended all-ones column otherwise); compress_alignment_states clamps at state_count; both tip-state kernels append exactly one column of ones on the last axis and gather on that axis. Exhaustive over symbols.",
        'note': "Invariance under permutations of taxa / sequences / children / columns and under rerooting as numerical statements are NOT decided.",
        'technique': "constant folding + exhaustive comparison of two encodings of the same table",
    },
    'C03': {
        'text': "(S) The rescale flag is monotone: every store outside the constructor assigns True, so 'once rescaling has been switched on all later evaluations stay rescaled'. (G) In both calculate_with_* methods the plain result flows into an isinf test, the true branch sets the flag and re-assigns the value from a rescaling kernel called with the same arguments, that value is returned, and with the flag set only a rescaling kernel runs; tip-state and tip-partial methods use kernels of their own kind. (P) In all three rescaling kernels the scaler is the max of the very product that is divided, taken over the flattened category x state axes (one scaler per site shared by all categories - necessary because categories are summed after scaling), appended to the scalers list in the same block as the division, and the sum of log scalers is added inside the weighted sum; the incremental kernel recomputes and marks a node whenever a child was rescaled. The rescaling paths are reached by one test on one tree.",
        'note': "The dangerous band where the plain result is finite but inaccurate, and agreement with an extended-range reference, are numerical and not decided.",
        'technique': "typestate of a flag (monotone stores), CFG/def-use of the switch path, acquire/release-style pairing of scaler division and recording",
    },
    'C04': {
        'text': "Literal rate matrices (HKY, GTR, JC69) are turned into polynomials over pi, kappa, r and decided as identities: all rows sum to zero, every off-diagonal is a positive combination, detailed balance for all six pairs, kappa on exactly the transitions, GTR rates in the documented order. Closed forms (JC69, GeneralJC69) are decided as polynomial identities in e=exp(kt) and the state count S (rows sum to one, P(0)=I) and their exponent is compared with the non-zero eigenvalue of the model's own normalised q(). The four generic builders are checked by ordered def-use facts (both triangles, R @ diag(pi) with pi on the right, diagonal = minus row sum over the last axis after the product, only whole-matrix scaling afterwards). Normalisation precedes every eigendecomposition / matrix exponential. The eigen-reconstruction is checked as a word: diag(1/sqrt pi) V diag(exp(lambda t)) V^-1 diag(sqrt pi) of the symmetrised matrix. A polynomial identity holds for all parameter values, which is the quantifier the tests (fixed points, mostly JC69/HKY) cannot reach; a transposed reconstruction is invisible at equal frequencies. Every p_t implementation of the package must be one of the audited ones (a new one ends the run as incomplete, naming it), and eigen() must decompose exactly the matrix it is given.",
        'note': "Does not decide numerical accuracy of eigh/matrix_exp, the semigroup law numerically, broadcasting of batched shapes, or the LG/WAG tables. Trusted: eigh returns orthonormal eigenvectors; torch.cat(..., -1).reshape(..., (4,4)) is row-major.",
        'technique': "expression-to-polynomial translation and exact identity checking; ordered def-use facts; free-group word of the matrix product",
    },
    'C05': {
        'text': "InvariantSiteModel: probabilities and rates are turned into rational functions of the invariant proportion p and 'sum of prob x rate = 1' and 'sum of prob = 1' are decided as identities; the exactly-zero rate block is aligned with the invariant probability; the relative rate is applied last. Discretised models: the stored rates have the shape X / sum(X x P) with P the very attribute probabilities() returns (so the weighted mean is one for every shape parameter - an identity, not a number), the probabilities are re-defined before they normalise, (p, (1-p)/K x K) sums to one as an identity in p and K, mid-point quantiles (2i+1)/(2K) with the branch's own K, Weibull zero block aligned with the invariant probability. The tests evaluate one shape at two category counts.",
        'note': "Does not decide non-negativity for all shapes, broadcasting of batched shapes (beyond whole-tensor reductions) or the accuracy of the quantile function.",
        'technique': "rational-function identities over extracted expressions; ordered def-use facts",
    },
    'C06': {
        'text': "(D) In every class whose constructor chooses an attribute among several constructor calls, a store to that attribute elsewhere must not install a fixed member of the set: the ratio / increment parameterisation must survive cuda()/cpu(). (R) Writer/reader layout check of the pre-order table across its consumers: rows are (parent, child); branch length = height[parent] - height[child]; the forward loop unpacks (parent, child), reads the parent's height at the first index and stores the child; the inverse divides the child-indexed difference by the parent-indexed one with the child's bound. (F) The forward update as a polynomial is the convex combination (1-r) b + r h_parent (so the node lies between its oldest descendant tip and its parent for r in (0,1)) and the inverse expression composed with it is the identity; bounds are the post-order max over children; tips sit at the sampling times. Batched invertibility of the ratio transform is decided under C07.I.",
        'note': "Does not decide validity numerically on all topologies nor the tip-date conventions.",
        'technique': "class-attribute choice analysis; writer/reader role agreement over index expressions; polynomial identities",
    },
    'C07': {
        'text': "Abstract interpretation in a purpose-built domain (Jacobian kind): the forward map of every bijective Transform subclass is parsed into a chain of primitives (cumsum / first difference are unit-Jacobian, exp/log/softplus/expm1 element-wise). The reported log-determinant must be the accepted normal form of the sum of log|g'| for that chain - zeros exactly for the volume-preserving chains, right argument (x vs y) and sign, autograd forms must differentiate the same chain - and _inverse must be the reversed chain of inverse primitives. Tree-indexed transforms get dedicated rules: the ratio transform's update is turned into a polynomial whose derivative (parent height minus bound) must be the argument of the log over the non-root internal nodes; the increment transform must be unit triangular in post-order with an inverse using the same aggregator switch; the log-rate-difference transform is log followed by a unit-triangular incidence map. Callers (TransformedParameter(), ReparameterizedTimeTreeModel()) must pass (x, cached forward value) after a dominating cache refresh. The chain argument holds at every point of the domain and on every tree; the suite tests two transforms at one point each.",
        'note': "Transforms whose inverse/log-det unconditionally raise are excluded (nothing is reported). torch's own transforms are trusted. Does not decide numerical equality; derivative table of the primitives is the trusted base.",
        'technique': "abstract interpretation of the forward map into primitive chains (Jacobian kinds); polynomial derivative for the ratio transform; dominance for the callers",
    },
    'C08': {
        'text': "The event bookkeeping that every coalescent implementation repeats (ten copies, two of them in classes without any test) is extracted by dataflow role - the vector handed to argsort, the permutation gathered into heights and marks, the parts of the mark vector (+1 or multiplicities for the n tips, -1 for the n-1 coalescent events, 0 for grid points) against the parts of the height vector in the same order, lineages = cumsum(marks)[..., :-1], C(k,2) = k(k-1)/2 as a polynomial, later-minus-earlier intervals - and every copy must satisfy it; all copies must agree (a deviant copy is a violation). For the log densities the returned expression is turned into a polynomial over positive atoms and every term must carry a minus sign; log N must be taken at coalescent events only; the population-size lookup must count the mark that delimits the pieces (coalescent marks for the skyride, grid marks for skygrid variants). These facts hold for every number of taxa, sampling scheme and grid because they are statements about the construction, not about values.",
        'note': "Numerical equality with the Kingman density, the equivalences between models, the scaling law, ties between event times and the run-time interleaving of grid and tree events are not decided.",
        'technique': "role-based fact extraction (def-use) with sibling cross-checking; polynomial sign analysis of the returned density",
    },
    'C09': {
        'text': "Decides (a) for all from_json methods (60+ option stores) that a constructor option is filled from the JSON key of the same name, that options passed are declared by the constructor and that raw JSON is not wrapped as a tensor - the 'options select the behaviour they name' clause; (b) keyword plumbing of BDSKModel._call and the epidemiological re-parameterisation as polynomial identities; (c) member resolution of the birth-death model classes; (d) formula-level agreement of the constant and the skyline model: log_q, A, the last-epoch B (with p_{m+1}=1) and p, and the constant model's inlined first term, compared as rational functions over opaque exp/sqrt atoms, plus a sibling inventory of which parameters contribute direct log terms to the two log_prob implementations - necessary conditions of 'a single epoch equals the constant model'. The constant model and BDSKModel.from_json have no test. (P) evaluation is pure: no in-place update of a name that may alias stored state or an argument, no constructor snapshot of a parameter value; (R) rho padded to one entry per epoch keeps the sampling probability last; a mask on the psi term must depend on rho as in the skyline; JSON options forwarded by position land on the parameter of their own name.",
        'note': "Does not decide epoch-refinement invariance, boundary coincidences or agreement with the master equations (runtime tensor indexing: searchsorted/gather). Formula comparison specialises the skyline recursion to its last epoch by stripping index subscripts; exp/sqrt are opaque atoms keyed by their (rational) argument.",
        'technique': "writer/reader name agreement over resolved from_json; polynomial identities over rational functions; sibling cross-check of two implementations",
    },
    'C11': {
        'text': "Class-hierarchy analysis of the listener wiring over all ~77 classes under Parametric/AbstractParameter: which attributes each concrete class registers (kinds from the constructor chain and the repository's annotations), which dirty flags guard its caches and which registered attributes those caches read (transitively through self methods and properties), and a must-summary over the CFG of the *resolved* handle_parameter_changed/handle_model_changed (super()/helper calls followed): every dependent flag is set dirty and listeners are notified on every path. Plus: every self.<member> on the update path resolves (Parametric.__getattr__ modelled), every tensor setter / in-place write notifies, and Optimizer notifies between an in-place step and the next evaluation. The quantifier 'every model class, every parameter kind' is exactly what the class table enumerates; the suite has no staleness test for most classes. Added during the build: in-place tensor methods (copy_, add_ ...) on a parameter's tensor count as writes; (X) no transform is built with torch's identity-keyed (x, y) cache switched on; (M) a memoised result is keyed by every argument it depends on; (F) a dirty flag is cleared only on paths that ran the refresh; (L) listened values are selected by the abstract kind, never by the leaf class; (B) only CallableModel reads its cached lp.",
        'note': "Decides the wiring (a necessary condition: a missing invalidation or notification makes some update sequence return a stale value); does not decide numerical equality with a freshly built model. Kinds of constructor arguments are trusted from annotations; unannotated ones are refined through from_json feeders or reported undecided.",
        'technique': "class-hierarchy + CFG must-analysis of change handlers, member resolution, def-use of in-place writes",
    },
    'C12': {
        'text': "Decides one necessary condition exhaustively: no graph-cutting construct lies on a differentiable path. All ~280 methods of the model / distribution / transform / parameter classes (construction, parsing, sampling excluded) plus the likelihood kernels and smooth ops are scanned for .detach() / .item() / .tolist() / .numpy() / .data / float() / int() / torch.tensor(x) / torch.no_grad() / autograd.functional.jacobian|hessian without create_graph=True; each occurrence is classified (derived from shapes only, literal, used only as an index or in a comparison, allow-listed with a written reason) or reported. A cut graph gives a missing or zero gradient for every input, which is the property's 'no parameter that influences the value receives a missing or zero gradient' clause; the suite never back-propagates. (N) no torch.where whose selected branch divides by the quantity its guard tests for zero (NaN gradient through the mask); (G) requires_grad setters notify their listeners; math.* applied to a possibly-tensor value counts as a graph cut.",
        'note': "Does not decide numerical agreement of gradients with finite differences, version-counter hazards of in-place updates, or ties. The allow-list (score-function ELBO, importance-weighted inclusive KL, torch.unique of tip dates) is frozen with one reason per entry and printed in the evidence.",
        'technique': "who-may-use lint over resolved differentiable-path functions with def-use classification of each graph-cutting construct",
    },
    'C13': {
        'text': "The registry protocol is decided on the CFG of process_object (the duplicate-id test dominates construction; dic[id]=obj post-dominates it under the tested id; every lookup sits inside a KeyError->JSONParseError guard; nothing else returns normally), the error wrapping of from_json_safe, who-may-construct/who-may-look-up rules over all 92 from_json methods (nested specifications only through process_object*, always with the method's own registry: 150+ call sites), main()'s pipeline order by dominance, and json_factory/from_json key agreement with path-sensitive mandatory keys. 'Every id, at any nesting depth, in any class' is a universally quantified structural statement that the class table and CFGs enumerate; the suite parses only a handful of specifications. A from_json may not swallow parse errors raised while resolving nested specifications, nor write in place into a registered object.",
        'note': "Assumes from_json methods are reached only through process_object. Does not decide run-time behaviour on arbitrary ill-formed DAGs, nor that factory-built and directly built objects evaluate identically.",
        'technique': "CFG dominance / post-dominance on the registry protocol; who-may-call rules over resolved from_json call sites; writer/reader key tables",
    },
    'C14': {
        'text': "Tightness is decided by abstract interpretation: the _call of ELBO, KLpq, VR and CUBO is executed with log p = log q + c for every draw over symbolic sample shapes ([S]; also [S,K] for ELBO, which branches on it); abstract values are 'coef * log q_s + const' with const a rational function of c, alpha, n, S, K, log S, log K and exact transfer functions for logsumexp / mean / sum / max / exp / log / power; the value returned must be exactly c. That checks the sign of p - q, the -log K normaliser against the reduced axis, the 1/(1-alpha) and 1/n factors and the max shift, for every draw and every sample count at once. The sampling protocol is decided on the CFG: a draw from q dominates every evaluation of p() and q(), no second draw lies between two evaluations, the sample size comes from kwargs.get('samples', self.samples), pathwise objectives use rsample. The suite has no test of any variational objective. [S,K] sample shapes are decided for ELBO, VR and CUBO; (C) the joint keeps and sums every callable component and its entropy is a total; (O) JSON options of the objectives reach the constructor parameter of their own name.",
        'note': "Entropy and score variants and SELBO / KLpqImportance are excluded with reasons (exact only in expectation / surrogate). [S,K] shapes of VR, CUBO, KLpq depend on runtime broadcasting and are not decided. Also re-runs, under this property, the cache-invalidation summaries (C11.H machinery) of the objectives, Distribution and JointDistributionModel handlers, and the Jacobian-caller rules (C07.C machinery) for models expressed through constraining transforms. Assumes that at the true posterior log p(z,x) - log q(z) is the same constant for every z.",
        'technique': "abstract interpretation in an affine-in-c domain with symbolic sample shapes; CFG dominance for the sampling protocol",
    },
    'C15': {
        'text': "MCMC.run is decided on its CFG and def-use chains with roles recovered from dataflow: exactly one of accept()/reject() on every path after step(); the carried density is re-defined only on the accepted branch from the proposal's density, which is evaluated after step(); the log ratio equals +proposed - current + hastings as a polynomial identity; probability = exp(min(0,.)); accepted = probability > fresh uniform; non-finite proposals forced to reject. MCMCOperator.step clones before proposing, reject restores through the setter, every overriding subclass calls super(). Each operator's Hastings term is checked by dataflow role (what the forward/reverse densities are built from and evaluated at). Tuning direction is decided for every operator by composing the monotonicity of set_adaptable_parameter with the sign of d(spread)/d(tuned attribute) (rational-function derivative), plus getter/setter inverse pairs and the sign of the Robbins-Monro / dual-averaging updates. These hold for every iteration, schedule and accept/reject sequence because they are path properties of the loop; the suite has no MCMC test at all. The proposed density is tested for NaN before the acceptance probability is formed; loggers obtain densities by calling the model, never from its cache; the integrator rules of C16 are run as part of the Hastings clause.",
        'note': "Named-anchor rules on MCMC.run and the shipped operators; a refactor the extractor cannot follow ends in ANALYSIS-INCOMPLETE (exit 2), not a violation. Does not decide stationarity statistically nor the numerical value of any Hastings term. Trusted facts: a larger Dirichlet concentration multiplier / smaller step size is a more timid proposal.",
        'technique': "CFG path rules + def-use roles on the MH loop; polynomial identity of the log ratio; sign/monotonicity abstract interpretation of tuning maps",
    },
    'C16': {
        'text': "Abstract execution of LeapfrogIntegrator.__call__ with the loop unrolled for 1, 2 and 3 steps, in the domain of linear forms over q0, p0 and the gradients g_k at the successive evaluation points with coefficients polynomial in the step size and the inverse mass matrix. The returned momentum, the position left in the parameters and the evaluation point of every gradient must equal the Stormer-Verlet reference (a palindromic composition of shears, hence volume preserving, time reversible and second order for every target, step size and mass matrix - the property's quantifier). Leaf freshness between backward() calls is a typestate; the diagonal and dense mass-matrix branches must agree. HMCOperator._step: K0 before and K1 after the integrator by dominance, same inverse mass matrix, Hastings = K0 - K1; sample_momentum and kinetic_energy are a consistent N(0,M) / half p M^-1 p pair. The suite has no HMC test.",
        'note': "The abstract domain treats the gradient as an opaque function of position and M^-1 as a commuting scalar (only linear forms occur). Does not decide round-off or the O(eps^2) energy error numerically. Trusted: Normal(0,s) has variance s^2; MultivariateNormal(covariance_matrix=M); backward() accumulates into .grad of the current leaves.",
        'technique': "abstract interpretation (symbolic linear forms, loop unrolled) compared with a reference integrator; dominance / def-use for the Hastings term",
    },
    'C17': {
        'text': "Writer/reader cross-check of all 12 concrete state_dict/load_state_dict pairs (resolved along the MRO, base and _-halves joined, nested element states matched against every element class): keys read are written, keys written are read, conditional keys are guarded alike; coverage of loop-carried run state (every attribute, own or of an owned helper object, mutated in a method reachable from run/step/tune/learn/accept/reject is written and restored); ParameterEncoder/TensorEncoder tables against main() routing, update_parameters, Parameter.from_json and TensorDecoder; and the integer-key fact about torch optimiser state. These are exhaustive over classes, keys and attributes, which is the 'every optimiser and every operator/adaptor type ... restarting never fails' quantifier; the suite has no checkpoint test. (P) the checkpoint of an iteration is written after every state change of that iteration; (R) a helper rebuilt through its constructor receives each saved value in a parameter the constructor stores unchanged; update_parameters' type test is evaluated for every spelling of every parameter class; plates are expanded before saved tensors are injected.",
        'note': "Decides key/attribute agreement (necessary: a missing key raises on restart, an unread key or unsaved attribute loses state); does not decide trajectory equality or dtype fidelity at run time. Trusted: torch optimiser state is keyed by int, JSON keys are str; torch scheduler state is opaque.",
        'technique': "writer/reader table extraction and cross-check over resolved methods; mutation reachability (def-use) for run-state coverage",
    },
    'C18': {
        'text': "Exhaustive abstract interpretation of the checkpoint writer over the file typestate {name,name.new,name.old}->{absent,complete,partial}: every crash prefix of every path, for every flag combination the resolved call sites can pass, closed under restart-after-crash. Shows that a complete checkpoint always survives and that the checkpoint name is never a truncated file. Finite state space, fully enumerated; this is the quantifier of the property (all crash points, any number of consecutive interrupted writes), which no test can reach. The crash model includes death by an exception raised while writing (unwinding runs finally blocks and with-exits); os.open without O_TRUNC, os.fdopen, generator context-manager helpers (inlined at their yield) and explicit close() are modelled; destructive operations on the checkpoint path outside the writer and any write/rename/remove on the resume path are violations; a writer in which no write is recognised is reported as not analysed.",
        'note': "Trusted: POSIX rename/replace are atomic and raise on a missing source; open(...,'w') truncates immediately; a with-block that exits normally leaves a complete file. Power-loss durability (fsync) and the content written are not decided.",
        'technique': "file typestate abstract interpretation + who-may-call/who-may-write over resolved call sites",
    },
}

CLAIMED['C20'] = {
    'text': "(Q) GMRF.precision_matrix is folded for field lengths 3..6 with a symbolic precision by executing its indexed stores; the matrix must satisfy x'Qx = tau * sum (x_i - x_{i+1})^2 as a polynomial identity and be symmetric with zero row sums; the three terms of the density are checked as a polynomial ((N-1)/2 log tau - tau/2 sum - (N-1)/2 log 2pi). (V) Configuration that weights the squared differences in the density (weights, tree_model, rescale) must be read by precision_matrix() - sibling read-set agreement between two methods that must describe the same density. (S) The difference/weighting prologue of GMRFGammaIntegrated is the same normalised AST as GMRF's; the closed-form constants of both integrated priors are checked as polynomials over opaque log / lgamma atoms. (G) The sufficient statistics split the C(k,2) x interval terms at the mark that log_prob counts for the population-size lookup, with one group per theta. The integrated priors and the block-update inputs have no test.",
    'note': "Numerical integration identities and batched variants are not decided. The precision matrix is folded for concrete small dimensions (3..6); the loop-free construction makes those representative.",
    'technique': "symbolic folding of indexed stores + polynomial identity; read-set agreement of sibling methods; normalised-AST clone comparison",
}

CLAIMED['C19'] = {
    'text': "The CLI has no test at all. Decided statically over torchtree/cli and the json_factory helpers it calls: (T/K) every dict literal with a constant 'type' carries the keys its reader dereferences on every path and its type / transform / distribution strings resolve (reader tables from the from_json CFGs; dead slots that no reader looks at are excluded and listed); (E) option-value exhaustiveness: the option table is read from the add_argument calls and for every builder and every accepted value of the options its branches test the CFG is specialised - a local read that no assignment can reach is a crash instead of a configuration; (N) tensor-only torch functions on plain Python numbers; (R) identifier resolution under option values: definitions ('id' values as string templates resolved through call sites and option values) and references (constant strings flowing into reader keys handed to process_object(s), through lists, appends, filters, parameters and call sites) each carry the program points they depend on; their reach conditions are computed as sets of partial option assignments (specialised CFG + call-chain feasibility + sub-command) and every reference must be covered by a live, non-dead definition under every assignment where it is emitted; (J) the Jacobian list: create_jacobians visits every nested object on every path, appends exactly TransformedParameters that are not unit-scale affine (truth table over its CFG with helper predicates inlined), each builder collects it after the constraints became transforms, adds 'tree' exactly for clock+ratio heights, removes coalescent.theta exactly for piecewise coalescents, hands ['joint'] + list to the sampler, and the three builders agree; (U) make_unconstrained: transform codomain = constraint, and every value stored as the unconstrained tensor is the transform's inverse of the requested value (transform.inv, or a hand-written inverse verified with exp/log algebra).",
    'note': "Finiteness of the density and gradient at the initial point, data-dependent paths (dates, traits, regexes) and free-form options other than their defaults / comparison boundaries are not decided. Which priors sit on which transformed parameter (e.g. --coalescent_non_centered) is not modelled. Wildcard identifiers (taken from data or other objects at run time) are never checked as references and pure wildcards never count as definitions.",
    'technique': "reader/writer key tables + option-specialised CFG reachability + string-template dataflow through call sites (DNF reach conditions over the argparse option table) + exp/log algebra for inverses",
}

CLAIMED['C10'] = {
    'text': "Structural clauses only. (D) In the evaluation methods of every density, model, transform and derived-parameter class and in the likelihood kernels (353 functions), every tensor reduction is classified - names an axis, element-wise two-argument max/min, operand free of sample dimensions (shapes, constants, index ranges, one row of a flattened tensor), boolean reduction used only to choose a code path, entry of a frozen table confirmed by reading - and anything else, i.e. a whole-tensor reduction of a value derived from the method's arguments or the object's attributes, is a violation: with batched input it folds all samples into one number, so the value for sample s depends on the other samples. This is a necessary condition of the property, decided for every evaluation method at once; the per-slice behaviour itself is not decided. The few *_batch tests use B=2 with all parameters batched and would not see a reduction that only misbehaves for batched input of one class.",
    'note': "NOT decided: which broadcasts are right when only some parameters are batched, S == K coincidences, the shape-dependent reduction of the joint density, that unsupported shape combinations raise, reductions along a wrong but named axis. An embedded positive example must be flagged on every run (the rule expects zero matches on a correct tree).",
    'technique': "syntax-directed classification of tensor reductions with a def-use batchability analysis of the operand; frozen table for confirmed exceptions",
}

NOT_APPLICABLE = {
}

# ---------------------------------------------------------------------------
# rules added after the first build rounds (sub-agent seeding rounds 5-9): appended to the claim texts
# ---------------------------------------------------------------------------
_Y = ("(Y) Every `cls(...)` / `Class(...)` call in the factories of the property's modules binds its arguments to the constructor parameters they are named for - no value in "
      "another parameter's slot, no unknown keyword, no missing required parameter - for every concrete class that inherits the factory.")
ADDENDA = {
    'C17': {'text': 'Added: (A) every unconditional restoring statement of a load_state_dict lies on every path to a normal exit; (O) a load_state_dict does not overwrite a field of a member that restores itself; (E) the encoders write tensors with their own shape (`.tolist()` of the tensor itself).'},
    'C12': {'text': 'Added: (D) piecewise-constant functions (round / floor / ceil / trunc / sign) applied to values of a density and gradient hooks (register_hook) are graph-cutting constructs too; (S) the Parameter.tensor setter installs a new leaf on every path (no stale .grad carried into the next backward()).'},
    'C01': {'text': '(N, added) The pairing of leaves with their own tip data and the construction of the branch-length vector from the newick string (the C02.N rules) and the weighted-mean-one normalisation of the discretised site rates (the C05.N rules) are also filed under C01: the likelihood evaluated is otherwise that of another tree / other data / rescaled branches. '
                    + "(K, added) In the rescaling kernels the per-site sum of log scalers is inside the product with the pattern weights; the return expression is followed through locals "
                    "introduced between the loop and the return."},
    'C02': {'text': "Added clauses. (M) Data types without a class-level table (GeneralDataType, CodonDataType): with ambiguities off, partial() calls a symbol definite exactly when "
                    "encoding() does - it is computed from self.encoding(...) or tests membership in the table encoding() reads (the test is partially evaluated with the flag False). "
                    "(N) Name-to-index plumbing: Alignment.__init__ sorts sequences by the position of their taxon name; compress keys patterns by taxon name and both compress_alignment* "
                    "emit tips in Taxa order by name; every store of a leaf index in setup_indexes is the position of the taxon label in the namespace; parse_tree reaches setup_indexes "
                    "only through resolve_polytomies (CFG must-pass); UnRootedTreeModel.from_json adds the other root branch to both root children; no memo on the shared SitePattern "
                    "ignores a method argument. (W) In every pruning kernel the pattern weights multiply the whole per-site term (log of the root sum and log scalers).",
            'note': "The numerical invariances themselves remain undecided; the added clauses are necessary conditions (each was broken by a seeded change or by the code as found).",
            'technique': "partial evaluation of a guard; CFG must-pass; dictionary-comprehension / sort-key / loop-lookup role extraction"},
    'C03': {'text': "(P, refined) the log-scaler term is recognised through locals introduced after the loop and must sit inside the weighted sum."},
    'C04': {'text': _Y},
    'C05': {'text': "Added: clamps / element-wise max-min in the invariant model make the value piecewise and both identities must hold on every piece; (C) the constant model reports one "
                    "category with probability 1 and rate mu (1 without mu); every SiteModel class of the package is decided by one of the rules; (G) a site model outside the audited set is decided by a generic abstract evaluation of its "
                    "refresh method over blocks along the category axis (one-element / K-element blocks carrying rational functions, sums linear with one symbol per monomial of "
                    "per-category symbols, optional members enumerated): the weighted mean must be the polynomial 1 (mu); constructs outside the vocabulary are refused (exit 2). " + _Y,
            'technique': "abstract interpretation over block vectors with symbolic linear sums"},
    'C06': {'text': "Added: (R) GeneralNodeHeightTransform._inverse returns the child-over-parent quotient itself (nothing such as a clamp is applied on the way out); (H) the height transforms "
                    "keep torch's identity-keyed (x, y) cache off and a dirty flag shared by several caches of a time-tree model is cleared only where all of them are refreshed; (T) dates "
                    "given as Python numbers are not turned into a default-precision (float32) tensor that is then computed with; (F) every store of a leaf index is the position of the "
                    "taxon label (sampling dates are stored in Taxa order). " + _Y},
    'C07': {'text': "Added: (P) the forward and inverse maps of the transforms do not write into their argument or stored state (indexed stores included); (C) the change handlers of the two classes that report log-Jacobians mark the cached value dirty (C11.H rules), and what they return is the log-determinant of their own transform only (nothing added to it: chains are summed by the caller's Jacobian list). "
                    + _Y},
    'C08': {'text': "Added: (L) the piece of N(t) that applies at a time is found by bucketize / searchsorted over the whole grid or by counting sorted marks, never by arithmetic on one grid "
                    "element; (T) times / intervals read from JSON are not built at torch's default precision and then summed or converted; (H) no coalescent model stores a value it reads "
                    "as a parameter straight into self.__dict__ (it would not be listened to). " + _Y},
    'C09': {'text': 'Added: (B) a birth exactly on an epoch boundary falls on the same side for its epoch index (searchsorted right=...) and for the count of lineages crossing the boundary (< / <=); (I) a tip exactly on boundary k is classified as rho-sampled with rho[k-1] - the index expression is evaluated in an abstract index domain for m = 2..4; (E) event times compared for exact equality with the boundaries are measured from the last grid point itself; (K) every conversion from (R, delta, s) receives the removal probability. '
                    + "Added: (A) no element-wise operation in the birth-death densities combines a value that keeps the trailing axis with one that dropped it; (T) default-precision "
                    "construction as in C08. " + _Y},
    'C10': {'text': "Added clauses, each a necessary condition found broken by a seeded change or by the code as found: (J) the joint density classifies each component's value against that "
                    "component's own sample shape and adds components along the last axis only; (P) in evaluation methods no axis >= 1 counted from the front is used on a value that can "
                    "carry sample dimensions; (A) flow-sensitive event-axis bookkeeping (kept [S,1] / dropped [S] / constant): no element-wise operation mixes kept and dropped values; "
                    "(R) ranks relative to the sample shape (read from `<sample shape> + (...)` expansions and the documented layout of branch-model rates) agree in element-wise "
                    "operations and concatenations; (S) Distribution._sample_shape is folded over 13 abstract shape cases and must return the sample dimensions; (C) a density that is an "
                    "element-wise combination of parameter tensors and tree quantities counts every one of them in _sample_shape.",
            'note': "Still NOT decided: sample-shape coverage of densities that are not element-wise (whether evaluation with only one parameter batched raises or returns a number depends on "
                    "run-time shapes - seeded change c10-agent-2 is of that kind), S == K coincidences, broadcasts inside kernels.",
            'technique': "abstract interpretation in three small domains (event axis kept/dropped, rank relative to the sample shape, abstract shape tuples) + structural role checks on the joint density"},
    'C11': {'text': "Added: (G) in-place indexed writes into a parameter's tensor are done under torch.no_grad() or where the tensor is known not to require grad; (S) a dirty flag that decides "
                    "the refresh of several caches is cleared only where every cache served under it is refreshed; (D) no Parametric class stores a value it reads as a parameter / model "
                    "straight into self.__dict__."},
    'C14': {'text': 'Added: (T) exp is only applied to log-weights whose log-marginal-likelihood component has been removed (coefficient of c zero in the affine domain): normalisation outside log space under- or overflows for large |log Z|; (C) Container._unique_id tests a name against every component (both registries / hasattr), and MultivariateNormal.entropy is the entropy of the distribution log_prob evaluates - delegated with the same keyword dictionary, or a closed form that must equal d/2(1+log 2pi) + 1/2 log det Sigma for each of the three parameterisations (sign of the precision case). '
                    + _Y},
    'C15': {'text': _Y},
    'C16': {'text': _Y},
    'C19': {'text': "Added: (V) no identifier in the builders is built from the leftover loop variable of an earlier loop; (U) in make_unconstrained no branch that frees a parameter precedes "
                    "the both-bounds test unless its own test excludes the bounds (parameters fixed by equal bounds stay fixed), and every build_* function removes constraints over the very "
                    "list it returns; (R) references nested in untyped mappings (transform parameters) are followed, option values rejected by check_arguments are infeasible, and a dangling "
                    "reference is keyed by the option values that decide it."},
    'C20': {'text': "Added: (G) the split positions of the sufficient statistics are computed from the event marks of the very rows being split (not from one sample's marks), and the trailing "
                    "group is dropped wherever the groups are consumed. " + _Y},
}
for _p, _a in ADDENDA.items():
    CLAIMED[_p]['text'] = CLAIMED[_p]['text'].rstrip() + ' ' + _a['text']
    if 'note' in _a:
        CLAIMED[_p]['note'] = CLAIMED[_p]['note'].rstrip() + ' ' + _a['note']
    if 'technique' in _a:
        CLAIMED[_p]['technique'] = CLAIMED[_p]['technique'].rstrip() + '; ' + _a['technique']
    elif _a['text'].endswith(_Y) or _Y in _a['text']:
        CLAIMED[_p]['technique'] = CLAIMED[_p]['technique'].rstrip() + '; call-site binding against resolved constructors'

ADDENDA2 = {
    'C01': "(W, refined) the pattern counter is keyed by the raw columns (Counter(zip(*S)) or an incremental store under the loop variable of zip(*S)): a key computed from the column "
           "by another function merges columns whose symbols differ. (H, added) the tree, clock, site and substitution models the likelihood reads and the likelihood model itself "
           "invalidate their caches and pass the event on (C11.H rules on these classes).",
    'C02': "(N, extended) children of a tree node that are selected one at a time (next(child_node_iter()), constant index into child_nodes()) are all selected in the same function; no "
           "leaf label is parsed as a number and used as a position; the pattern counter is keyed by the raw columns.",
    'C04': "(E, refined) an implementation with several return statements is audited per return.",
    'C05': "(M) the tensors handed out by rates() / probabilities() (methods inferred to return stored state) are never updated in place by a consumer, directly or through a view; (B) no "
           "whole-tensor reduction of a value that can carry a sample dimension in site_model.py; (H) handlers of the site models and of the derived parameter kinds, and the tensor "
           "setters of the parameter classes, pass every change on (C11.H / C11.W rules).",
    'C08': "(B) no whole-tensor reduction of a value that can carry a sample dimension in the coalescent module (C10.D machinery).",
    'C09': "(A, extended) no whole-tensor reduction of a value that can carry a sample dimension in the birth-death modules; (K, extended) the epidemiological conversion receives R, delta, s, r.",
    'C10': "(K) parameters joined by the library itself (CatParameter) are concatenated along the last axis; (H) the substitution / site models mark every cache dirty when a new batch is "
           "assigned (C11.H rules); (D, extended) a whole-batch boolean test of parameter values that selects the formula is reported, overflow tests of computed values and tests of "
           "tip dates are listed as excluded.",
    'C11': "(V) a cache refreshed under a dirty flag is only ever stored with its refresh expression (device moves, constructor placeholders under a raised flag and stores followed on "
           "every path by raising the flag excepted); (W, extended) client code outside core/parameter.py that writes in place into what a parameter's tensor getter returns assigns "
           "through the setter afterwards on every path (fire_parameter_changed on the handle alone does not reach the parameter a view / transformed / concatenated parameter is "
           "derived from); (G, extended) set_grad_enabled(False-valued expression) counts as no_grad.",
    'C13': "(G) the class registry is written at import only; (U) tensor setters, in-place writes in core/parameter.py and the shared dirty flags of the tree models reach every holder.",
    'C15': "(U) one uniform draw has one use (a draw that selects a branch is not reused as the magnitude of the move); (R) proposals through views notify the viewed parameter; (A, refined) "
           "set_adaptable_parameter is followed through one delegation and property getters are inlined when the tuning direction and the getter/setter inverse pair are decided.",
    'C16': "(K) the kinetic energy and the momentum draw have the dimension of the position; the accept step does not select on the outcome.",
    'C18': "Caller mode: a caller of save_parameters that performs file-system operations of its own is analysed as a whole with the writer inlined; the caller's parameter that is handed "
           "to the writer as its path is the checkpoint name, str.replace(const, const) may return the name itself, and the caller's own flags take the values of its call sites.",
    'C19': "Added: (G) sizes that must be rejected (None grid with a model that needs one, cutoff without grid) are rejected under every combination of the other free options; (D) an "
           "object referenced by an option is of a type that has the attributes its reader must read; (O) values passed through side channels (attributes set on the argparse "
           "namespace) are written before they are read on every path; (Z) zero is not treated as missing for numeric options; (J) every transform literal the builders can emit has "
           "an evaluable Jacobian term; (U, extended) tree initial values.",
}
for _p, _t in ADDENDA2.items():
    CLAIMED[_p]['text'] = CLAIMED[_p]['text'].rstrip() + ' ' + _t

ADDENDA3 = {
    'C01': "(K, extended) the log is taken of the site likelihood itself: no clamp / epsilon / maximum between the root sum and the log; (B, extended) a tree model whose branch lengths are a "
           "parameter returns that parameter's tensor unaltered; (T, extended) with ambiguities off (the default) every one-state symbol keeps its indicator vector (C02.M rules).",
    'C02': "(N, extended) with keep_branch_lengths the kept lengths are the newick lengths themselves (a cast at most); nothing read from a fixed position of the sequence list as given "
           "decides what Alignment stores; (W, extended) one scaler per site and node over categories and states (C03.P rules: a per-category scaler makes the value depend on the root).",
    'C03': "(G, extended) in every kernel an underflow surfaces as log(0): no clamp / epsilon between the root sum and the log; (P, extended) the rescaling threshold, folded for float32 and "
           "float64, leaves room for one product of two children at the threshold (threshold^2 is a positive number of the dtype).",
    'C06': "(C) every conversion of sampling dates into tip heights, evaluated by cases on (earliest date is zero, most recent date is zero), follows one convention: the date itself when "
           "the earliest is zero, most recent minus date otherwise - the sibling conversions must agree.",
    'C08': "(O) order-kind analysis of every sorting method: vectors in the order of the argument and vectors in sorted order are never combined (element-wise, mask selection, gather, "
           "scatter), and a batch is never reordered with the permutation of one sample; (G) in the one-tree / batch-of-population-sizes branch the fixed heights are expanded to the batch "
           "shape (torch.gather does not broadcast its index).",
    'C10': "(R, extended) ranks of parameter tensors and of names the function uses as matrices; a vector batch matrix-multiplied with a matrix batch; (A, extended) a torch distribution built "
           "from tensors and evaluated at a value is an element-wise combination of all of them; (P, extended) transpose / movedim exchanging an axis counted from the front with one counted "
           "from the end.",
    'C11': "(K) a callable model whose _call computes with an argument of the call does not inherit the argument-blind cache of CallableModel.__call__; (M, refined) a guard that compares only "
           "the shape / dtype of an argument is not a key.",
    'C14': "(T, extended) module-level helpers are evaluated in place; a test of the size of a trailing sample axis is evaluated again under K = 1 / S = 1 and an operand pair whose axes then "
           "broadcast across draws is reported.",
    'C16': "(K, extended) covariance of the momentum draw given as covariance M, scale_tril cholesky(M) or precision inverse(M); einsum quadratic forms are read; forms outside the vocabulary are "
           "undecided, not violations; nothing computed from the mass matrix is kept under a key that ignores its value; the Hamiltonian is evaluated for the momentum it is given.",
    'C20': "(O) order-kind analysis (sa/orders.py) of the integrated coalescent and the sufficient-statistics methods.",
}
for _p, _t in ADDENDA3.items():
    CLAIMED[_p]['text'] = CLAIMED[_p]['text'].rstrip() + ' ' + _t

ADDENDA4 = {
    'C04': "(L, extended) the names that stand for the parameters in the literal matrices are the parameters themselves (views or a common rescaling; no clamp / floor / epsilon); "
           "(N, extended) every norm a model resolves to is decided, other forms by evaluation on a symbolic 3x3 generator with zero row sums (no reversibility assumed); (X) a position "
           "obtained by enumerating a filtered list is never used on the table it was filtered from; (E, extended) no eigen system kept once per class.",
    'C07': "(S) log_abs_det_jacobian reads nothing that _call / _inverse left on the transform; (C, extended) C11.M memo rules on the parameter and transform modules.",
    'C09': "(S) no from_json changes class-level state; (K, extended) every density constructed in BDSKModel._call receives, or is guarded by a test of, each option the main construction "
           "receives; (E, extended) a tolerant comparison (isclose) between event times and epoch boundaries is reported.",
    'C11': "(M, extended) a value derived from the tensor of a held parameter and kept under a guard that compares only shape / dtype / device / identity, unless a change handler drops it; "
           "stores on the class itself; (W, extended) nobody writes the private storage (_tensor, flags) of another object.",
    'C12': "(N, extended) a float mask built from an equality test on a differentiable value and used in arithmetic; (D, extended) a tensor handed to torch.linspace / arange / full as a "
           "scalar argument; (H) C11.H handler rules on the models of differentiable paths.",
    'C13': "(S) no factory classmethod changes class-level state; (F, extended) keys the reader dereferences together are written together by the factory (dynamic writers undecided); "
           "(M, extended) the objects of a plate keep the order of its range; (U, extended) CallableModel forwards every event on every path (CFG), handler and memo rules on core classes.",
    'C14': "(S, extended) draws reach the model: setters of the parameter kinds notify, no foreign private stores, no memo keyed by less than the values in distributions / variational; "
           "(C, extended) joint shapes (C10.D / P / J on the joint) and the covariance of the torch multivariate normal per parameterisation, decided in a word algebra with Cholesky "
           "factors, inverses and transposes.",
    'C17': "(P, extended) every path from a checkpoint to the end of the run passes through the increment of the iteration counter; (R, extended) an attribute rebuilt by the reader with the "
           "constructor keeps the configuration keywords of its construction; (E, extended) tensors rebuilt from saved numbers are given their dtype.",
    'C19': "(U, extended) no bound of a parameter is placed under an ordering comparison of data-derived values; (I) a list-valued 'tensor' is never left next to a 'full' size; (S) initial "
           "values of parameters a density divides by are never exactly zero under any option combination (divisors inferred from the densities); (L) kind inference: a value that can "
           "be a list is never compared with a string.",
}
for _p, _t in ADDENDA4.items():
    CLAIMED[_p]['text'] = CLAIMED[_p]['text'].rstrip() + ' ' + _t

ADDENDA5 = {
    'C03': "(P, extended) the scaler list is fresh for every call (no mutable default argument that is written); no whole-tensor reduction decides for all sites and samples whether a node is "
           "rescaled (C10.D machinery on tree_likelihood.py); (G, extended) the literal default a from_json uses for an option equals the default of the constructor parameter it feeds.",
    'C05': "(H, extended) the MCMC operators that move shape / invariant / mu tell the listeners (C11.W rules, including Parameter.copy_ through loop variables over self.parameters).",
    'C06': "(S, extended) the inverse of the difference transform distinguishes the regimes (hard / smooth maximum) its constructor chooses for the forward map; (F, extended) no zip of a "
           "sorted key list of a dictionary with that dictionary's values(); (H, refined) stores made by methods called inside a flag-guarded block count as refreshed there.",
    'C08': "(M) C11.M memo-key rules on coalescent.py (dependencies followed through self.method() into the subclasses' implementations) and no instance method writes a container created in "
           "the class body.",
    'C11': "(H, extended) Parametric.register_parameter / register_model add the listener on every path; (M, extended) plain `if self.C is None` memos over parameter tensors, dependencies "
           "through self.method(), containers created in a class body and written by instance methods (package-wide); (S, refined) as C06.H; (W, extended) Parameter.copy_ on loop variables.",
    'C13': "(F, extended) JSON option defaults equal constructor defaults (package-wide, 17 options).",
    'C15': "(Q, extended) no proposal is redrawn inside a while loop until it passes a test (state-dependent truncation without its normaliser); the GMRF block update reads the current "
           "precision matrix before it stores the proposal (C20.H); (R, extended) loggers keep no view of a live tensor across calls.",
    'C18': "(W, extended) the checkpoint path is handed to the atomic writer only (not to a Dumper or another component that writes it its own way); the writer is called, never handed to a "
           "thread / executor as a callable (the protocol is decided for one writer at a time).",
    'C20': "(H) the block-update operator reads precision_matrix() of the current state before `gmrf.precision.tensor = proposal` and of the proposed state after it (CFG dominance).",
}
for _p, _t in ADDENDA5.items():
    CLAIMED[_p]['text'] = CLAIMED[_p]['text'].rstrip() + ' ' + _t

# round 15 (and the tail of round 14)
ADDENDA6 = {
    'C01': "(N, extended) the conversion of sampling dates into tip heights follows one convention in the four sign cases (C06.C table, list and tensor forms); the C02.N written-down rules "
           "(slices resolved by Python, the tree indexed is the tree written, branches are the nodes with a parent); compress / assembly rules of C01.W / C01.B.",
    'C02': "(N, extended) column selections are resolved by Python's own slice semantics (no slice rebuilt from slice.indices(), no slice bound handed to range() as written); nothing between "
           "the newick parser and setup_indexes rotates, re-roots or prunes the tree; the nodes that carry a branch are selected by topology (parent), never by whether a length was written; "
           "distinct columns kept with their full count and per-node branch vector = lengths + one zero (C01.W / C01.B rules).",
    'C06': "(C, extended) tensor forms of the date conversion (`dates.max() - dates`, `torch.any(dates == 0)` = SOME date is zero, which differs from `min == 0` when the most recent date is "
           "zero); (T, extended) a work array written in place carries the dtype of what is stored.",
    'C08': "(P, extended) marks combined with per-interval quantities are the marks that END the intervals (`[..., 1:]`); (T, extended) work arrays written in place carry a dtype; "
           "(B, extended) no value that may differ between samples is folded to the row of the first sample.",
    'C09': "(T, extended) the extinction-probability array of the skyline recursion (written in place) is allocated with the dtype of the rates; (A, extended) epochs are looked up in each "
           "sample's own grid (no `reshape(-1, n)[0]` of a value that may be batched); (H) C11.H handler and C11.M memo rules on the birth-death modules.",
    'C10': "(R, extended) ranks RELATIVE to an unknown base through `x[..., i]` (drops the axis) and `x[..., a:b]` (keeps it), scalars neutral, augmented assignments, sort / gather / cat; "
           "(J, extended) the per-component terms of the joint are never broadcast against each other (right alignment), return decided structurally (cat of the accumulator along −1, sum "
           "over −1); (P, extended) `x.unsqueeze(0)` of an attribute under a rank test of ANOTHER value (dead code skipped by CFG reachability); rows of the first sample.",
    'C12': "(D, extended) operations torch has no derivative for (weighted bincount, histograms) on values computed from parameters; (X) transforms keep torch's identity-keyed cache off.",
    'C16': "(K, extended) one trajectory per proposal: nothing reachable from HMCOperator._step (self-method calls and hmc-package functions) runs the integrator besides the call bracketed "
           "by K0 and K1 (the step-size search belongs to the constructor).",
    'C17': "(A, extended) template methods call the abstract hook (`self._load_state_dict` / `self._state_dict`) on every path; (E, extended) TensorDecoder rebuilds a tensor with the dtype "
           "its record carries (backward slice of the dtype handed to torch.tensor: reads the record, no session default / fixed precision on the recorded path).",
    'C19': "(J, extended) edits of the Jacobian list lie on every path under the (clock, heights, coalescent) values that require them — no other option gates them; no collected Jacobian is "
           "stacked on the output of a transform create_jacobians leaves out; (L, extended) the Python kinds an argparse converter can return are covered by the isinstance tests of its "
           "consumers; (O, extended) of two builders that lazily define a shared object (`if not hasattr(arg, '_data_type')`), the one called first is emitted first.",
}
for _p, _t in ADDENDA6.items():
    CLAIMED[_p]['text'] = CLAIMED[_p]['text'].rstrip() + ' ' + _t

# rounds 16 and 17
ADDENDA7 = {
    'C04': "(L, extended) batched matrices keep their samples apart: C10.P rules on the substitution-model modules (axes from the end, no new first axis on a parameter in the branch chosen "
           "by the rank of another one, no row of the first sample); (E, extended) matrix_exp receives Q with two axes inserted in front of its matrix axes and t with two appended.",
    'C05': "(H, extended) the dirty flag of a site model goes down only after an unconditional refresh and after it (C11.S); no property setter meant for a parameter on a Parametric "
           "class (Parametric.__setattr__ intercepts the assignment).",
    'C06': "(H, extended) the concatenation / view / transformed parameter kinds forward every event and their setters notify (C11.H / C11.W); (F, extended) no child of a node is looked "
           "at alone (C02.N child symmetry); (S, extended) a transform rebuilt after construction (cuda / cpu) receives the arguments the constructor gave it; the reduction over the "
           "children is chosen by the k regime only; (Y, extended) the value read from JSON key K reaches the constructor parameter K.",
    'C07': "(C, extended) every parameter kind of core/parameter.py forwards events, notifies from its setters and follows in-place writes by the notification of the parameter written "
           "into; (I, extended) an inverse of the log-difference rate transform reads y by position in the pre-order table; the shift transform's reduction is chosen by the regime only.",
    'C08': "(M, extended) nothing taken from `<parameter>.tensor` at construction (also through a helper) is used at evaluation; (T, extended) no event time is rounded / truncated; "
           "constructor numbers do not become default-precision tensors that other methods compute with.",
    'C11': "(S, extended) a flag-guarded refresh clears its flag last and refreshes unconditionally before it; (H, extended) no unreachable parameter setter on Parametric classes; "
           "(W, refined) the client clause applies to attributes the constructor declares as AbstractParameter.",
    'C13': "(W, extended) `X.from_json[_safe](spec, shared registry)` is called by process_object*, from_json_safe and from_json methods only; (F, extended) an inherited json_factory "
           "writes the type of the class it is called on; (M, extended) after a caught JSONParseError main() neither constructs nor runs anything; (U, extended) MCMC operators restore "
           "through the notifying setter.",
    'C14': "(T, extended) the analytic-entropy ELBO adds the TOTAL entropy; (C, extended) Distribution.entropy is not replicated to the width of x; (S, extended) draws are stored through "
           "the setter of x; (J, extended) the element-wise transforms report Σ log|g'| of their forward chain (C07.L).",
    'C15': "(L, extended) a move is accepted only by the uniform draw (or under `log_alpha >= 0`).",
    'C18': "(I1 / I2 / X, extended) a package function that is handed one of the protocol's paths is part of the protocol: its body is inlined (depth ≤ 3); os.chmod modelled.",
    'C20': "(S, extended) hyper-parameters given as numbers are not turned into default-precision tensors that the density computes with; event count and field dimension decided as "
           "linear integer forms (floor exact for the odd number of nodes); the clone comparison looks at the slice of diff_square only.",
}
for _p, _t in ADDENDA7.items():
    CLAIMED[_p]['text'] = CLAIMED[_p]['text'].rstrip() + ' ' + _t

# round 18
ADDENDA8 = {
    'C01': "(K, extended) the C03 rules as a whole (every evaluation path tests the plain result for underflow and recomputes it rescaled); (H, extended) no model the likelihood reads serves "
           "a value or view taken from a parameter's tensor at construction; (N, extended) sequence symbols are kept as read, newick read as a rooted tree, one-element slices.",
    'C02': "(N, extended) `slice(i, i + 1)` built from an index that may be −1; every newick read passes rooting='force-rooted' (keyword tables followed through a local dict); the "
           "sequence readers strip white space only; (W, extended) no pruning kernel changes the traversal list it is handed (it is the tree model's own).",
    'C09': "(K, extended) the WHOLE parameter tensor reaches the density under its keyword (no `self.rho.tensor[..., -1:]`); (I, extended) every per-tip term of the block that classifies "
           "the tips carries the rho / psi classification; (F, extended) the constant and the skyline model declare the same domain for shared parameters.",
    'C10': "(R, extended) the pruning kernels are handed the same frequencies / weights expressions at every call site (sibling rule); (P, extended) hstack / vstack / dstack / "
           "column_stack of values with sample dimensions.",
    'C12': "(D, extended) a formula chosen by testing a computed value for equality with a constant; property setters are scanned, a `no_grad` write in a setter is accepted only "
           "under a `requires_grad` test; `eigh` of `tril` / `triu`.",
    'C16': "(K, extended) every redefinition of the momentum between its draw and the integrator call (mixing with a kept momentum, rescaling) must be followed by the K0 evaluation.",
    'C17': "(E, extended) update_parameters keeps from the specification, or copies from the checkpoint, the `dtype` and the `nn` flag of a parameter whose saved value it substitutes.",
}
for _p, _t in ADDENDA8.items():
    CLAIMED[_p]['text'] = CLAIMED[_p]['text'].rstrip() + ' ' + _t

# round 19
ADDENDA9 = {
    'C04': "(N, extended) whatever a method hands to eigen() went through the division by the norm — in every method that (re)builds the decomposition; (E, extended) the branch "
           "lengths reach the exponential unaltered (no clamp / abs / floor in a p_t); (B, extended) MG94 selects each of kappa / alpha / beta against the neutral factor one.",
    'C05': "(H, extended) the caches a site model converts (to / cuda / cpu) keep their flag (C11.V), the optimiser notifies after every in-place step before anything is evaluated "
           "(C11.O), the transforms behind shape / pinv / mu keep torch's identity-keyed cache off (C11.X); (Y, extended) no list unpacked into several optional constructor parameters.",
    'C06': "(H, extended) the time-tree models mark their caches outdated on every event (C11.H) and the reparameterised model recomputes the heights from the current parameter before "
           "it hands anything out (C07.C caller rule).",
    'C07': "(L, extended) one log-determinant per sample: no reduction over the whole tensor in the transform modules (C10.D).",
    'C13': "(P, extended) a range reference looks every member of the range up in the registry; (U, extended) what a factory (or a helper that resolves references) obtains from "
           "process_object is handed on as the object — its `.tensor` is read for the layout only or written back through its own setter; a Container registers every listed object "
           "and hands out every registered callable.",
    'C14': "(C, extended) Container keeps every component; Distribution._sample_shape decided on matrix-valued blocks as well (C10.S, two more abstract cases); an analytic entropy of "
           "the inverse gamma, if provided, is α + log β + lnΓ(α) − (1 + α)ψ(α) (polynomial identity).",
    'C18': "(W, extended) a method that calls the atomic writer writes no run state to another file by its own means (torch.save, pickle, numpy, open for writing).",
    'C20': "(H, extended) the block-update operator restores / proposes through the notifying setter (C11.W on the MCMC operators).",
    'C10': "(S, extended) matrix-valued blocks (two event dimensions) in the abstract shape cases of Distribution._sample_shape.",
}
for _p, _t in ADDENDA9.items():
    CLAIMED[_p]['text'] = CLAIMED[_p]['text'].rstrip() + ' ' + _t

# after round 19
ADDENDA10 = {
    'C16': "(P, extended) every in-place update of the momentum in the integrator is dominated by an out-of-place arithmetic update or a conversion (an in-place kick keeps the "
           "precision of the mass matrix whatever the precision of the gradients).",
    'C10': "(P, extended) a tensor of constant size (`x.new_ones(1)`, `torch.zeros(1)`) is not concatenated with a value that can carry sample dimensions.",
    'C07': "(L, extended) C10.P axis rules on the transform modules (axes from the end, pieces without sample dimensions).",
}
for _p, _t in ADDENDA10.items():
    CLAIMED[_p]['text'] = CLAIMED[_p]['text'].rstrip() + ' ' + _t

# round 20
ADDENDA11 = {
    'C08': "(T, extended) no floor / ceiling on quantities computed from the event times, no in-place tensor method on a local that is read again, no log of a product of population "
           "sizes; (M, extended) the time-tree models mark their heights outdated on every event (C11.H).",
    'C11': "(H, extended) no change handler raises; (V, extended) the caller rule of C07.C; (M, extended) no constructor snapshot of a parameter value in the evolution models (C09.P).",
    'C15': "(L, extended) every definition of the proposed state's density inside the loop is an evaluation of the target (self.joint); (Q, extended) the HMC adaptors write the "
           "metric through the notifying setter (C11.W on the hmc package).",
}
for _p, _t in ADDENDA11.items():
    CLAIMED[_p]['text'] = CLAIMED[_p]['text'].rstrip() + ' ' + _t

ADDENDA12 = {
    'C19': "(U, extended) the helper objects a builder loads from one specification variable in several branches (to read initial values) are loaded with the same overrides.",
}
for _p, _t in ADDENDA12.items():
    CLAIMED[_p]['text'] = CLAIMED[_p]['text'].rstrip() + ' ' + _t

ADDENDA13 = {
    'C19': "(U, extended) every call site of a builder that takes a requested initial value as an optional parameter named like the option passes it (known finding: the --poisson "
           "path calls create_branch_model() without rate_init).",
}
for _p, _t in ADDENDA13.items():
    CLAIMED[_p]['text'] = CLAIMED[_p]['text'].rstrip() + ' ' + _t

ADDENDA14 = {
    'C02': "(N, extended) every store to sampling_times is None, a move of itself, or filled by iterating over the taxa (taxon-index order), never over the tree's leaves or a traversal.",
    'C01': "(W, extended) tip states are encoding(symbol) clamped at state_count, the index of the all-ones column of the tip-state kernels (C02.M clamp rule).",
    'C03': "(G, extended) the matrices, frequencies and tip data handed to both the plain and the rescaling kernel are those of this tree: p_t(branch quantity x site rate), "
           "unaltered (the C01.B assembly rules), and no p_t floors / clamps its time argument (C04.E clause).",
    'C10': "(A, extended) a name bound to a Python number on one branch and to a tensor on the other has the tensor's layout; in the else of isinstance(self.a, ...Parameter) "
           "the attribute is a number.",
}
for _p, _t in ADDENDA14.items():
    CLAIMED[_p]['text'] = CLAIMED[_p]['text'].rstrip() + ' ' + _t
