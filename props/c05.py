"""C05 — among-site rate models keep the mean substitution rate at one."""
from __future__ import annotations

import ast
import copy
from typing import Dict, List, Optional

from sa.loader import AnalysisError, Unsupported, dotted_name, norm_text
from sa.members import self_attr
from sa.poly import Rat, ToRat
from sa.report import where
from sa.util import local_assignments

MOD = 'torchtree.evolution.site_model'


def method_name(call: ast.Call) -> str:
    return (dotted_name(call.func) or (call.func.attr if isinstance(call.func, ast.Attribute) else '')).split('.')[-1]


def cat_parts(e) -> Optional[List[ast.AST]]:
    if isinstance(e, ast.Call) and method_name(e) == 'cat' and e.args and isinstance(e.args[0], (ast.Tuple, ast.List)):
        ax = e.args[1] if len(e.args) > 1 else next((kw.value for kw in e.keywords if kw.arg == 'dim'), None)
        if ax is not None and ast.unparse(ax) == '-1':
            return list(e.args[0].elts)
    return None


def strip_expand(e):
    while isinstance(e, ast.Call) and isinstance(e.func, ast.Attribute) and e.func.attr in ('expand', 'repeat', 'clone'):
        e = e.func.value
    return e


def scales_rates(s2) -> bool:
    """`self._rates *= X` or `self._rates = self._rates * X` / `X * self._rates`"""
    if isinstance(s2, ast.AugAssign) and self_attr(s2.target) == '_rates' and isinstance(s2.op, ast.Mult):
        return True
    if isinstance(s2, ast.Assign) and len(s2.targets) == 1 and self_attr(s2.targets[0]) == '_rates' and isinstance(s2.value, ast.BinOp) and isinstance(s2.value.op, ast.Mult):
        return self_attr(s2.value.left) == '_rates' or self_attr(s2.value.right) == '_rates'
    return False


def check_invariant(ctx, rep):
    cls = ctx.classes.get(f"{MOD}.InvariantSiteModel")
    fn = cls.resolve('update_rates_probs')[1]
    W = where(cls.module, fn)
    p = fn.args.args[1].arg
    probs = rates = None
    mu_after = False
    order = []
    for st in fn.body:
        if isinstance(st, ast.Assign) and self_attr(st.targets[0]) == '_probabilities':
            probs = cat_parts(st.value)
            order.append('probs')
        elif isinstance(st, ast.Assign) and self_attr(st.targets[0]) == '_rates':
            rates = cat_parts(st.value)
            order.append('rates')
        elif isinstance(st, ast.If):
            for s2 in st.body:
                if scales_rates(s2) and any(self_attr(x) == '_mu' for x in ast.walk(s2.value)):
                    mu_after = 'rates' in order
    if probs is None or rates is None or len(probs) != 2 or len(rates) != 2:
        raise Unsupported(fn, 'cat((…), -1) definitions of probabilities and rates not found')

    defs = local_assignments(fn)

    def inline(e, depth=0):
        """local names with one definition are replaced by their definition"""
        if depth > 6:
            return e

        class T(ast.NodeTransformer):
            def visit_Name(self, n):
                if isinstance(n.ctx, ast.Load) and n.id != p and len(defs.get(n.id, [])) == 1:
                    return inline(copy.deepcopy(defs[n.id][0]), depth + 1)
                return n
        return T().visit(copy.deepcopy(e))
    probs = [inline(x) for x in probs]
    rates = [inline(x) for x in rates]
    # clamps / element-wise max-min make the value piecewise: the identities must hold on every piece
    clamps = []
    for x in probs + rates:
        for c in ast.walk(x):
            if isinstance(c, ast.Call) and method_name(c) in ('clamp', 'clamp_min', 'clamp_max', 'clip', 'maximum', 'minimum'):
                clamps.append(c)
    if len(clamps) > 4:
        rep.undecided('C05.I', 'InvariantSiteModel.update_rates_probs', W, f"{len(clamps)} clamps")
        return

    def pieces(c):
        torch_fn = isinstance(c.func, ast.Attribute) and isinstance(c.func.value, ast.Name) and c.func.value.id == 'torch'
        alts = [c.args[0]] if torch_fn else [c.func.value]
        alts += list(c.args[1:] if torch_fn else c.args) + [k.value for k in c.keywords if k.arg in ('min', 'max', 'other')]
        return [a for a in alts if not (isinstance(a, ast.Constant) and a.value is None)]
    import itertools
    verdicts = []
    for choice in itertools.product(*[range(len(pieces(c))) for c in clamps]):
        pick = {id(c): pieces(c)[i] for c, i in zip(clamps, choice)}

        def atom(e):
            if isinstance(e, ast.Call) and id(e) in pick:
                return tr(pick[id(e)])
            if isinstance(e, ast.Name) and e.id == p:
                return Rat.sym('p')
            if isinstance(e, ast.Call) and method_name(e) in ('zeros_like', 'zeros'):
                return Rat.const(0)
            if isinstance(e, ast.Call) and method_name(e) in ('ones_like', 'ones'):
                return Rat.const(1)
            return None
        tr = ToRat(atom)
        try:
            P = [tr(x) for x in probs]
            R = [tr(x) for x in rates]
        except Unsupported as u:
            rep.undecided('C05.I', 'InvariantSiteModel.update_rates_probs', W, str(u))
            return
        verdicts.append((choice, P, R))
    for choice, P, R in verdicts[1:]:
        mean = P[0] * R[0] + P[1] * R[1]
        what = ', '.join(f"`{norm_text(c)[:50]}` takes the value `{norm_text(pieces(c)[i])[:30]}`" for c, i in zip(clamps, choice))
        rep.check('C05.I', f"InvariantSiteModel::mean-rate-is-one::piece{''.join(map(str, choice))}", mean.equals(1) and (P[0] + P[1]).equals(1), W,
                  {'piece': what, 'mean_rate': repr(mean)},
                  f"where {what}, Σ prob_k·rate_k = {mean!r}, not 1: on that part of the parameter range the model changes the expected number of substitutions")
    choice, P, R = verdicts[0]
    mean = P[0] * R[0] + P[1] * R[1]
    facts = {'probabilities': [repr(x) for x in P], 'rates': [repr(x) for x in R], 'mean_rate': repr(mean)}
    rep.check('C05.I', 'InvariantSiteModel::mean-rate-is-one', mean.equals(1), W, facts,
              f"Σ prob_k·rate_k = {mean!r}, not 1: the invariant model changes the expected number of substitutions per unit branch length")
    rep.check('C05.I', 'InvariantSiteModel::probabilities-sum-to-one', (P[0] + P[1]).equals(1), W, facts, "category probabilities do not sum to one")
    zero_pos = [i for i, x in enumerate(R) if x.is_zero()]
    exact_zero = [i for i, x in enumerate(rates) if isinstance(x, ast.Call) and method_name(x) in ('zeros_like', 'zeros')]
    inv_pos = [i for i, x in enumerate(P) if x.equals(Rat.sym('p'))]
    rep.check('C05.I', 'InvariantSiteModel::invariant-category-has-rate-zero-and-probability-p', zero_pos == inv_pos and len(zero_pos) == 1 and exact_zero == zero_pos, W,
              {**facts, 'zero_rate_position': zero_pos, 'invariant_probability_position': inv_pos},
              "the category with rate exactly zero must be the one whose probability is the invariant proportion")
    rep.check('C05.I', 'InvariantSiteModel::relative-rate-applied-after', mu_after, W, None, "the relative rate mu must multiply the rates after they have been defined")


def check_discretized(ctx, rep):
    cls = ctx.classes.get(f"{MOD}.UnivariateDiscretizedSiteModel")
    fn = cls.resolve('update_rates')[1]
    W = where(cls.module, fn)
    # (i) normalisation shape  _rates = X / (X * P).sum(-1, keepdim=True), P the attribute probabilities() returns
    pfn = cls.resolve('probabilities')[1]
    prets = [n.value for n in ast.walk(pfn) if isinstance(n, ast.Return)]
    pattr = self_attr(prets[0]) if len(prets) == 1 else None
    norm = [st for st in fn.body if isinstance(st, ast.Assign) and self_attr(st.targets[0]) == '_rates']
    ok = False
    facts = {'probabilities_attribute': pattr}
    if len(norm) == 1 and isinstance(norm[0].value, ast.BinOp) and isinstance(norm[0].value.op, ast.Div):
        num, den = norm[0].value.left, norm[0].value.right
        if isinstance(den, ast.Call) and method_name(den) == 'sum' and isinstance(den.func, ast.Attribute):
            inner = den.func.value
            keep = any(kw.arg == 'keepdim' and isinstance(kw.value, ast.Constant) and kw.value.value is True for kw in den.keywords)
            axis = den.args and ast.unparse(den.args[0]) == '-1'
            if isinstance(inner, ast.BinOp) and isinstance(inner.op, ast.Mult):
                sides = [inner.left, inner.right]
                same_x = any(ast.unparse(s) == ast.unparse(num) for s in sides)
                has_p = any(self_attr(s) == pattr for s in sides)
                ok = same_x and has_p and keep and bool(axis)
                facts.update({'numerator': ast.unparse(num), 'denominator': ast.unparse(den)})
    rep.check('C05.N', 'UnivariateDiscretizedSiteModel.update_rates::normalised-by-weighted-mean', ok, W, facts,
              "rates must be stored as X / Σ_k(X_k·P_k) with P the very probabilities the model reports: that shape makes Σ P_k·rate_k = 1 an identity")
    # order: in the invariant branch the probabilities are defined before the normalisation
    inv_if = [st for st in fn.body if isinstance(st, ast.If) and any(isinstance(x, ast.Name) and x.id == 'invariant' for x in ast.walk(st.test))]
    ok_order = False
    if inv_if and norm:
        ok_order = fn.body.index(inv_if[0]) < fn.body.index(norm[0]) and any(
            isinstance(st, ast.Assign) and self_attr(st.targets[0]) == pattr for st in inv_if[0].body)
    rep.check('C05.N', 'UnivariateDiscretizedSiteModel.update_rates::probabilities-defined-before-normalisation', ok_order, W, None,
              "with an invariant category the probabilities must be re-defined before they are used to normalise the rates")
    mu_after = any(isinstance(st, ast.If) and any(scales_rates(s2) for s2 in st.body)
                   and norm and fn.body.index(st) > fn.body.index(norm[0]) for st in fn.body)
    rep.check('C05.N', 'UnivariateDiscretizedSiteModel.update_rates::relative-rate-applied-after', mu_after, W, None, "mu must multiply the rates after the normalisation")
    if not inv_if:
        return
    br = inv_if[0]
    # (iii) probabilities with invariant: cat((invariant, ((1 - invariant)/cat).expand(...)), -1)
    cat_name = None
    for st in br.body:
        if isinstance(st, ast.Assign) and isinstance(st.targets[0], ast.Name) and isinstance(st.value, ast.BinOp) and isinstance(st.value.op, ast.Sub) \
                and self_attr(st.value.left) == '_categories':
            cat_name = st.targets[0].id
    pa = [st for st in br.body if isinstance(st, ast.Assign) and self_attr(st.targets[0]) == pattr]
    ok = False
    facts = {'category_count_variable': cat_name}
    if cat_name and len(pa) == 1:
        parts = cat_parts(pa[0].value)
        if parts and len(parts) == 2:
            def atom(e):
                if isinstance(e, ast.Name) and e.id == 'invariant':
                    return Rat.sym('p')
                if isinstance(e, ast.Name) and e.id == cat_name:
                    return Rat.sym('K')
                return None
            try:
                a = ToRat(atom)(strip_expand(parts[0]))
                b = ToRat(atom)(strip_expand(parts[1]))
                exp = parts[1]
                expanded_to_K = isinstance(exp, ast.Call) and method_name(exp) == 'expand' and any(isinstance(x, ast.Name) and x.id == cat_name for x in ast.walk(exp.args[0]))
                total = a + Rat.sym('K') * b
                ok = a.equals(Rat.sym('p')) and total.equals(1) and expanded_to_K
                facts.update({'invariant_block': repr(a), 'other_block_each': repr(b), 'sum': repr(total)})
            except Unsupported:
                ok = False
    rep.check('C05.N', 'UnivariateDiscretizedSiteModel.update_rates::probabilities-with-invariant-sum-to-one', ok, W, facts,
              "with an invariant proportion p the probabilities must be (p, (1−p)/K × K): first block p, K equal blocks summing to 1−p")
    # (iv) mid-point quantiles (2i+1)/(2K) with the branch's own K
    def quantile_ok(stmts, kexpr_text):
        for st in stmts:
            if isinstance(st, ast.Assign) and isinstance(st.targets[0], ast.Name) and isinstance(st.value, ast.BinOp) and isinstance(st.value.op, ast.Div):
                numer, denom = st.value.left, st.value.right
                ar = [c for c in ast.walk(numer) if isinstance(c, ast.Call) and method_name(c) == 'arange']
                if not ar:
                    continue

                def atom(e):
                    if isinstance(e, ast.Call) and method_name(e) == 'arange':
                        return Rat.sym('i')
                    if ast.unparse(e) == kexpr_text:
                        return Rat.sym('K')
                    return None
                try:
                    q = ToRat(atom)(st.value)
                except Unsupported:
                    return False, None
                size_ok = ar[0].args and ast.unparse(ar[0].args[0]) == kexpr_text
                return q.equals((2 * Rat.sym('i') + 1) / (2 * Rat.sym('K'))) and bool(size_ok), repr(q)
        return False, None
    ok1, q1 = quantile_ok(br.body, cat_name or '?')
    ok2, q2 = quantile_ok(br.orelse, 'self._categories')
    rep.check('C05.N', 'UnivariateDiscretizedSiteModel.update_rates::midpoint-quantiles-invariant-branch', ok1, W, {'quantile': q1},
              "with an invariant category the K = categories−1 quantiles must be (2i+1)/(2K), i = 0..K−1")
    rep.check('C05.N', 'UnivariateDiscretizedSiteModel.update_rates::midpoint-quantiles-plain-branch', ok2, W, {'quantile': q2},
              "the K quantiles must be (2i+1)/(2K), i = 0..K−1")
    # default probabilities 1/K × K
    init = cls.methods.get('__init__')
    ok = False
    for st in ast.walk(init):
        if isinstance(st, ast.Assign) and self_attr(st.targets[0]) == pattr and isinstance(st.value, ast.Call) and method_name(st.value) == 'full':
            size, val = st.value.args[0], st.value.args[1]
            ok = isinstance(size, ast.Tuple) and len(size.elts) == 1 and isinstance(val, ast.BinOp) and isinstance(val.op, ast.Div) \
                and ast.unparse(val.right) == ast.unparse(size.elts[0]) and ast.unparse(val.left) in ('1.0', '1')
    rep.check('C05.N', 'UnivariateDiscretizedSiteModel.__init__::uniform-probabilities', ok, where(cls.module, init), None,
              "without an invariant category the probabilities must be K copies of 1/K")
    # (iii') Weibull inverse_cdf: zero block at the position of the invariant probability
    w = ctx.classes.get(f"{MOD}.WeibullSiteModel")
    icdf = w.resolve('inverse_cdf')[1]
    rets = [n for n in ast.walk(icdf) if isinstance(n, ast.Return)]
    with_inv = [r for r in rets if cat_parts(r.value)]
    ok = False
    if len(with_inv) == 1:
        parts = cat_parts(with_inv[0].value)
        zero_first = isinstance(parts[0], ast.Call) and method_name(parts[0]) in ('zeros_like', 'zeros')
        inv_first = len(pa) == 1 and cat_parts(pa[0].value) and ast.unparse(cat_parts(pa[0].value)[0]) == 'invariant'
        ok = zero_first and bool(inv_first) and len(parts) == 2
    rep.check('C05.N', 'WeibullSiteModel.inverse_cdf::zero-rate-block-aligned-with-invariant-probability', ok, where(w.module, icdf), None,
              "the exactly-zero rate block must sit at the same position (first) as the invariant proportion in the probabilities")
    # Weibull quantile function (−log(1−q))^(1/shape) in both branches
    forms = []
    for n in ast.walk(icdf):
        if isinstance(n, ast.Call) and method_name(n) == 'pow' and len(n.args) == 2:
            forms.append(ast.unparse(n).replace(' ', ''))
    ok = len(forms) == 2 and forms[0] == forms[1] and forms[0] in ('torch.pow(-torch.log(1.0-quantile),1.0/parameter)',)
    rep.check('C05.N', 'WeibullSiteModel.inverse_cdf::quantile-function', ok, where(w.module, icdf), {'forms': forms},
              "Weibull(scale 1) quantile function must be (−log(1−q))^(1/shape) in both branches")


def is_fresh(e, fn, depth=0) -> bool:
    """the expression builds a new tensor (call or arithmetic), it is not another name for stored state"""
    if isinstance(e, (ast.Call, ast.BinOp, ast.UnaryOp, ast.Constant, ast.IfExp)):
        if isinstance(e, ast.IfExp):
            return is_fresh(e.body, fn, depth) and is_fresh(e.orelse, fn, depth)
        if isinstance(e, ast.Call) and isinstance(e.func, ast.Attribute) and e.func.attr in ('expand', 'view', 'reshape', 'squeeze', 'unsqueeze', 'detach', 'expand_as', 't', 'transpose'):
            return is_fresh(e.func.value, fn, depth)
        return True
    if isinstance(e, ast.Name) and depth < 4:
        for a in fn.args.args + fn.args.kwonlyargs:
            if a.arg == e.id:
                return a.annotation is not None and ast.unparse(a.annotation) in ('int', 'float', 'bool')
        ds = [d for d in ast.walk(fn) if isinstance(d, ast.Assign) and any(isinstance(t, ast.Name) and t.id == e.id for t in d.targets)]
        return bool(ds) and all(is_fresh(d.value, fn, depth + 1) for d in ds)
    return False


def check_inplace(ctx, rep):
    """C05.A — an in-place update (`self.X *= …`, `.mul_()` …) may only hit a tensor built earlier in the same call on every path."""
    from sa.cfg import CFG
    mod = ctx.prog.module('torchtree.evolution.site_model')
    n = 0
    for cname, cdef in sorted(mod.classes.items()):
        for fn in [b for b in cdef.body if isinstance(b, ast.FunctionDef)]:
            sites = []
            for st in ast.walk(fn):
                if isinstance(st, ast.AugAssign) and self_attr(st.target):
                    sites.append((st, self_attr(st.target)))
                elif isinstance(st, ast.Expr) and isinstance(st.value, ast.Call) and isinstance(st.value.func, ast.Attribute) \
                        and st.value.func.attr.endswith('_') and not st.value.func.attr.startswith('_') and self_attr(st.value.func.value):
                    sites.append((st, self_attr(st.value.func.value)))
            if not sites:
                continue
            cfg = CFG(fn)
            for st, attr in sites:
                n += 1
                node = cfg.node_of(st)
                defs = [d for d in ast.walk(fn) if isinstance(d, ast.Assign) and any(self_attr(t) == attr for t in d.targets)]
                dnodes = [cfg.node_of(d) for d in defs]
                covered = cfg.must_pass(cfg.entry, node, dnodes) and bool(dnodes)
                reaching = [d for d, dn in zip(defs, dnodes) if node.id in cfg.reachable_after(dn, {x.id for x in dnodes if x is not dn})]
                stale = [norm_text(d)[:70] for d in reaching if not is_fresh(d.value, fn)]
                rep.check('C05.A', f"{cname}.{fn.name}::in-place-update-of-self.{attr}-hits-a-tensor-built-in-this-call", covered and not stale,
                          where(mod, st), {'definitions_reaching': [norm_text(d)[:70] for d in reaching], 'defined_on_every_path': covered},
                          f"`{norm_text(st)[:60]}` modifies self.{attr} in place, but on some path that tensor was not built in this call "
                          f"({'alias of stored state: ' + '; '.join(stale) if stale else 'no definition on some path'}): the factor accumulates in the cached tensor and the "
                          f"weighted mean rate drifts from 1 (or mu) on re-evaluation")
    if n == 0:
        rep.ok('C05.A', 'site_model::no-in-place-updates', mod.path, {'sites': 0})


AUDITED = {
    # class -> rule deciding its mean-rate identity; every SiteModel class of the package must be listed (a new one is reported as undecided, not silently trusted)
    'SiteModel': 'abstract',
    'ConstantSiteModel': 'C05.C',
    'InvariantSiteModel': 'C05.I',
    'UnivariateDiscretizedSiteModel': 'C05.N',
    'WeibullSiteModel': 'C05.N (inverse_cdf)',
}
RATE_METHODS = {'rates', 'probabilities', 'update_rates', 'update_rates_probs', 'inverse_cdf'}


def check_constant(ctx, rep):
    cls = ctx.classes.get(f"{MOD}.ConstantSiteModel")
    init = cls.methods.get('__init__')
    W = where(cls.module, cls.node)

    def returned_attr(name):
        fn = cls.resolve(name)[1]
        rets = [r for r in ast.walk(fn) if isinstance(r, ast.Return) and r.value is not None]
        if len(rets) != 1:
            raise Unsupported(fn, f"{name}() has {len(rets)} return statements")
        v = rets[0].value
        tensor_of = isinstance(v, ast.Attribute) and v.attr == 'tensor'
        return self_attr(v.value if tensor_of else v), tensor_of
    (rattr, r_is_param), (pattr, _) = returned_attr('rates'), returned_attr('probabilities')
    adefs = {}
    for st in ast.walk(init):
        if isinstance(st, ast.Assign) and self_attr(st.targets[0]):
            adefs.setdefault(self_attr(st.targets[0]), []).append(st.value)
    mu = init.args.args[2].arg if len(init.args.args) > 2 else 'mu'

    def atom(e):
        if isinstance(e, ast.Name) and e.id == mu:
            return Rat.sym('mu')
        if isinstance(e, ast.Call) and method_name(e) in ('ones', 'ones_like'):
            return Rat.const(1)
        if isinstance(e, ast.Call) and method_name(e) == 'Parameter' and len(e.args) == 2:
            return ToRat(atom)(e.args[1])
        return None
    facts = {'rates_attribute': rattr, 'probabilities_attribute': pattr}
    ok = False
    why = ''
    if rattr in adefs and pattr in adefs and len(adefs[rattr]) == 1 and len(adefs[pattr]) == 1:
        rv, pv = adefs[rattr][0], adefs[pattr][0]
        try:
            P = ToRat(atom)(pv)
            if isinstance(rv, ast.IfExp):
                branches = [ToRat(atom)(rv.body), ToRat(atom)(rv.orelse)]
                test_ok = ast.unparse(rv.test).replace(' ', '') in (f"{mu}isnotNone", f"{mu}isNone")
                if ast.unparse(rv.test).replace(' ', '') == f"{mu}isNone":
                    branches.reverse()
                ok = test_ok and branches[0].equals(Rat.sym('mu')) and branches[1].equals(1) and P.equals(1)
                facts.update({'rate_with_mu': repr(branches[0]), 'rate_without_mu': repr(branches[1]), 'probability': repr(P)})
            else:
                R = ToRat(atom)(rv)
                ok = (R.equals(1) or R.equals(Rat.sym('mu'))) and P.equals(1)
                facts.update({'rate': repr(R), 'probability': repr(P)})
        except Unsupported as u:
            why = str(u)
    rep.check('C05.C', 'ConstantSiteModel::single-category-rate-mu-or-one-with-probability-one', ok, W, facts,
              f"the constant model must report one category with probability 1 and rate mu (1 without mu): Σ prob·rate = mu{'; ' + why if why else ''}")


def check_inventory(ctx, rep):
    from props import c05_generic
    c05_generic.self_check()
    try:
        inv = ctx.classes.get(f"{MOD}.InvariantSiteModel")
        for v in c05_generic.decide_class(inv):
            rep.check('C05.G', f"InvariantSiteModel::generic-evaluation-agrees::{'mu' if v['present'].get('_mu') else 'plain'}", v['ok'], where(inv.module, inv.node), {'mean_rate': repr(v['mean'])},
                      f"the generic block-vector evaluation of InvariantSiteModel gives Σ prob·rate = {v['mean']!r}, not {v['want']!r} (cross-check of C05.I by an independent evaluator)")
    except Unsupported as u:
        rep.undecided('C05.G', 'InvariantSiteModel::generic-evaluation-agrees', '', str(u))
    rep.ok('C05.G', 'generic-evaluator::embedded-examples', '', {'accepted': 'correct free-rate model (4 member combinations)', 'refused': 'normalisation before the invariant class is prepended (2 combinations)'})
    base = ctx.classes.get(f"{MOD}.SiteModel")
    n = 0
    for c in [base] + ctx.classes.subclasses(base.qualname, strict=True):
        n += 1
        own = sorted(RATE_METHODS & set(c.methods))
        key = f"{c.node.name}::audited-site-model"
        if c.node.name in AUDITED and c.module.name == MOD:
            rep.ok('C05.C', key, where(c.module, c.node), {'decided_by': AUDITED[c.node.name], 'defines': own})
        elif not own:
            rep.ok('C05.C', key, where(c.module, c.node), {'decided_by': 'inherits every rate method from an audited class', 'defines': own})
        else:
            # a class none of the hand-written rules knows: the generic block-vector evaluation decides it or refuses it
            from props import c05_generic
            try:
                verdicts = c05_generic.decide_class(c)
            except Unsupported as u:
                rep.incomplete('C05.C', key, where(c.module, c.node), f"{c.qualname} defines {own} and is none of the audited site models {sorted(AUDITED)}; the generic "
                               f"evaluation refuses it ({u}): whether its Σ prob·rate is one (mu) is not decided by any rule")
                continue
            for v in verdicts:
                members = ', '.join(f"{k.strip('_')} {'present' if on else 'absent'}" for k, on in sorted(v['present'].items())) or 'no optional member'
                rep.check('C05.G', f"{c.node.name}::mean-rate::{'+'.join(k.strip('_') for k, on in sorted(v['present'].items()) if on) or 'plain'}", v['ok'], where(c.module, c.node),
                          {'optional_members': v['present'], 'block_layout': v['layout'], 'mean_rate': repr(v['mean'])},
                          f"{c.node.name} ({members}): Σ_k prob_k·rate_k = {v['mean']!r}, not {v['want']!r}: the model changes the expected number of substitutions per unit branch length")
    if n < 5:
        raise AnalysisError(f"only {n} SiteModel classes found")


CONSUMER_POSITIVE = """
class L:
    def _call(self):
        rates = self.site_model.rates()
        rates = rates.reshape(self.sample_shape + (1, -1))
        rates *= self.clock_model.rates[..., :1].unsqueeze(-1)
        return rates
"""


def check_consumers(ctx, rep):
    from sa import purity
    from sa.report import where

    def consumes(fn):
        return any(isinstance(c, ast.Call) and isinstance(c.func, ast.Attribute) and c.func.attr in ('rates', 'probabilities') and not c.args
                   and not (isinstance(c.func.value, ast.Name) and c.func.value.id == 'self') for c in ast.walk(fn))
    # the embedded example must be recognised on every run (no consumer of the repository updates anything in place)
    import types
    t = ast.parse(CONSUMER_POSITIVE)
    for x in ast.walk(t):
        for ch in ast.iter_child_nodes(x):
            ch._parent = x

    class _Col:
        def __init__(self):
            self.bad = []
            self.analysed = {}

        def check(self, rule, key, ok, *a, **k):
            if not ok:
                self.bad.append(key)
    col = _Col()
    fake = types.SimpleNamespace(prog=types.SimpleNamespace(modules={'<example>': types.SimpleNamespace(
        name='<example>', relpath='<example>', tree=t, classes={'L': t.body[0]}, functions={})}), classes=ctx.classes, _accessor_names=None)
    purity.check_alias_mutation(fake, col, 'C05.M', lambda m, c, f: consumes(f), index_stores=True)
    if len(col.bad) != 1:
        raise AnalysisError(f"C05.M self-check: the embedded consumer example gives {len(col.bad)} reports, expected 1")
    consumers = []
    for m in ctx.prog.modules.values():
        for cname, cnode in m.classes.items():
            for b in cnode.body:
                if isinstance(b, ast.FunctionDef) and consumes(b) and m.name != MOD:
                    consumers.append((m, cname, b))
    n = purity.check_alias_mutation(ctx, rep, 'C05.M', lambda m, c, f: any(f is b for _, _, b in consumers), index_stores=True)
    for m, cname, b in consumers:
        rep.ok('C05.M', f"{m.name.replace('torchtree.', '')}.{cname}.{b.name}::consumer-scanned", where(m, b), {'in_place_update_sites_in_consumers': n})
    if not consumers:
        rep.incomplete('C05.M', '*', '', 'no consumer of rates() / probabilities() found outside site_model.py')


def check_updates_reach(ctx, rep):
    from props import c11
    from sa.members import Kinds, PARAM_BASE
    from sa.report import RuleProxy
    kinds = Kinds(ctx.classes)
    n = 0
    for cls in sorted(ctx.classes.classes.values(), key=lambda c: c.qualname):
        if cls.is_abstract():
            continue
        site = cls.module.name == MOD and cls.has_base('torchtree.core.parametric.Parametric')
        derived = cls.module.name == 'torchtree.core.parameter' and cls.has_base(PARAM_BASE) and cls.resolve('handle_parameter_changed') is not None \
            and cls.has_base('torchtree.core.parametric.Parametric') or (cls.module.name == 'torchtree.core.parameter' and cls.name == 'ViewParameter')
        if site or derived:
            n += 1
            c11.check_handlers(ctx, RuleProxy(rep, 'C05.H', 'handlers::'), kinds, cls)
        if cls.module.name == 'torchtree.core.parameter' and cls.has_base(PARAM_BASE):
            c11.check_setters(ctx, RuleProxy(rep, 'C05.H', 'setters::'), cls)       # an assignment to shape / invariant / mu always tells the listeners
    # the samplers that move shape / invariant / mu: proposals and restorations tell the listeners (C11.W rules on the MCMC operators)
    c11.check_inplace(ctx, RuleProxy(rep, 'C05.H', 'operators::'), rule='C11.W', only=lambda m, fn: m.name.startswith('torchtree.inference.mcmc'))
    # what a site model keeps between calls is either refreshed under its flag or converted in a way that leaves the flag up (C11.V); the optimiser tells the listeners after
    # every in-place step before anything is evaluated (C11.O); the transforms behind shape / pinv / mu keep torch's identity-keyed cache off (C11.X)
    c11.check_cache_values(ctx, RuleProxy(rep, 'C05.H', 'cache-values::'), rule='C11.V', only=lambda c: c.module.name == MOD)
    c11.check_optimizer(ctx, RuleProxy(rep, 'C05.H', 'optimizer::'))
    c11.check_transform_cache(ctx, RuleProxy(rep, 'C05.H', 'transform-cache::'), floor=5)
    # replacing shape / invariant / mu after construction goes through Parametric.__setattr__: a property setter written for it would never run
    c11.check_parameter_setters_are_reachable(ctx, RuleProxy(rep, 'C05.H', 'setters::'), only=lambda c: c.module.name == MOD or c.module.name == 'torchtree.core.parameter')
    # the rates / probabilities that are served were computed from the current shape / invariant / mu: the dirty flag of a site model goes down only after an unconditional refresh
    if c11.check_flag_cleared_after_the_refresh(ctx, RuleProxy(rep, 'C05.H', 'flags::'), only=lambda m: m.name == MOD) < 4:
        rep.incomplete('C05.H', 'flags', '', 'fewer than 4 flag-guarded refresh blocks found in site_model.py')
    if n < 6:
        rep.incomplete('C05.H', '*', '', f"only {n} site model / derived parameter classes found")


def check_batched(ctx, rep):
    from sa.report import RuleProxy
    from props import c10
    # (the event-axis analysis of sa/axes classifies no operation of site_model.py — there is no indexed height or keepdim-less reduction there — so it is not run)
    n_bad = c10.check_whole_reductions(ctx, RuleProxy(rep, 'C05.B', 'reductions::'), only=lambda mname: mname == MOD)
    c10.check_front_axes(ctx, RuleProxy(rep, 'C05.B', 'axes::'), only=lambda mname: mname == MOD)
    m = ctx.prog.module(MOD)
    reds = [c for c in ast.walk(m.tree) if isinstance(c, ast.Call) and isinstance(c.func, ast.Attribute) and c.func.attr in ('sum', 'mean', 'prod', 'cumsum', 'logsumexp')]
    if len(reds) < 1:
        raise AnalysisError(f"only {len(reds)} reductions found in site_model.py")
    named = [c for c in reds if c.args or any(k.arg in ('dim', 'axis') for k in c.keywords)]
    rep.check('C05.B', 'reductions::site_model::every-reduction-names-its-axis', len(named) == len(reds) or n_bad >= 0, where(m, reds[0]),
              {'reductions': len(reds), 'with_axis': len(named), 'without_axis_decided_above': n_bad}, '')


def run(ctx, rep):
    from sa import callbind
    callbind.run_for(ctx, rep, 'C05', 4)
    rep.explanation = (
        "InvariantSiteModel: probabilities and rates are turned into rational functions of the invariant proportion p and Σ prob·rate = 1, Σ prob = 1 "
        "are checked as identities; the exactly-zero block is aligned with the invariant probability.  Discretised models: the stored rates have the "
        "shape X / Σ(X·P) with P the attribute that probabilities() returns (which makes the weighted mean one an identity for every shape parameter), "
        "the probabilities are defined before they normalise, (p, (1−p)/K × K) sums to one as an identity in p and K, mid-point quantiles (2i+1)/(2K) "
        "with the branch's own K, relative rate applied last, Weibull zero block aligned."
    )
    rep.rule('C05.I', "invariant model: Σ prob·rate = 1 and Σ prob = 1 as rational identities; zero-rate block aligned with the invariant probability; mu applied after")
    rep.rule('C05.N', "discretised models: rates = X / Σ(X·P) with the reported P, P defined first and summing to one, mid-point quantiles with the branch's K, mu last")
    rep.rule('C05.A', "in-place updates of cached rates/probabilities only hit a tensor built earlier in the same call on every path (no accumulation across evaluations)")
    rep.not_decided += ["non-negativity for all shapes", "broadcasting of batched shapes (beyond whole-tensor reductions)", "quantile accuracy"]
    rep.rule('C05.G', "site models outside the audited set: block-vector abstract evaluation of the refresh method, Σ prob·rate = 1 (mu) as a polynomial identity with linear sums, for every combination of optional members")
    rep.rule('C05.C', "constant model: one category, probability 1, rate mu (1 without mu); every SiteModel class of the package is decided by one of the rules")
    rep.rule('C05.M', "the tensors that rates() / probabilities() hand out are the site model's own caches: no consumer in the package updates them in place, directly or through a local name or view")
    check_consumers(ctx, rep)
    rep.rule('C05.B', "batched parameters: no whole-tensor reduction (no axis named) of a value that can carry a sample dimension in the site models (C10.D machinery restricted to site_model.py)")
    check_batched(ctx, rep)
    rep.rule('C05.H', "a change of shape / invariant / mu reaches rates() and probabilities(): the handlers of the site models mark their caches dirty, and those of the derived parameter "
                      "kinds a member can be (view, transformed, concatenated) pass every change on (C11.H rules on these classes)")
    check_updates_reach(ctx, rep)
    for f, rule in ((check_invariant, 'C05.I'), (check_discretized, 'C05.N'), (check_inplace, 'C05.A'), (check_constant, 'C05.C'), (check_inventory, 'C05.C')):
        try:
            f(ctx, rep)
        except Unsupported as u:
            rep.undecided(rule, f.__name__, f"line {getattr(u.node, 'lineno', 0)}", str(u))
