from sa.selftest import Mut

SM = 'torchtree/evolution/site_model.py'

def T(id, old, new, expect=None, benign=False):
    return Mut(id, SM, '', old, new, expect=expect, benign=benign, mode='text')

CORPUS = [
    T('c05-invariant-rate', "                1.0 / (1.0 - invariant),\n", "                1.0 / invariant,\n", expect=[('C05.I', 'InvariantSiteModel::mean-rate-is-one')]),
    T('c05-invariant-rate-unscaled', "                1.0 / (1.0 - invariant),\n", "                torch.ones_like(invariant),\n", expect=[]),
    T('c05-invariant-prob-swapped', "        self._probabilities = torch.cat((invariant, 1.0 - invariant), -1)", "        self._probabilities = torch.cat((1.0 - invariant, invariant), -1)",
      expect=[('C05.I', 'InvariantSiteModel::mean-rate-is-one'), ('C05.I', 'InvariantSiteModel::invariant-category-has-rate-zero')]),
    T('c05-invariant-not-exact-zero', "                torch.zeros_like(invariant, device=invariant.device),", "                invariant * 0.0,", expect=[('C05.I', 'InvariantSiteModel::invariant-category-has-rate-zero')]),
    T('c05-normalise-without-probs', "        self._rates = rates / (rates * self._probabilities).sum(-1, keepdim=True)", "        self._rates = rates / rates.mean(-1, keepdim=True)",
      expect=[('C05.N', 'normalised-by-weighted-mean')]),
    T('c05-normalise-before-probs', "        self._rates = rates / (rates * self._probabilities).sum(-1, keepdim=True)\n        if self._mu is not None:\n            self._rates *= self._mu.tensor\n",
      "        if self._mu is not None:\n            rates = rates * self._mu.tensor\n        self._rates = rates / (rates * self._probabilities).sum(-1, keepdim=True)\n", expect=[('C05.N', 'relative-rate-applied-after')]),
    T('c05-probs-with-invariant', "                    ((1.0 - invariant) / cat).expand(invariant.shape[:-1] + (cat,)),", "                    ((1.0 - invariant) / self._categories).expand(invariant.shape[:-1] + (cat,)),",
      expect=[('C05.N', 'probabilities-with-invariant-sum-to-one')]),
    T('c05-quantiles-not-midpoint', "            quantile = (2.0 * torch.arange(cat, device=parameter.device) + 1.0) / (\n                2.0 * cat\n            )",
      "            quantile = (torch.arange(cat, device=parameter.device) + 1.0) / (\n                cat + 1.0\n            )", expect=[('C05.N', 'midpoint-quantiles-invariant-branch')]),
    T('c05-quantiles-wrong-K', "            ) / (2.0 * self._categories)", "            ) / (2.0 * (self._categories + 1))", expect=[('C05.N', 'midpoint-quantiles-plain-branch')]),
    T('c05-weibull-zero-last', "                (\n                    torch.zeros_like(invariant),\n                    torch.pow(-torch.log(1.0 - quantile), 1.0 / parameter),\n                ),",
      "                (\n                    torch.pow(-torch.log(1.0 - quantile), 1.0 / parameter),\n                    torch.zeros_like(invariant),\n                ),", expect=[('C05.N', 'zero-rate-block-aligned')]),
    T('c05-weibull-quantile', "            return torch.pow(-torch.log(1.0 - quantile), 1.0 / parameter)", "            return torch.pow(-torch.log(quantile), 1.0 / parameter)", expect=[('C05.N', 'WeibullSiteModel.inverse_cdf::quantile-function')]),
    T('c05-inplace-on-alias', "        self._rates = rates / (rates * self._probabilities).sum(-1, keepdim=True)\n        if self._mu", "        self._normalised = rates / (rates * self._probabilities).sum(-1, keepdim=True)\n        self._rates = self._normalised\n        if self._mu",
      expect=[('C05.A', 'in-place-update-of-self._rates')]),
    T('c05-inplace-conditional-def', "        self._rates = rates / (rates * self._probabilities).sum(-1, keepdim=True)\n        if self._mu", "        if self._rates is None:\n            self._rates = rates / (rates * self._probabilities).sum(-1, keepdim=True)\n        if self._mu",
      expect=[('C05.A', 'in-place-update-of-self._rates')]),
    T('c05-benign-out-of-place-mu', "            self._rates *= self._mu.tensor\n\n    def rates(self) -> torch.Tensor:\n        if self.needs_update:\n            self.update_rates(", "            self._rates = self._rates * self._mu.tensor\n\n    def rates(self) -> torch.Tensor:\n        if self.needs_update:\n            self.update_rates(", benign=True),
    T('c05-benign-mean-form', "        self._rates = rates / (rates * self._probabilities).sum(-1, keepdim=True)", "        self._rates = rates / (self._probabilities * rates).sum(-1, keepdim=True)", benign=True),
    T('c05-invariant-rate-clamped', "                1.0 / (1.0 - invariant),\n", "                1.0 / torch.clamp(1.0 - invariant, min=1.0e-6),\n", expect=[('C05.I', 'InvariantSiteModel::mean-rate-is-one::piece1')]),
    T('c05-invariant-prob-clamped', "        self._probabilities = torch.cat((invariant, 1.0 - invariant), -1)", "        self._probabilities = torch.cat((invariant.clamp(max=0.99), 1.0 - invariant), -1)",
      expect=[('C05.I', 'InvariantSiteModel::mean-rate-is-one::piece1')]),
    Mut('c05-benign-invariant-local-name', SM, '', "                1.0 / (1.0 - invariant),\n", "                1.0 / variable,\n", benign=True, mode='text',
        more=[dict(scope='', old="        self._probabilities = torch.cat((invariant, 1.0 - invariant), -1)\n", new="        self._probabilities = torch.cat((invariant, 1.0 - invariant), -1)\n        variable = 1.0 - invariant\n", nth=0, mode='text')]),
    T('c05-constant-probability-half', "        self._probability = torch.ones_like(self._rate.tensor)", "        self._probability = torch.ones_like(self._rate.tensor) / 2.0", expect=[('C05.C', 'ConstantSiteModel::single-category')]),
    T('c05-constant-rate-ignores-mu', "        self._rate = mu if mu is not None else Parameter(None, torch.ones((1,)))", "        self._rate = Parameter(None, torch.ones((1,))) if mu is not None else mu",
      expect=[('C05.C', 'ConstantSiteModel::single-category')]),
    T('c05-benign-constant-test-flipped', "        self._rate = mu if mu is not None else Parameter(None, torch.ones((1,)))", "        self._rate = Parameter(None, torch.ones((1,))) if mu is None else mu", benign=True),
]
for m in CORPUS:
    if m.id == 'c05-invariant-rate-unscaled':
        m.expect = [('C05.I', 'InvariantSiteModel::mean-rate-is-one')]
