"""C15 (fixed): an operator returning a NaN Hastings ratio had its proposal accepted with probability one (only an infinite ratio was guarded;
Python's built-in min(0, nan) is 0).  Run: PYTHONPATH=<tree> /venv/bin/python findings/c15_nan_hastings_accepted.py   (exit 1 = defect present)"""
import io, sys, contextlib, torch
from torchtree import Parameter
from torchtree.distributions import Distribution
from torchtree.inference.mcmc.mcmc import MCMC
from torchtree.inference.mcmc.operator import MCMCOperator
torch.manual_seed(0)


class NaNOperator(MCMCOperator):
    def _step(self):
        self.parameters[0].tensor = self.parameters[0].tensor + 100.0      # a terrible proposal
        return torch.tensor(float('nan'))

    @property
    def tuning_parameter(self):
        return 0.0

    @MCMCOperator.adaptable_parameter.getter
    def adaptable_parameter(self):
        return 0.0

    def set_adaptable_parameter(self, value):
        pass

    def _state_dict(self):
        return {}

    def _load_state_dict(self, state_dict):
        pass

    @classmethod
    def from_json(cls, data, dic):
        raise NotImplementedError


x = Parameter('x', torch.tensor([0.0]))
target = Distribution('target', torch.distributions.Normal, x, {'loc': Parameter('m', torch.tensor([0.0])), 'scale': Parameter('s', torch.tensor([1.0]))})
op = NaNOperator('op', [x], 1.0, 0.234)
mcmc = MCMC('mcmc', target, [op], 20, every=0, checkpoint=None)
with contextlib.redirect_stdout(io.StringIO()):
    mcmc.run()
moved = x.tensor.item()
print('x after 20 iterations of proposals with a NaN Hastings ratio:', moved)
print('OK: every proposal rejected' if moved == 0.0 else 'DEFECT: proposals with a NaN acceptance ratio were accepted')
sys.exit(0 if moved == 0.0 else 1)
