"""C19 (known): the --poisson path of `torchtree-cli advi` is unfinished.
  (a) `advi -t TREE --poisson` without a tree prior: create_time_tree_prior returns an unassigned local (UnboundLocalError, C19.E);
  (b) `advi -t TREE --poisson --clock strict --coalescent constant`: the logger lists 'prior', which the poisson joint never defines (C19.R).
Run: PYTHONPATH=/repo /venv/bin/python findings/c19_known_poisson_without_tree_prior.py   (exit 1 = defect present)"""
import io, sys, json, contextlib, importlib
from torchtree.cli.cli import main
from torchtree.core.utils import process_objects, package_contents, remove_comments, expand_plates, JSONParseError
for module in package_contents('torchtree'):
    importlib.import_module(module)
bad = 0
sys.argv = ['torchtree-cli', 'advi', '-t', '/repo/data/fluA.tree', '--poisson']
try:
    with contextlib.redirect_stdout(io.StringIO()):
        main()
    print('(a) OK')
except UnboundLocalError as e:
    print('(a) DEFECT: CLI crashed:', e); bad += 1
sys.argv = ['torchtree-cli', 'advi', '-t', '/repo/data/fluA.tree', '--poisson', '--clock', 'strict', '--coalescent', 'constant']
buf = io.StringIO()
with contextlib.redirect_stdout(buf):
    main()
data = json.loads(buf.getvalue())
remove_comments(data); expand_plates(data)
dic = {}
try:
    with contextlib.redirect_stdout(io.StringIO()):
        for e in data:
            process_objects(e, dic)
    print('(b) OK: loaded', len(dic), 'objects')
except JSONParseError as e:
    root = e
    while root.__context__ is not None:
        root = root.__context__
    print('(b) DEFECT: emitted file rejected:', root); bad += 1
sys.exit(1 if bad else 0)
