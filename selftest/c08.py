from sa.selftest import Mut

CO = 'torchtree/evolution/coalescent.py'

CORPUS = [
    Mut('c08-descending', CO, 'ConstantCoalescentIntegrated.log_prob', 'indices = torch.argsort(node_heights, descending=False)', 'indices = torch.argsort(node_heights, descending=True)',
        expect=[('C08.P', 'ConstantCoalescentIntegrated.log_prob::F2'), ('C08.P', 'prologues::siblings-agree')]),
    Mut('c08-marks-not-permuted', CO, 'ExponentialCoalescent.log_prob', 'node_mask_sorted = torch.gather(node_mask, -1, indices)', 'node_mask_sorted = node_mask',
        expect=[]),
    Mut('c08-marks-swapped', CO, 'PiecewiseExponentialCoalescentGrid.log_prob', 'event_mask = torch.cat(…', None),
    Mut('c08-lineage-count-slice', CO, 'ExponentialCoalescent.log_prob', 'lineage_count = node_mask_sorted.cumsum(-1)[..., :-1]', 'lineage_count = node_mask_sorted.cumsum(-1)[..., 1:]',
        expect=[('C08.P', 'ExponentialCoalescent.log_prob::F3'), ('C08.P', 'prologues::siblings-agree')]),
    Mut('c08-choose2', CO, 'PiecewiseConstantCoalescentGrid._sorted_terms', 'lchoose2 = lineage_count * (lineage_count - 1) / 2.0', 'lchoose2 = lineage_count * (lineage_count + 1) / 2.0',
        expect=[('C08.P', 'PiecewiseConstantCoalescentGrid._sorted_terms::F4')]),
    Mut('c08-intervals-reversed', CO, 'PiecewiseConstantCoalescent._sorted_terms', 'intervals = heights_sorted[..., 1:] - heights_sorted[..., :-1]', 'intervals = heights_sorted[..., :-1] - heights_sorted[..., 1:]',
        expect=[('C08.P', 'PiecewiseConstantCoalescent._sorted_terms::F5')]),
    Mut('c08-constant-sign', CO, 'ConstantCoalescent.log_prob', 'return torch.sum(-lchoose2 * durations / self.theta, -1, keepdim=True) - (taxa_shape[-1] - 1) * torch.log(self.theta)',
        'return torch.sum(-lchoose2 * durations / self.theta, -1, keepdim=True) + (taxa_shape[-1] - 1) * torch.log(self.theta)', expect=[('C08.P', 'ConstantCoalescent.log_prob::F6-signs')]),
    Mut('c08-grid-sign', CO, 'PiecewiseConstantCoalescentGrid.log_prob', 'return torch.sum(-lchoose2 * durations / thetas[..., :-1] - log_thetas[..., 1:], -1, keepdim=True)',
        'return torch.sum(lchoose2 * durations / thetas[..., :-1] - log_thetas[..., 1:], -1, keepdim=True)', expect=[('C08.P', 'PiecewiseConstantCoalescentGrid.log_prob::F6-signs')]),
    Mut('c08-grid-log-at-grid-events', CO, 'PiecewiseConstantCoalescentGrid.log_prob', 'log_thetas = torch.where(…', None),
    Mut('c08-skyride-lookup-mark', CO, 'PiecewiseConstantCoalescent.log_prob', 'thetas_indices = torch.where(…', None),
    Mut('c08-grid-lookup-mark', CO, 'PiecewiseConstantCoalescentGrid.log_prob', 'thetas_indices = torch.where(…', None),
    Mut('c08-benign-rename', CO, 'ConstantCoalescent.log_prob', 'durations = heights_sorted[..., 1:] - heights_sorted[..., :-1]',
        'durations = heights_sorted[..., 1:] - heights_sorted[..., :-1]\nn_intervals = durations.shape[-1]', benign=True),
    Mut('c08-exp-integral-divides-by-growth-twice', CO, '', "        integral = (height_growth_exp[..., 1:] - height_growth_exp[..., :-1]) / (\n            self.theta * self.growth\n        )",
        "        integral = (height_growth_exp[..., 1:] - height_growth_exp[..., :-1]) / (\n            self.theta * self.growth * self.growth\n        )", mode='text',
        expect=[('C08.I', 'ExponentialCoalescent::always')]),
    Mut('c08-exp-integral-wrong-sign-of-growth', CO, '', "        height_growth_exp = torch.exp(heights_sorted * self.growth)", "        height_growth_exp = torch.exp(-heights_sorted * self.growth)", mode='text',
        expect=[('C08.I', 'ExponentialCoalescent::always')]),
    Mut('c08-exp-logN-other-model', CO, '', "            self.theta * torch.exp(-heights_sorted * self.growth)\n        ) * (node_mask_sorted == -1)", "            self.theta * torch.exp(heights_sorted * self.growth)\n        ) * (node_mask_sorted == -1)", mode='text',
        expect=[('C08.I', 'ExponentialCoalescent::always')]),
    Mut('c08-exp-one-sided-zero-growth-switch', CO, '', "        integral = (height_growth_exp[..., 1:] - height_growth_exp[..., :-1]) / (\n            self.theta * self.growth\n        )",
        "        integral = torch.where(self.growth < 1.0e-12, (heights_sorted[..., 1:] - heights_sorted[..., :-1]) / self.theta, (height_growth_exp[..., 1:] - height_growth_exp[..., :-1]) / (\n            self.theta * self.growth\n        ))", mode='text',
        expect=[('C08.I', 'ExponentialCoalescent::self.growth < 1e-12')]),
    Mut('c08-benign-exp-two-sided-zero-growth-switch', CO, '', "        integral = (height_growth_exp[..., 1:] - height_growth_exp[..., :-1]) / (\n            self.theta * self.growth\n        )",
        "        integral = torch.where(self.growth.abs() < 1.0e-12, (heights_sorted[..., 1:] - heights_sorted[..., :-1]) / self.theta, (height_growth_exp[..., 1:] - height_growth_exp[..., :-1]) / (\n            self.theta * self.growth\n        ))", mode='text', benign=True),
    Mut('c08-benign-exp-exact-zero-growth-switch', CO, '', "        integral = (height_growth_exp[..., 1:] - height_growth_exp[..., :-1]) / (\n            self.theta * self.growth\n        )",
        "        integral = torch.where(self.growth == 0.0, (heights_sorted[..., 1:] - heights_sorted[..., :-1]) / self.theta, (height_growth_exp[..., 1:] - height_growth_exp[..., :-1]) / (\n            self.theta * self.growth\n        ))", mode='text', benign=True),
    Mut('c08-linear-fallback-last-theta', CO, '', "        integral = intervals / pop_sizes[..., 1:-1]\n", "        integral = intervals / thetas[..., -1:]\n", mode='text',
        expect=[('C08.I', 'PiecewiseLinearCoalescentGrid::not diff_thetas != 0.0')]),
    Mut('c08-linear-absolute-tolerance', CO, '', "        idx = (diff_thetas != 0.0).nonzero(as_tuple=True)", "        idx = (diff_thetas.abs() > 1.0e-8).nonzero(as_tuple=True)", mode='text',
        expect=[('C08.I', 'degenerate-case-switch-is-scale-free')]),
    Mut('c08-linear-main-formula', CO, '', "        integral[idx] = intervals[idx] * diff_log_thetas[idx] / diff_thetas[idx]", "        integral[idx] = intervals[idx] / diff_log_thetas[idx] * diff_thetas[idx]", mode='text',
        expect=[('C08.I', 'PiecewiseLinearCoalescentGrid::diff_thetas != 0.0')]),
    Mut('c08-benign-linear-fallback-end-size', CO, '', "        integral = intervals / pop_sizes[..., 1:-1]\n", "        integral = intervals / pop_sizes[..., 2:]\n", mode='text', benign=True),
    Mut('c08-multiplicities-pooled', CO, '', "node_heights.flatten()[:taxa_count].unique(", "node_heights[..., :taxa_count].unique(", mode='text',
        expect=[('C08.M', 'SoftPiecewiseConstantCoalescentGrid.log_prob')]),
    Mut('c08-benign-multiplicities-first-row', CO, '', "node_heights.flatten()[:taxa_count].unique(", "node_heights.reshape(-1)[:taxa_count].unique(", mode='text', benign=True),
    Mut('c08-repaired-piecewise-exponential-integral', CO, '', "        integral = (\n            grid_heights_growth_exp[..., 1:] - grid_heights_growth_exp[..., :-1]\n        ) / (thetas * growth_intervals[..., 1:])\n",
        "        idx_end = indices_grid_heights[..., 1:]\n        g_end = growth.gather(-1, idx_end)\n        start = grid0.gather(-1, idx_end)\n        log_n0 = log_pop_size_grid.gather(-1, idx_end)\n"
        "        integral = (\n            torch.exp(g_end * (grid_heights_sorted[..., 1:] - start)) - torch.exp(g_end * (grid_heights_sorted[..., :-1] - start))\n        ) / (torch.exp(log_n0) * g_end)\n",
        mode='text', benign=True, note='a repaired integral must satisfy the rule that reports the known finding'),
    Mut('c08-linear-lookup-assumes-regular-grid', CO, '', "        indices_node_heights = torch.bucketize(node_heights_sorted, self.grid)\n", "        indices_node_heights = torch.div(node_heights_sorted, self.grid[0], rounding_mode='floor').long()\n",
        expect=[('C08.L', 'PiecewiseLinearCoalescentGrid.log_prob::piece-index-of-')], mode='text'),
    Mut('c08-benign-lookup-searchsorted', CO, '', "        indices_node_heights = torch.bucketize(node_heights_sorted, self.grid)\n", "        indices_node_heights = torch.searchsorted(self.grid, node_heights_sorted)\n", benign=True, mode='text'),
    Mut('c08-times-built-in-default-precision', CO, '', "        times = torch.tensor(data['times'], dtype=dtype)\n", "        times = torch.tensor(data['times']).to(dtype)\n", expect=[('C08.T', 'process_data_coalesent')], mode='text'),
    Mut('c08-intervals-summed-in-default-precision', CO, '', "        times = torch.tensor([0.0] + data['intervals'], dtype=dtype).cumsum(0)\n", "        times = torch.tensor([0.0] + data['intervals']).cumsum(0).to(dtype)\n", expect=[('C08.T', 'process_data_coalesent')], mode='text'),
    Mut('c08-growth-stored-past-setattr', CO, '', "        super().__init__(id_, theta, tree_model)\n        self.growth = growth\n", "        super().__init__(id_, theta, tree_model)\n        self.__dict__['growth'] = growth\n", expect=[('C08.H', 'ExponentialCoalescentModel.__init__')], mode='text'),
    Mut('c08-benign-temperature-stored-past-setattr', CO, '', "        self.grid = grid\n        self.temperature = temperature\n", "        self.grid = grid\n        self.__dict__['temperature'] = temperature\n", benign=True, mode='text'),
]
for m in CORPUS:
    if m.id == 'c08-marks-not-permuted':
        m.expect = []
        m.benign = False
        m.expect = [('C08.P', 'ExponentialCoalescent.log_prob')]
    if m.id == 'c08-marks-swapped':
        m.mode = 'text'
        m.old = "                # sampling event\n                torch.full(taxa_shape, 1, dtype=torch.int),\n                # coalescent event\n                torch.full(\n                    taxa_shape[:-1] + (taxa_shape[-1] - 1,),\n                    -1,\n                    dtype=torch.int,\n                ),\n                # no event\n                torch.full(grid.shape, 0, dtype=torch.int),\n            ],\n            dim=-1,\n        )\n\n        indices = torch.argsort(grid_heights, descending=False)"
        m.new = "                # sampling event\n                torch.full(taxa_shape, 1, dtype=torch.int),\n                # no event\n                torch.full(grid.shape, 0, dtype=torch.int),\n                # coalescent event\n                torch.full(\n                    taxa_shape[:-1] + (taxa_shape[-1] - 1,),\n                    -1,\n                    dtype=torch.int,\n                ),\n            ],\n            dim=-1,\n        )\n\n        indices = torch.argsort(grid_heights, descending=False)"
        m.expect = [('C08.P', 'PiecewiseExponentialCoalescentGrid.log_prob::F1')]
    if m.id == 'c08-grid-log-at-grid-events':
        m.mode = 'text'
        m.old = "        log_thetas = torch.where(\n            node_mask_sorted == -1,"
        m.new = "        log_thetas = torch.where(\n            node_mask_sorted != 1,"
        m.expect = [('C08.P', 'PiecewiseConstantCoalescentGrid.log_prob::F6-log-term')]
    if m.id == 'c08-skyride-lookup-mark':
        m.mode = 'text'
        m.old = "        thetas_indices = torch.where(\n            node_mask_sorted == -1,"
        m.new = "        thetas_indices = torch.where(\n            node_mask_sorted == 1,"
        m.expect = [('C08.P', 'PiecewiseConstantCoalescent.log_prob::F7')]
    if m.id == 'c08-grid-lookup-mark':
        m.mode = 'text'
        m.old = "        thetas_indices = torch.where(\n            node_mask_sorted == 0,"
        m.new = "        thetas_indices = torch.where(\n            node_mask_sorted == -1,"
        m.expect = [('C08.P', 'PiecewiseConstantCoalescentGrid.log_prob::F7')]
CORPUS += [
    Mut('c08-piecewise-exponential-heights-in-input-order', 'torchtree/evolution/coalescent.py', '', "        ) * (internal_heights_sorted - grid0.gather(-1, indices_internals))\n", "        ) * (internal_heights - grid0.gather(-1, indices_internals))\n",
        mode='text', expect=[('C08.O', 'PiecewiseExponentialCoalescentGrid.log_prob::internal_heights - grid0.gather')], note='the state of the tree before 730aafa'),
    Mut('c08-linear-grid-lookups-in-input-order', 'torchtree/evolution/coalescent.py', 'PiecewiseLinearCoalescentGrid.log_prob', 'indices_node_heights = torch.bucketize(node_heights_sorted, self.grid)',
        'indices_node_heights = torch.bucketize(node_heights, self.grid)', expect=[('C08.O', 'PiecewiseLinearCoalescentGrid.log_prob')]),
    Mut('c08-benign-linear-grid-sorted-heights-renamed', 'torchtree/evolution/coalescent.py', 'PiecewiseLinearCoalescentGrid.log_prob', 'indices_node_heights = torch.bucketize(node_heights_sorted, self.grid)',
        'event_heights = node_heights_sorted.clone()\nindices_node_heights = torch.bucketize(event_heights, self.grid)', benign=True),
    Mut('c08-skyride-fixed-tree-sorted-once', 'torchtree/evolution/coalescent.py', 'PiecewiseConstantCoalescent._sorted_terms', 'heights = node_heights.expand(batch_shape + torch.Size([-1]))',
        'heights = node_heights.reshape((1,) * len(batch_shape) + (-1,))', expect=[('C08.G', 'PiecewiseConstantCoalescent._sorted_terms::fixed-tree-expanded-to-the-batch-of-self.theta')]),
    Mut('c08-benign-skyride-fixed-tree-expanded-with-a-tuple', 'torchtree/evolution/coalescent.py', 'PiecewiseConstantCoalescent._sorted_terms', 'heights = node_heights.expand(batch_shape + torch.Size([-1]))',
        'heights = node_heights.expand(batch_shape + (-1,))', benign=True),
]
CORPUS += [
    Mut('c08-coalescent-model-keeps-its-distribution', 'torchtree/evolution/coalescent.py', 'AbstractCoalescentModel._call', 'coalescent = self.distribution()',
        "if getattr(self, '_coalescent', None) is None:\n    self._coalescent = self.distribution()\ncoalescent = self._coalescent", expect=[], benign=True,
        note='getattr form is outside the recognised memo idiom (silent); the seeded change c08-agent-13 uses the recognised one'),
    Mut('c08-event-marks-kept-on-the-class', 'torchtree/evolution/coalescent.py', 'PiecewiseConstantCoalescentGrid._sorted_terms', 'indices = torch.argsort(heights, descending=False)',
        'self._event_marks[heights.shape] = node_mask\nindices = torch.argsort(heights, descending=False)', expect=[('C08.M', 'PiecewiseConstantCoalescentGrid._sorted_terms::_event_marks::container-shared-by-all-instances')],
        more=[dict(scope='', old="class PiecewiseConstantCoalescentGrid(AbstractCoalescentDistribution):\n", new="class PiecewiseConstantCoalescentGrid(AbstractCoalescentDistribution):\n    _event_marks = {}\n\n", mode='text')]),
]
CORPUS += [
    Mut('c08-impossible-genealogies-judged-by-the-count-after-the-event', 'torchtree/evolution/coalescent.py', 'ConstantCoalescent.log_prob', 'lchoose2 = lineage_count * (lineage_count - 1) / 2.0',
        'lchoose2 = lineage_count * (lineage_count - 1) / 2.0\nimpossible = torch.any((node_mask_sorted[..., :-1] == -1) & (lineage_count < 2), -1, keepdim=True)',
        expect=[('C08.P', 'ConstantCoalescent.log_prob::F7-marks-combined-with-interval-quantities-end-the-intervals')]),
    Mut('c08-benign-impossible-genealogies-judged-by-the-count-before-the-event', 'torchtree/evolution/coalescent.py', 'ConstantCoalescent.log_prob', 'lchoose2 = lineage_count * (lineage_count - 1) / 2.0',
        'lchoose2 = lineage_count * (lineage_count - 1) / 2.0\nimpossible = torch.any((node_mask_sorted[..., 1:] == -1) & (lineage_count < 2), -1, keepdim=True)', benign=True),
]
CORPUS += [
    Mut('c08-skygrid-model-keeps-the-grid-values-of-construction', 'torchtree/evolution/coalescent.py', 'PiecewiseConstantCoalescentGridModel.__init__', 'self.grid = grid', 'self.grid = grid.tensor',
        expect=[('C08.M', 'PiecewiseConstantCoalescentGridModel.__init__::self.grid-is-not-a-snapshot-of-a-parameter')]),
    Mut('c08-sampling-times-rounded-before-merging', 'torchtree/evolution/coalescent.py', '', "                node_heights[..., :taxa_count], return_counts=True, dim=-1\n",
        "                torch.round(node_heights[..., :taxa_count], decimals=6), return_counts=True, dim=-1\n", mode='text', expect=[('C08.T', 'coalescent::PiecewiseLinearCoalescentGrid.log_prob::')]),
]
CORPUS += [
    Mut('c08-intervals-kept-apart-by-a-floor', 'torchtree/evolution/coalescent.py', 'ConstantCoalescent.log_prob', 'durations = heights_sorted[..., 1:] - heights_sorted[..., :-1]',
        'durations = (heights_sorted[..., 1:] - heights_sorted[..., :-1]).clamp(min=1e-07)', expect=[('C08.T', 'coalescent::ConstantCoalescent.log_prob::')]),
    Mut('c08-growth-exponent-computed-in-place', 'torchtree/evolution/coalescent.py', '', "        height_growth_exp = torch.exp(heights_sorted * self.growth)\n",
        "        height_growth_exp = heights_sorted.mul_(self.growth).exp_()\n", mode='text', expect=[('C08.T', 'no-in-place-update-of-a-value-read-later')]),
    Mut('c08-benign-growth-exponent-through-a-local', 'torchtree/evolution/coalescent.py', '', "        height_growth_exp = torch.exp(heights_sorted * self.growth)\n",
        "        exponent = heights_sorted * self.growth\n        height_growth_exp = torch.exp(exponent)\n", mode='text', benign=True),
]
