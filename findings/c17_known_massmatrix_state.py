"""KNOWN (C17.C): MassMatrixAdaptor does not checkpoint its sliding window of samples (_values) nor the second
variance estimator (variance_estimator2, swap_every): a resumed run estimates a different mass matrix than the
uninterrupted run.  Exit 1 while the defect is present."""
import json, torch
from torchtree.core.parameter import Parameter
from torchtree.inference.hmc.adaptation import MassMatrixAdaptor
def make(**kw):
    p = Parameter('p', torch.zeros(2)); m = Parameter('m', torch.ones(2))
    return p, MassMatrixAdaptor('mm', [p], m, **kw)
bad = 0
for kw in ({'variance_window': 1}, {'swap_every': 50}):
    torch.manual_seed(1)
    xs = torch.randn(160, 2)
    p, a = make(**kw)
    for i in range(120):
        p.tensor = xs[i]; a.learn(0.8, i, True)
    state = json.loads(json.dumps(a.state_dict()))
    p2, b = make(**kw)
    b.load_state_dict(state)
    for i in range(120, 160):
        p.tensor = xs[i]; a.learn(0.8, i, True)
        p2.tensor = xs[i]; b.learn(0.8, i, True)
    ok = torch.allclose(a.mass_matrix.tensor, b.mass_matrix.tensor)
    print(kw, 'OK' if ok else f'FAIL resumed mass matrix {b.mass_matrix.tensor.tolist()} vs uninterrupted {a.mass_matrix.tensor.tolist()}')
    bad += not ok
raise SystemExit(1 if bad else 0)
