"""C19.E / C19.N — the CLI builders do not crash for an option value the parser accepts.

C19.E  option-value exhaustiveness.  The option table (dest, choices, default, store_true) is read from
       the add_argument calls.  For every CLI function and every assignment of accepted values to the
       options its branch conditions test (also through a parameter bound to `arg.<dest>` at a call
       site), the CFG is specialised (edges of decided tests pruned; identical undecided test texts are
       given one common outcome) and a reaching-definition query is made for every read of a local:
       if the read is reachable but *no* definition of the name can reach it, executing it raises
       UnboundLocalError — the accepted option value has no handler.
C19.N  a tensor-only torch function applied to an expression made of Python numbers only raises
       TypeError whenever it is executed.
"""
from __future__ import annotations

import ast
import itertools
from typing import Dict, List, Optional, Set, Tuple

from sa.cfg import CFG
from sa.loader import AnalysisError, Unsupported, dotted_name, norm_text
from sa.report import where

CLI = 'torchtree.cli'
UNKNOWN = object()
_PROG = None


def cli_modules(ctx):
    return [m for name, m in sorted(ctx.prog.modules.items()) if name.startswith(CLI + '.') or name == CLI]


# ---------------------------------------------------------------------------
# option table
# ---------------------------------------------------------------------------
class Option:
    def __init__(self, dest):
        self.dest = dest
        self.values: Optional[Set] = None   # finite domain or None (free)
        self.free = False                   # free-form option represented by its default only
        self.numeric = False
        self.boundary: Set = set()
        self.where = ''

    def __repr__(self):
        return f"<{self.dest}: {self.values}>"


def const_expr(module, e, depth=0):
    """value of a constant expression: literals, module-level constants, list/tuple concatenation"""
    try:
        return ast.literal_eval(e)
    except Exception:
        pass
    if depth > 4:
        return UNKNOWN
    if isinstance(e, ast.Name):
        v = module.constants.get(e.id) if hasattr(module, 'constants') else None
        if v is None:
            imp = getattr(module, 'imports', {}).get(e.id)
            if imp and _PROG is not None:
                r = _PROG.resolve(imp) if isinstance(imp, str) else None
                if r and r[0] == 'const':
                    return const_expr(r[1], r[2], depth + 1)
            return UNKNOWN
        return const_expr(module, v, depth + 1)
    if isinstance(e, ast.BinOp) and isinstance(e.op, ast.Add):
        a, b = const_expr(module, e.left, depth + 1), const_expr(module, e.right, depth + 1)
        if a is UNKNOWN or b is UNKNOWN:
            return UNKNOWN
        try:
            return a + b
        except TypeError:
            return UNKNOWN
    if isinstance(e, (ast.List, ast.Tuple)):
        vals = [const_expr(module, x, depth + 1) for x in e.elts]
        return UNKNOWN if any(v is UNKNOWN for v in vals) else (list(vals) if isinstance(e, ast.List) else tuple(vals))
    return UNKNOWN


def module_const(module, name):
    return const_expr(module, ast.Name(id=name, ctx=ast.Load()))


def option_table(ctx) -> Dict[str, Option]:
    global _PROG
    _PROG = ctx.prog
    out: Dict[str, Option] = {}
    for m in cli_modules(ctx):
        for c in ast.walk(m.tree):
            if not (isinstance(c, ast.Call) and isinstance(c.func, ast.Attribute) and c.func.attr == 'add_argument'):
                continue
            flags = [a.value for a in c.args if isinstance(a, ast.Constant) and isinstance(a.value, str)]
            kw = {k.arg: k.value for k in c.keywords if k.arg}
            dest = None
            if 'dest' in kw and isinstance(kw['dest'], ast.Constant):
                dest = kw['dest'].value
            else:
                longs = [f for f in flags if f.startswith('--')]
                if longs:
                    dest = longs[0][2:].replace('-', '_')
                elif flags and not flags[0].startswith('-'):
                    dest = flags[0]
                elif flags:
                    dest = flags[0].lstrip('-')
            if dest is None:
                continue
            opt = Option(dest)
            opt.where = where(m, c)
            action = kw.get('action')
            act = action.value if isinstance(action, ast.Constant) else None
            required = isinstance(kw.get('required'), ast.Constant) and kw['required'].value is True
            default = UNKNOWN
            if 'default' in kw:
                try:
                    default = ast.literal_eval(kw['default'])
                except Exception:
                    default = UNKNOWN
            elif act == 'store_true':
                default = False
            elif act == 'store_false':
                default = True
            elif not required:
                default = None
            if act in ('store_true', 'store_false'):
                opt.values = {True, False}
            elif 'choices' in kw:
                ch = kw['choices']
                vals = const_expr(m, ch)
                if vals is not UNKNOWN and 'nargs' not in kw:
                    opt.values = set(vals)
                    if not required and default is not UNKNOWN:
                        opt.values.add(default)
                    elif not required:
                        opt.values = None
            tp = kw.get('type')
            opt.numeric = isinstance(tp, ast.Name) and tp.id in ('int',) and isinstance(default, int) and not isinstance(default, bool)
            if opt.values is None and default is not UNKNOWN and not required:
                # a free-form option (custom type=, number, string): the one value that is certainly accepted is its default
                opt.values = {default}
                opt.free = True
            if dest in out:
                # the same dest declared by several sub-commands: keep the union; free if any is free
                prev = out[dest]
                if prev.values is None or opt.values is None:
                    prev.values, prev.free = None, False
                elif prev.free or opt.free:
                    if not (prev.free and opt.free and prev.values == opt.values):
                        prev.values, prev.free = None, False
                else:
                    prev.values |= opt.values
            else:
                out[dest] = opt
    # numeric options compared with constants somewhere in the builders: the default plus one accepted value on the other side of each comparison
    for m in cli_modules(ctx):
        for c in ast.walk(m.tree):
            if isinstance(c, ast.Compare) and len(c.ops) == 1 and isinstance(c.left, ast.Attribute) and isinstance(c.left.value, ast.Name) \
                    and c.left.value.id in ('arg', 'args') and isinstance(c.comparators[0], ast.Constant) and isinstance(c.comparators[0].value, int) \
                    and not isinstance(c.comparators[0].value, bool):
                o = out.get(c.left.attr)
                if o is None or not o.free or not o.numeric:
                    continue
                k = c.comparators[0].value
                op = c.ops[0]
                extra = {ast.Gt: k + 1, ast.GtE: k, ast.Eq: k, ast.NotEq: k, ast.Lt: k, ast.LtE: k + 1}.get(type(op))
                if extra is not None:
                    o.boundary.add(extra)
    for o in out.values():
        if o.free and o.numeric and o.boundary:
            o.values = set(o.values) | o.boundary
            o.free = False
    return out


# ---------------------------------------------------------------------------
# three-valued evaluation of branch tests
# ---------------------------------------------------------------------------
class Env:
    def __init__(self, module, arg_names: Set[str], opts: Dict[str, object], params: Dict[str, object], texts: Dict[str, bool]):
        self.module, self.arg_names, self.opts, self.params, self.texts = module, arg_names, opts, params, texts

    def value(self, e):
        if isinstance(e, ast.Constant):
            return e.value
        if isinstance(e, ast.Attribute) and isinstance(e.value, ast.Name) and e.value.id in self.arg_names:
            return self.opts.get(e.attr, UNKNOWN)
        if isinstance(e, ast.Name):
            if e.id in self.params:
                return self.params[e.id]
            if e.id in self.arg_names:
                return UNKNOWN
            return module_const(self.module, e.id)
        if isinstance(e, (ast.Tuple, ast.List, ast.Set)):
            vals = [self.value(x) for x in e.elts]
            return UNKNOWN if any(v is UNKNOWN for v in vals) else tuple(vals)
        return UNKNOWN

    def test(self, t) -> Optional[bool]:
        """True / False / None (undecided)"""
        if isinstance(t, ast.BoolOp):
            vals = [self.test(v) for v in t.values]
            if isinstance(t.op, ast.And):
                if any(v is False for v in vals):
                    return False
                return True if all(v is True for v in vals) else None
            if any(v is True for v in vals):
                return True
            return False if all(v is False for v in vals) else None
        if isinstance(t, ast.UnaryOp) and isinstance(t.op, ast.Not):
            v = self.test(t.operand)
            return None if v is None else (not v)
        if isinstance(t, ast.Compare) and len(t.ops) == 1:
            a, b = self.value(t.left), self.value(t.comparators[0])
            op = t.ops[0]
            if a is not UNKNOWN and b is not UNKNOWN:
                try:
                    if isinstance(op, ast.Eq):
                        return a == b
                    if isinstance(op, ast.NotEq):
                        return a != b
                    if isinstance(op, ast.Is):
                        return a is b or (a == b and (a is None or isinstance(a, bool)))
                    if isinstance(op, ast.IsNot):
                        return not (a is b or (a == b and (a is None or isinstance(a, bool))))
                    if isinstance(op, ast.In):
                        return a in b
                    if isinstance(op, ast.NotIn):
                        return a not in b
                    if isinstance(op, ast.Gt):
                        return a > b
                    if isinstance(op, ast.GtE):
                        return a >= b
                    if isinstance(op, ast.Lt):
                        return a < b
                    if isinstance(op, ast.LtE):
                        return a <= b
                except TypeError:
                    return None
        else:
            v = self.value(t)
            if v is not UNKNOWN:
                return bool(v)
        key = norm_text(t)
        return self.texts.get(key)


def tests_of(cfg: CFG):
    return [n for n in cfg.nodes if n.kind == 'test' and isinstance(n.stmt, ast.If)]


def option_refs(fn, arg_names: Set[str]) -> Set[str]:
    out = set()
    for n in ast.walk(fn):
        if isinstance(n, ast.If) or isinstance(n, ast.IfExp):
            for x in ast.walk(n.test):
                if isinstance(x, ast.Attribute) and isinstance(x.value, ast.Name) and x.value.id in arg_names:
                    out.add(x.attr)
    return out


# ---------------------------------------------------------------------------
# names
# ---------------------------------------------------------------------------
def comprehension_names(e) -> Set[int]:
    """ids of Name nodes that live in a comprehension / lambda scope"""
    skip = set()
    for n in ast.walk(e):
        if isinstance(n, (ast.ListComp, ast.SetComp, ast.DictComp, ast.GeneratorExp)):
            bound = set()
            for g in n.generators:
                for x in ast.walk(g.target):
                    if isinstance(x, ast.Name):
                        bound.add(x.id)
            for x in ast.walk(n):
                if isinstance(x, ast.Name) and x.id in bound:
                    skip.add(id(x))
        elif isinstance(n, ast.Lambda):
            bound = {a.arg for a in n.args.args}
            for x in ast.walk(n.body):
                if isinstance(x, ast.Name) and x.id in bound:
                    skip.add(id(x))
    return skip


def node_exprs(n):
    st = n.stmt
    if st is None:
        return []
    if n.kind == 'stmt':
        if isinstance(st, (ast.FunctionDef, ast.AsyncFunctionDef, ast.ClassDef)):
            return []
        return [st]
    if n.kind == 'test':
        return [st.test]
    if n.kind == 'for':
        return [st.iter, st.target]
    if n.kind == 'with':
        return [i.context_expr for i in st.items] + [i.optional_vars for i in st.items if i.optional_vars is not None]
    return []


def defs_uses(n) -> Tuple[Set[str], List[Tuple[str, ast.AST]]]:
    defs: Set[str] = set()
    uses: List[Tuple[str, ast.AST]] = []
    st = n.stmt
    if st is None:
        return defs, uses
    if n.kind == 'stmt' and isinstance(st, (ast.FunctionDef, ast.AsyncFunctionDef, ast.ClassDef)):
        defs.add(st.name)
        return defs, uses
    if n.kind == 'handler':
        if st.name:
            defs.add(st.name)
        return defs, uses
    for e in node_exprs(n):
        skip = comprehension_names(e)
        for x in ast.walk(e):
            if isinstance(x, ast.Name) and id(x) not in skip:
                if isinstance(x.ctx, ast.Store):
                    defs.add(x.id)
                elif isinstance(x.ctx, ast.Load):
                    uses.append((x.id, x))
            elif isinstance(x, (ast.Import, ast.ImportFrom)):
                for a in x.names:
                    defs.add((a.asname or a.name).split('.')[0])
    if n.kind == 'stmt' and isinstance(st, ast.AugAssign) and isinstance(st.target, ast.Name):
        uses.append((st.target.id, st.target))
    return defs, uses


# ---------------------------------------------------------------------------
# the analysis
# ---------------------------------------------------------------------------
def specialised_reach(cfg: CFG, env: Env):
    """successor map with decided test edges pruned"""
    succ = {}
    for n in cfg.nodes:
        outs = list(n.succ)
        if n.kind == 'test' and isinstance(n.stmt, ast.If):
            v = env.test(n.stmt.test)
            if v is not None:
                keep = 'true' if v else 'false'
                outs = [m for m in n.succ if cfg.edge_label.get((n.id, m.id)) in (keep, 'both', None, 'exc')]
        succ[n.id] = outs
    return succ


def reach_from(succ, start_ids, nodes_by_id):
    seen = set()
    stack = list(start_ids)
    while stack:
        i = stack.pop()
        for m in succ[i]:
            if m.id not in seen:
                seen.add(m.id)
                stack.append(m.id)
    return seen


def param_bindings(ctx, fn, modules, arg_like: Set[str]) -> Dict[str, Set[str]]:
    """parameter -> set of option dests it is bound to (`arg.<dest>`) at some call site in the CLI"""
    out: Dict[str, Set[str]] = {}
    params = [a.arg for a in fn.args.args]
    for m in modules:
        for c in ast.walk(m.tree):
            if isinstance(c, ast.Call) and ((isinstance(c.func, ast.Name) and c.func.id == fn.name) or (isinstance(c.func, ast.Attribute) and c.func.attr == fn.name)):
                for i, a in enumerate(c.args):
                    if i < len(params) and isinstance(a, ast.Attribute) and isinstance(a.value, ast.Name) and a.value.id in arg_like:
                        out.setdefault(params[i], set()).add(a.attr)
                for k in c.keywords:
                    if k.arg in params and isinstance(k.value, ast.Attribute) and isinstance(k.value.value, ast.Name) and k.value.value.id in arg_like:
                        out.setdefault(k.arg, set()).add(k.value.attr)
    return out


ARG_NAMES = {'arg', 'args'}
MAX_ENVS = 4096


class FnInfo:
    def __init__(self, module, fn):
        self.module, self.fn = module, fn
        self.params = {a.arg for a in fn.args.args + fn.args.kwonlyargs} | ({fn.args.vararg.arg} if fn.args.vararg else set()) | ({fn.args.kwarg.arg} if fn.args.kwarg else set())
        self.cfg = CFG(fn)
        self.du = {n.id: defs_uses(n) for n in self.cfg.nodes}
        self.by_id = {n.id: n for n in self.cfg.nodes}

    def stmt_node_of(self, node):
        """CFG node of the statement that contains `node` (None inside a nested def)"""
        p = node
        while p is not None and p is not self.fn:
            if id(p) in self.cfg.by_stmt:
                return self.cfg.by_stmt[id(p)]
            if isinstance(p, (ast.FunctionDef, ast.Lambda)) and p is not self.fn:
                pass
            p = getattr(p, '_parent', None)
        return None


class Flow:
    def __init__(self, ctx):
        self.ctx = ctx
        self.mods = cli_modules(ctx)
        self.opts = option_table(ctx)
        self.fin = {d: o for d, o in self.opts.items() if o.values is not None and not o.free}
        self.free_default = {d: next(iter(o.values)) for d, o in self.opts.items() if o.free}
        self.fns: Dict[str, List[FnInfo]] = {}
        for m in self.mods:
            for fn in [n for n in ast.walk(m.tree) if isinstance(n, ast.FunctionDef)]:
                try:
                    self.fns.setdefault(fn.name, []).append(FnInfo(m, fn))
                except Exception:
                    continue
        # call sites: callee name -> [(caller info, call node)]
        self.sites: Dict[str, List[Tuple[FnInfo, ast.Call]]] = {}
        self.referenced: Set[str] = set()
        for infos in self.fns.values():
            for fi in infos:
                for c in ast.walk(fi.fn):
                    if isinstance(c, ast.Call):
                        n = c.func.id if isinstance(c.func, ast.Name) else (c.func.attr if isinstance(c.func, ast.Attribute) else None)
                        if n in self.fns and enclosing_fn(c) is fi.fn:
                            self.sites.setdefault(n, []).append((fi, c))
                    elif isinstance(c, ast.Name) and isinstance(c.ctx, ast.Load) and c.id in self.fns and not isinstance(getattr(c, '_parent', None), ast.Call):
                        self.referenced.add(c.id)     # passed around as a value (set_defaults(func=…), map(…))
                    elif isinstance(c, ast.keyword) and isinstance(c.value, ast.Name) and c.value.id in self.fns:
                        self.referenced.add(c.value.id)

    def env(self, module, o_env, p_env, texts, with_free=True):
        opts = dict(self.free_default) if with_free else {}
        opts.update(o_env)
        return Env(module, ARG_NAMES, opts, p_env, texts)

    def feasible(self, name: str, o_env: Dict[str, object], depth=0, seen=None) -> bool:
        """some chain of calls from an entry point reaches function `name` under the option values o_env"""
        seen = seen or set()
        if name in seen or depth > 8:
            return True
        if name in self.referenced or name not in self.sites:
            return True
        seen = seen | {name}
        for fi, call in self.sites[name]:
            n = fi.stmt_node_of(call)
            if n is None:
                return True
            env = self.env(fi.module, o_env, {}, {})
            succ = specialised_reach(fi.cfg, env)
            live = reach_from(succ, [fi.cfg.entry.id], fi.by_id) | {fi.cfg.entry.id}
            if n.id in live and self.feasible(fi.fn.name, o_env, depth + 1, seen):
                return True
        return False


def enclosing_fn(n):
    p = getattr(n, '_parent', None)
    while p is not None and not isinstance(p, (ast.FunctionDef, ast.AsyncFunctionDef)):
        p = getattr(p, '_parent', None)
    return p


def check_exhaustive(ctx, rep):
    fl = Flow(ctx)
    if len(fl.opts) < 40:
        raise AnalysisError(f"only {len(fl.opts)} options found in the CLI parsers")
    rep.analysed['cli_options'] = len(fl.opts)
    rep.analysed['cli_options_with_finite_domain'] = sorted(fl.fin)
    n_fn = n_env = n_reads = 0
    for name in sorted(fl.fns):
        for fi in fl.fns[name]:
            m, fn, cfg, du = fi.module, fi.fn, fi.cfg, fi.du
            local = set().union(*(d for d, _ in du.values())) - fi.params if du else set()
            reads = [(n, nm, x) for n in cfg.nodes for nm, x in du[n.id][1] if nm in local]
            if not reads:
                continue
            n_fn += 1
            refs = sorted(o for o in option_refs(fn, ARG_NAMES) if o in fl.fin)
            pb = {p: sorted(d for d in ds if d in fl.fin) for p, ds in param_bindings(ctx, fn, fl.mods, ARG_NAMES).items()}
            pb = {p: ds for p, ds in pb.items() if ds}
            texts: Dict[str, int] = {}
            for t in tests_of(cfg):
                for sub in ([t.stmt.test] + (list(t.stmt.test.values) if isinstance(t.stmt.test, ast.BoolOp) else [])):
                    texts[norm_text(sub)] = texts.get(norm_text(sub), 0) + 1
            dims: List[Tuple[str, str, list]] = [('opt', o, sorted(fl.fin[o].values, key=repr)) for o in refs]
            for p, ds in pb.items():
                dims.append(('param', p, sorted(set().union(*(fl.fin[d].values for d in ds)), key=repr)))
            size = 1
            for _, _, v in dims:
                size *= max(1, len(v))
            dims = sorted(dims, key=lambda d: len(d[2]))
            dropped = []
            while size > MAX_ENVS and dims:
                size //= max(1, len(dims[-1][2]))
                dropped.append(dims.pop()[1])
            bad: Dict[Tuple[str, int], List[str]] = {}
            checked = set()
            feas_cache: Dict[tuple, bool] = {}
            for combo in (itertools.product(*[v for _, _, v in dims]) if dims else [()]):
                o_env = {nm: val for (kind, nm, _), val in zip(dims, combo) if kind == 'opt'}
                p_env = {nm: val for (kind, nm, _), val in zip(dims, combo) if kind == 'param'}
                fk = tuple(sorted(o_env.items(), key=repr))
                if fk not in feas_cache:
                    feas_cache[fk] = fl.feasible(fn.name, o_env)
                if not feas_cache[fk]:
                    continue
                env0 = fl.env(m, o_env, p_env, {})
                rep_texts = sorted(k for k, c in texts.items() if c > 1 and env0.test(ast.parse(k, mode='eval').body) is None)[:6]
                for tv in itertools.product([True, False], repeat=len(rep_texts)):
                    tx = dict(zip(rep_texts, tv))
                    n_env += 1
                    # reads: reachable with every known value applied (finite options + defaults of free-form options)
                    succ_all = specialised_reach(cfg, fl.env(m, o_env, p_env, tx, with_free=True))
                    live = reach_from(succ_all, [cfg.entry.id], fi.by_id) | {cfg.entry.id}
                    # definitions: only the finite-domain values may cut a definition off
                    succ_fin = specialised_reach(cfg, fl.env(m, o_env, p_env, tx, with_free=False))
                    live_fin = reach_from(succ_fin, [cfg.entry.id], fi.by_id) | {cfg.entry.id}
                    def_nodes: Dict[str, List[int]] = {}
                    for n in cfg.nodes:
                        if n.id in live_fin:
                            for d in du[n.id][0]:
                                def_nodes.setdefault(d, []).append(n.id)
                    reach_cache: Dict[str, Set[int]] = {}
                    for n, nm, x in reads:
                        if n.id not in live:
                            continue
                        checked.add((nm, getattr(x, 'lineno', 0)))
                        if nm not in reach_cache:
                            reach_cache[nm] = reach_from(succ_fin, def_nodes.get(nm, []), fi.by_id)
                        if n.id not in reach_cache[nm]:
                            desc = ', '.join(f"{k}={v!r}" for k, v in {**o_env, **p_env}.items()) or 'any options'
                            bad.setdefault((nm, getattr(x, 'lineno', 0)), []).append(desc)
            n_reads += len(checked)
            fkey = f"{m.name.split('.')[-1]}.{fn.name}"
            reported = set()
            for (nm, line) in sorted(checked, key=lambda t: (t[1], t[0])):
                if (nm, line) in bad and nm not in reported:
                    reported.add(nm)
                    envs = sorted(set(bad[(nm, line)]))
                    rep.bad('C19.E', f"{fkey}::{nm}", f"{m.path}:{line}", {'environments': envs[:8], 'count': len(envs), 'line': line},
                            f"{fn.name}(): `{nm}` is read at line {line} but under the accepted option values [{envs[0]}] no assignment to it can reach that read: "
                            f"the option value has no handler and the CLI raises UnboundLocalError instead of emitting a configuration")
            ok_names = sorted({nm for (nm, line) in checked} - reported)
            if ok_names or not reported:
                rep.ok('C19.E', f"{fkey}::locals-defined-under-every-accepted-option-value", where(m, fn),
                       {'locals': len(ok_names), 'dimensions': [f"{k}:{n}({len(v)})" for k, n, v in dims], 'not_enumerated': dropped})
    rep.analysed['C19.E'] = {'functions': n_fn, 'environments': n_env, 'reads_checked': n_reads}
    if n_fn < 40:
        raise AnalysisError(f"only {n_fn} CLI functions analysed")


# ---------------------------------------------------------------------------
# C19.N
# ---------------------------------------------------------------------------
TENSOR_ONLY = {'log', 'exp', 'sqrt', 'log1p', 'expm1', 'lgamma', 'digamma', 'sigmoid', 'tanh', 'abs', 'cumsum', 'sum', 'mean', 'logsumexp', 'softmax', 'isinf', 'isnan',
               'log10', 'log2', 'rsqrt', 'reciprocal', 'square', 'erf', 'erfinv', 'sin', 'cos'}


def is_pynum(e, fn) -> bool:
    if isinstance(e, ast.Constant):
        return isinstance(e.value, (int, float)) and not isinstance(e.value, bool)
    if isinstance(e, ast.BinOp):
        return is_pynum(e.left, fn) and is_pynum(e.right, fn)
    if isinstance(e, ast.UnaryOp) and isinstance(e.op, (ast.USub, ast.UAdd)):
        return is_pynum(e.operand, fn)
    if isinstance(e, ast.Call) and isinstance(e.func, ast.Name) and e.func.id in ('float', 'int', 'len'):
        return True
    if isinstance(e, ast.Call) and (dotted_name(e.func) or '') in ('math.log', 'math.exp', 'math.sqrt'):
        return True
    return False


def check_pynum(ctx, rep):
    n = 0
    for m in cli_modules(ctx):
        for c in ast.walk(m.tree):
            if isinstance(c, ast.Call) and isinstance(c.func, ast.Attribute) and isinstance(c.func.value, ast.Name) and c.func.value.id == 'torch' and c.func.attr in TENSOR_ONLY and c.args:
                n += 1
                fn = None
                p = getattr(c, '_parent', None)
                while p is not None and not isinstance(p, ast.FunctionDef):
                    p = getattr(p, '_parent', None)
                fname = p.name if p is not None else '<module>'
                key = f"{m.name.split('.')[-1]}.{fname}::{norm_text(c)[:50]}"
                rep.check('C19.N', key, not is_pynum(c.args[0], p), where(m, c), None,
                          f"{fname}(): `{norm_text(c)[:60]}` applies a tensor-only function to a plain Python number: TypeError whenever this branch runs, "
                          f"so the CLI stops instead of emitting a configuration")
    if n < 5:
        raise AnalysisError(f"only {n} torch elementwise calls found in the CLI")
