from sa.selftest import Mut

BDSK = 'torchtree/evolution/bdsk.py'
BD = 'torchtree/evolution/birth_death.py'
COAL = 'torchtree/evolution/coalescent.py'
OPT = 'torchtree/optim/optimizer.py'

CORPUS = [
    Mut('c09-original-option', BDSK, 'BDSKModel.from_json', "if 'removal_probability' in data:…",
        "optionals['removal_probability'] = data.get('relative_times', None)", expect=[('C09.O', 'BDSKModel::removal_probability')]),
    Mut('c09-survival-from-wrong-key', BDSK, 'BDSKModel.from_json', "optionals['survival'] = data.get('survival', True)",
        "optionals['survival'] = data.get('origin_is_root_edge', True)", expect=[('C09.O', 'BDSKModel::survival')]),
    Mut('c09-rho-from-origin', BDSK, 'BDSKModel.from_json', "optionals['rho'] = process_object(data['rho'], dic)",
        "optionals['rho'] = process_object(data['origin'], dic)", expect=[('C09.O', 'BDSKModel::rho')]),
    Mut('c09-times-raw', BDSK, 'BDSKModel.from_json', "optionals['times'] = Parameter(None, torch.tensor(data['times']))",
        "optionals['times'] = Parameter(None, data['times'])", expect=[('C09.O', "Parameter(data['times'])")]),
    Mut('c09-bd-survival-key', BD, 'BirthDeathModel.from_json', "optionals['survival'] = data.get('survival', True)",
        "optionals['survival'] = data.get('surival', True)", expect=[('C09.O', 'BirthDeathModel::survival')]),
    Mut('c09-call-kw-swapped', BDSK, 'BDSKModel._call', 'bdsk = PiecewiseConstantBirthDeath(…',
        'bdsk = PiecewiseConstantBirthDeath(lambda_, mu, psi, rho=torch.zeros(1) if self.rho is None else self.rho.tensor, origin=self.origin.tensor, '
        'origin_is_root_edge=self.origin_is_root_edge, times=None if self.times is None else self.times.tensor, relative_times=self.survival, '
        'survival=self.relative_times, removal_probability=r)', expect=[('C09.K', 'BDSKModel._call::relative_times'), ('C09.K', 'BDSKModel._call::survival')]),
    Mut('c09-conversion-mu', BDSK, 'epidemiology_to_birth_death', 'mu = delta - s * delta', 'mu = delta - s', nth=0, expect=[('C09.K', 'epidemiology_to_birth_death')]),
    Mut('c09-conversion-removal', BDSK, 'epidemiology_to_birth_death', 'mu = delta - psi * r', 'mu = delta - psi', expect=[('C09.K', 'epidemiology_to_birth_death')]),
    Mut('c09-call-undefined', BD, 'BirthDeathModel._call', 'lambda_ = self.lambda_.tensor', 'lambda_ = self.R.tensor * self.delta.tensor',
        expect=[('C09.U', 'BirthDeathModel::_call')]),
    Mut('c09-sampleshape-undefined', BDSK, 'BDSKModel._sample_shape', 'return max(self.tree_model.node_heights.shape[:-1], self.R.shape[:-1], self.delta.shape[:-1], key=len)',
        'return max(self.tree_model.node_heights.shape[:-1], self.lambda_.shape[:-1], key=len)', expect=[('C09.U', 'BDSKModel::_sample_shape')]),
    Mut('c09-logq-const-sign', BD, 'BirthDeath.log_q', 'return torch.log(4.0 * e / torch.pow(e * (1.0 + B) + (1.0 - B), 2))',
        'return torch.log(4.0 * e / torch.pow(e * (1.0 - B) + (1.0 + B), 2))', expect=[('C09.F', 'log_q::constant'), ('C09.F', 'log_q::siblings-agree')]),
    Mut('c09-logq-sky-power', BDSK, 'PiecewiseConstantBirthDeath.log_q', 'return torch.log(4.0 * e / torch.pow(e * (1.0 + B) + (1.0 - B), 2))',
        'return torch.log(4.0 * e / (e * (1.0 + B) + (1.0 - B)))', expect=[('C09.F', 'log_q::skyline')]),
    Mut('c09-A-missing-4', BD, 'BirthDeath.log_p', 'A = torch.sqrt(torch.pow(self.lambda_ - self.mu - self.psi, 2.0) + 4.0 * self.lambda_ * self.psi)',
        'A = torch.sqrt(torch.pow(self.lambda_ - self.mu - self.psi, 2.0) + 2.0 * self.lambda_ * self.psi)', expect=[('C09.F', 'A::constant')]),
    Mut('c09-B-sky-rho', BDSK, 'PiecewiseConstantBirthDeath.log_p',
        'B[..., i] += ((1.0 - 2.0 * (1.0 - rho[..., i]) * p[..., i + 1].clone()) * self.lambda_[..., i] + self.mu[..., i] + self.psi[..., i]) / A[..., i]',
        'B[..., i] += ((1.0 - 2.0 * rho[..., i] * p[..., i + 1].clone()) * self.lambda_[..., i] + self.mu[..., i] + self.psi[..., i]) / A[..., i]',
        expect=[('C09.F', 'B::skyline-last-epoch')]),
    Mut('c09-p-const-denominator', BD, 'BirthDeath.log_p', 'p = (self.lambda_ + self.mu + self.psi - A * (term - one_minus_Bi) / (term + one_minus_Bi)) / (2.0 * self.lambda_)',
        'p = (self.lambda_ + self.mu + self.psi - A * (term - one_minus_Bi) / (term + one_minus_Bi)) / (2.0 * self.mu)', expect=[('C09.F', 'p::constant')]),
    Mut('c09-q0-wrong', BD, 'BirthDeath.log_prob', 'q0 = 4.0 * e / torch.pow(e * (1.0 - B) + (1.0 + B), 2)', 'q0 = 4.0 * e / torch.pow(e * (1.0 + B) + (1.0 - B), 2)',
        expect=[('C09.F', 'constant::q0-is-log_q-at-zero')]),
    # benign
    Mut('c09-benign-logq-reorder', BDSK, 'PiecewiseConstantBirthDeath.log_q', 'return torch.log(4.0 * e / torch.pow(e * (1.0 + B) + (1.0 - B), 2))',
        'return torch.log(e * 4.0 / torch.pow((1.0 - B) + (1.0 + B) * e, 2))', benign=True),
    Mut('c09-benign-option-guard', BDSK, 'BDSKModel.from_json', "optionals['survival'] = data.get('survival', True)",
        "if 'survival' in data:\n    optionals['survival'] = data['survival']", benign=True),
    Mut('c09-origin-updated-in-place', 'torchtree/evolution/bdsk.py', '', "                origin = origin + node_heights[..., -1:]", "                origin += node_heights[..., -1:]", expect=[('C09.P', 'PiecewiseConstantBirthDeath.log_prob::in-place-update-of-origin')], mode='text'),
    Mut('c09-benign-origin-out-of-place', 'torchtree/evolution/bdsk.py', '', "                origin = origin + node_heights[..., -1:]", "                origin = node_heights[..., -1:] + origin", benign=True, mode='text'),
    Mut('c09-rho-padded-after', 'torchtree/evolution/birth_death.py', '', "                    torch.zeros(\n                        self.rho.shape[:-1] + (lambda_.shape[-1] - self.rho.shape[-1],)\n                    ),\n                    self.rho.tensor,\n",
        "                    self.rho.tensor,\n                    torch.zeros(\n                        self.rho.shape[:-1] + (lambda_.shape[-1] - self.rho.shape[-1],)\n                    ),\n", expect=[('C09.R', 'birth_death._call::rho-padded-with-leading-zeros')], mode='text'),
    Mut('c09-births-on-a-boundary-counted-twice', 'torchtree/evolution/bdsk.py', '', "                torch.sum(x.unsqueeze(-2) < times[..., 1:].unsqueeze(-1), -1)\n", "                torch.sum(x.unsqueeze(-2) <= times[..., 1:].unsqueeze(-1), -1)\n",
        expect=[('C09.B', 'births-on-a-boundary')], mode='text'),
    Mut('c09-births-epoch-index-other-side', 'torchtree/evolution/bdsk.py', '', "        indices_x = torch.searchsorted(times, x, right=True) - 1\n", "        indices_x = torch.clamp(torch.searchsorted(times, x, right=False) - 1, min=0)\n",
        expect=[('C09.B', 'births-on-a-boundary')], mode='text'),
    Mut('c09-benign-boundary-count-written-the-other-way-round', 'torchtree/evolution/bdsk.py', '', "                torch.sum(x.unsqueeze(-2) < times[..., 1:].unsqueeze(-1), -1)\n", "                torch.sum(times[..., 1:].unsqueeze(-1) > x.unsqueeze(-2), -1)\n",
        benign=True, mode='text'),
    Mut('c09-conversion-without-removal-probability', 'torchtree/evolution/bdsk.py', '', "            self.R.tensor, self.delta.tensor, self.s.tensor, r\n", "            self.R.tensor, self.delta.tensor, self.s.tensor\n",
        expect=[('C09.K', 'conversion-receives-r')], mode='text'),
    Mut('c09-rho-of-present-tips-from-the-preceding-epoch', 'torchtree/evolution/bdsk.py', '', "                * rho.gather(-1, indices_y)\n", "                * rho.gather(-1, torch.clamp(indices_y - 1, min=0))\n",
        expect=[('C09.I', 'rho-of-a-tip-on-a-boundary::present')], mode='text'),
    Mut('c09-tip-times-measured-from-the-origin', 'torchtree/evolution/bdsk.py', '', "        y = times[..., -1:] - tip_heights\n", "        y = origin - tip_heights\n",
        expect=[('C09.E', 'y-measured-from-the-last-grid-point')], mode='text'),
    Mut('c09-benign-tip-times-renamed', 'torchtree/evolution/bdsk.py', '', "        y = times[..., -1:] - tip_heights\n", "        y = times[..., -1:] - tip_heights  # time of the tips, forward in time\n",
        benign=True, mode='text'),
]
CORPUS += [
    Mut('c09-from-json-defaults-kept-on-the-class', 'torchtree/evolution/birth_death.py', 'BirthDeathModel.from_json', 'optionals = {}', 'optionals = cls._json_options',
        expect=[('C09.S', 'BirthDeathModel.from_json::leaves-the-class-unchanged')],
        more=[dict(scope='', old="    def _sample_shape(self) -> torch.Size:\n        return max(\n            self.tree_model.node_heights.shape[:-1], self.lambda_.shape[:-1], key=len\n        )\n", new="    _json_options = {'survival': True}\n\n    def _sample_shape(self) -> torch.Size:\n        return max(\n            self.tree_model.node_heights.shape[:-1], self.lambda_.shape[:-1], key=len\n        )\n", mode='text')]),
    Mut('c09-benign-from-json-copies-the-class-defaults', 'torchtree/evolution/birth_death.py', 'BirthDeathModel.from_json', 'optionals = {}', 'optionals = dict(cls._json_options)', benign=True,
        more=[dict(scope='', old="    def _sample_shape(self) -> torch.Size:\n        return max(\n            self.tree_model.node_heights.shape[:-1], self.lambda_.shape[:-1], key=len\n        )\n", new="    _json_options = {'survival': True}\n\n    def _sample_shape(self) -> torch.Size:\n        return max(\n            self.tree_model.node_heights.shape[:-1], self.lambda_.shape[:-1], key=len\n        )\n", mode='text')]),
    Mut('c09-single-epoch-fast-path-ignores-the-root-edge-option', 'torchtree/evolution/bdsk.py', 'BDSKModel._call', 'bdsk = PiecewiseConstantBirthDeath(…',
        "if lambda_.shape[-1] == 1 and self.rho is None and self.times is None and r is None:\n    return PiecewiseConstantBirthDeath(lambda_, mu, psi, origin=self.origin.tensor, survival=self.survival).log_prob(self.tree_model.node_heights)\nbdsk = PiecewiseConstantBirthDeath(lambda_, mu, psi, rho=torch.zeros(1) if self.rho is None else self.rho.tensor, origin=self.origin.tensor, origin_is_root_edge=self.origin_is_root_edge, times=None if self.times is None else self.times.tensor, relative_times=self.relative_times, survival=self.survival, removal_probability=r)",
        expect=[('C09.K', 'BDSKModel._call::PiecewiseConstantBirthDeath-is-configured-by-every-option-of-the-model')]),
    Mut('c09-tip-on-an-event-decided-with-a-tolerance', 'torchtree/evolution/bdsk.py', '', "times.unsqueeze(-2) == y.unsqueeze(-1)", "torch.isclose(times.unsqueeze(-2), y.unsqueeze(-1))", mode='text',
        expect=[('C09.E', 'tip-on-an-event-is-an-exact-test')]),
]
CORPUS += [
    Mut('c09-extinction-probabilities-in-a-default-precision-array', 'torchtree/evolution/bdsk.py', '', "        p = torch.ones(self.mu.shape[:-1] + (m + 1,), dtype=self.mu.dtype)\n",
        "        p = torch.ones(self.mu.shape[:-1] + (m + 1,), device=self.mu.device)\n", mode='text', expect=[('C09.T', 'evolution.bdsk::PiecewiseConstantBirthDeath.log_p::buffer::')]),
    Mut('c09-benign-extinction-probabilities-from-ones-like', 'torchtree/evolution/bdsk.py', '', "        p = torch.ones(self.mu.shape[:-1] + (m + 1,), dtype=self.mu.dtype)\n",
        "        p = torch.ones(self.mu.shape[:-1] + (m + 1,), dtype=self.mu.dtype, device=self.mu.device)\n", mode='text', benign=True),
    Mut('c09-epochs-looked-up-in-the-grid-of-the-first-sample', 'torchtree/evolution/bdsk.py', '', "        indices_x = torch.searchsorted(times, x, right=True) - 1\n",
        "        indices_x = torch.bucketize(x, times.reshape(-1, times.shape[-1])[0], right=True) - 1\n", mode='text', expect=[('C09.A', 'rows::evolution.bdsk.PiecewiseConstantBirthDeath.log_prob::')]),
]
CORPUS += [
    Mut('c09-rho-domain-tightened-in-the-skyline-only', 'torchtree/evolution/bdsk.py', '', "        'rho': constraints.unit_interval,\n    }\n    support = constraints.nonnegative\n",
        "        'rho': constraints.half_open_interval(0.0, 1.0),\n    }\n    support = constraints.nonnegative\n", mode='text', expect=[('C09.F', 'arg_constraints::rho::siblings-agree')]),
    Mut('c09-benign-nonnegative-spelt-as-greater-than-eq', 'torchtree/evolution/bdsk.py', '', "        'lambda_': constraints.nonnegative,\n        'mu': constraints.positive,\n        'psi': constraints.nonnegative,\n",
        "        'lambda_': constraints.greater_than_eq(0.0),\n        'mu': constraints.positive,\n        'psi': constraints.nonnegative,\n", mode='text', benign=True),
    Mut('c09-model-hands-the-last-rho-only', 'torchtree/evolution/bdsk.py', '', "            rho=torch.zeros(1) if self.rho is None else self.rho.tensor,\n",
        "            rho=torch.zeros(1) if self.rho is None else self.rho.tensor[..., -1:],\n", mode='text', expect=[('C09.K', 'BDSKModel._call::rho::whole-parameter')]),
]
