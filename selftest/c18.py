from sa.selftest import Mut

PU = 'torchtree/core/parameter_utils.py'
OPT = 'torchtree/optim/optimizer.py'
MCMC = 'torchtree/inference/mcmc/mcmc.py'

ORIGINAL = '''
if overwrite or (not safely or not os.path.lexists(file_name)):
    with open(file_name, 'w') as fp:
        json.dump(parameters, fp, cls=ParameterEncoder, indent=2)
else:
    with open(file_name + '.new', 'w') as fp:
        json.dump(parameters, fp, cls=ParameterEncoder, indent=2)
    os.rename(file_name, file_name + '.old')
    os.rename(file_name + '.new', file_name)
    os.remove(file_name + '.old')
'''

CORPUS = [
    Mut('c18-original-protocol', PU, 'save_parameters', 'if not safely:…', ORIGINAL,
        expect=[('C18.I1', 'overwrite=False'), ('C18.I2', 'overwrite=False'), ('C18.I1', 'overwrite=True')],
        note='the pinned code: direct write after an interrupted rename pair / overwrite=True'),
    Mut('c18-overwrite-direct', PU, 'save_parameters', 'if not safely:…', '''
if overwrite or not safely:
    with open(file_name, 'w') as fp:
        json.dump(parameters, fp, cls=ParameterEncoder, indent=2)
else:
    with open(file_name + '.new', 'w') as fp:
        json.dump(parameters, fp, cls=ParameterEncoder, indent=2)
    os.replace(file_name + '.new', file_name)
''', expect=[('C18.I1', 'overwrite=True'), ('C18.I2', 'overwrite=True')]),
    Mut('c18-remove-then-rename', PU, 'save_parameters', "os.replace(file_name + '.new', file_name)", '''
os.remove(file_name)
os.rename(file_name + '.new', file_name)
''', expect=[('C18.I1', 'overwrite=False')], note='window with name absent; a second interrupted write loses everything'),
    Mut('c18-copy-over', PU, 'save_parameters', "os.replace(file_name + '.new', file_name)", '''
shutil.copyfile(file_name + '.new', file_name)
os.remove(file_name + '.new')
''', expect=[('C18.I2', 'overwrite=False')]),
    Mut('c18-write-in-place', PU, 'save_parameters', 'if not safely:…', '''
with open(file_name, 'w') as fp:
    json.dump(parameters, fp, cls=ParameterEncoder, indent=2)
''', expect=[('C18.I1', 'overwrite=False'), ('C18.I2', 'overwrite=False')]),
    Mut('c18-old-protocol-no-guard', PU, 'save_parameters', "os.replace(file_name + '.new', file_name)", '''
os.rename(file_name, file_name + '.old')
os.rename(file_name + '.new', file_name)
os.remove(file_name + '.old')
''', expect=[('C18.X', 'overwrite=False')], note='after a crash between the renames every later checkpoint raises FileNotFoundError'),
    Mut('c18-caller-unsafe', OPT, 'Optimizer._run', 'self.save_full_state(self.checkpoint)',
        'self.save_full_state(self.checkpoint, safely=False)',
        expect=[('C18.I1', 'safely=False'), ('C18.I2', 'safely=False')]),
    Mut('c18-caller-unsafe-positional', 'torchtree/inference/hmc/hmc.py', 'HMC.run',
        'save_parameters(self.checkpoint, self.parameters)', 'save_parameters(self.checkpoint, self.parameters, False)',
        expect=[('C18.I2', 'safely=False')]),
    Mut('c18-mcmc-direct-open', MCMC, 'MCMC.save_full_state', 'save_parameters(self.checkpoint, full_state)', '''
with open(self.checkpoint, 'w') as fp:
    json.dump(full_state, fp, cls=ParameterEncoder, indent=2)
''', expect=[('C18.W', 'MCMC')]),
    Mut('c18-caller-removes-the-checkpoint-first', OPT, 'Optimizer.save_full_state', 'save_parameters(checkpoint, full_state, safely, overwrite)', """
if overwrite and os.path.lexists(checkpoint):
    os.remove(checkpoint)
save_parameters(checkpoint, full_state, safely, overwrite)
""", expect=[('C18.I1', 'caller::torchtree.optim.optimizer.Optimizer.save_full_state')],
        more=[dict(scope='', old="import copy\n", new="import copy\nimport os\n", mode='text')],
        note='the parameter handed to the writer as its path is the checkpoint name: removing it first leaves a crash window without any complete file'),
    Mut('c18-caller-writes-through-a-renamed-temporary', OPT, 'Optimizer.save_full_state', 'save_parameters(checkpoint, full_state, safely, overwrite)', """
tmp = checkpoint.replace('.json', '.tmp.json')
save_parameters(tmp, full_state, safely, overwrite)
shutil.move(tmp, checkpoint)
""", expect=[('C18.I1', 'caller::torchtree.optim.optimizer.Optimizer.save_full_state')],
        more=[dict(scope='', old="import copy\n", new="import copy\nimport shutil\n", mode='text')],
        note="str.replace returns the name itself when '.json' does not occur in it: the temporary may be the checkpoint"),
    Mut('c18-benign-caller-removes-an-unrelated-file', OPT, 'Optimizer.save_full_state', 'save_parameters(checkpoint, full_state, safely, overwrite)', """
if os.path.lexists(checkpoint + '.lock'):
    os.remove(checkpoint + '.lock')
save_parameters(checkpoint, full_state, safely, overwrite)
""", benign=True,
        more=[dict(scope='', old="import copy\n", new="import copy\nimport os\n", mode='text')]),
    # benign twins
    Mut('c18-benign-tmp-variable', PU, 'save_parameters', 'if not safely:…', '''
if not safely:
    with open(file_name, 'w') as fp:
        json.dump(parameters, fp, cls=ParameterEncoder, indent=2)
else:
    tmp = f"{file_name}.new"
    with open(tmp, mode='w') as out:
        json.dump(parameters, out, cls=ParameterEncoder, indent=2)
        out.flush()
        os.fsync(out.fileno())
    os.replace(tmp, file_name)
''', benign=True),
    Mut('c18-benign-direct-when-absent', PU, 'save_parameters', 'if not safely:…', '''
if not safely or not os.path.lexists(file_name):
    with open(file_name, 'w') as fp:
        json.dump(parameters, fp, cls=ParameterEncoder, indent=2)
else:
    with open(file_name + '.new', 'w') as fp:
        json.dump(parameters, fp, cls=ParameterEncoder, indent=2)
    os.replace(file_name + '.new', file_name)
''', benign=True, note='the name never becomes absent under atomic replace, so the direct branch is unreachable over an existing checkpoint'),
    Mut('c18-benign-guarded-old-protocol', PU, 'save_parameters', "os.replace(file_name + '.new', file_name)", '''
if os.path.lexists(file_name):
    os.rename(file_name, file_name + '.old')
os.rename(file_name + '.new', file_name)
if os.path.lexists(file_name + '.old'):
    os.remove(file_name + '.old')
''', benign=True, note='the .old protocol with existence guards is also crash safe'),
    Mut('c18-new-file-opened-without-truncation', 'torchtree/core/parameter_utils.py', '', "        with open(file_name + '.new', 'w') as fp:\n            json.dump(parameters, fp, cls=ParameterEncoder, indent=2)\n        os.replace(file_name + '.new', file_name)",
        "        fd = os.open(file_name + '.new', os.O_WRONLY | os.O_CREAT, 0o600)\n        with os.fdopen(fd, 'w') as fp:\n            json.dump(parameters, fp, cls=ParameterEncoder, indent=2)\n        os.replace(file_name + '.new', file_name)",
        expect=[('C18.I2', 'safely=True')], mode='text'),
    Mut('c18-benign-new-file-opened-with-truncation', 'torchtree/core/parameter_utils.py', '', "        with open(file_name + '.new', 'w') as fp:\n            json.dump(parameters, fp, cls=ParameterEncoder, indent=2)\n        os.replace(file_name + '.new', file_name)",
        "        fd = os.open(file_name + '.new', os.O_WRONLY | os.O_CREAT | os.O_TRUNC, 0o600)\n        with os.fdopen(fd, 'w') as fp:\n            json.dump(parameters, fp, cls=ParameterEncoder, indent=2)\n        os.replace(file_name + '.new', file_name)",
        benign=True, mode='text'),
    Mut('c18-replace-in-finally', 'torchtree/core/parameter_utils.py', '', "        with open(file_name + '.new', 'w') as fp:\n            json.dump(parameters, fp, cls=ParameterEncoder, indent=2)\n        os.replace(file_name + '.new', file_name)",
        "        try:\n            with open(file_name + '.new', 'w') as fp:\n                json.dump(parameters, fp, cls=ParameterEncoder, indent=2)\n        finally:\n            os.replace(file_name + '.new', file_name)",
        expect=[('C18.I2', 'safely=True')], mode='text'),
    Mut('c18-benign-cleanup-in-finally', 'torchtree/core/parameter_utils.py', '', "        with open(file_name + '.new', 'w') as fp:\n            json.dump(parameters, fp, cls=ParameterEncoder, indent=2)\n        os.replace(file_name + '.new', file_name)",
        "        done = False\n        try:\n            with open(file_name + '.new', 'w') as fp:\n                json.dump(parameters, fp, cls=ParameterEncoder, indent=2)\n            os.replace(file_name + '.new', file_name)\n            done = True\n        finally:\n            pass",
        benign=True, mode='text'),
    Mut('c18-resume-promotes-new-file', 'torchtree/torchtree.py', '', "            with open(checkpoint_file) as file_pointer:", "            if os.path.isfile(checkpoint_file + '.new'):\n                os.replace(checkpoint_file + '.new', checkpoint_file)\n            with open(checkpoint_file) as file_pointer:",
        expect=[('C18.R', 'main::resuming-only-reads-the-checkpoint-files')], mode='text',
        more=[dict(scope='', old="import sys\n", new="import sys\nimport os\n", mode='text')]),
]
CORPUS += [
    Mut('c18-hmc-checkpoints-through-a-dumper', 'torchtree/inference/hmc/hmc.py', 'HMC.run', 'save_parameters(self.checkpoint, self.parameters)',
        'Dumper(self.parameters, file_name=self.checkpoint, indent=2).run()', expect=[('C18.W', 'checkpoint-path-goes-to-the-atomic-writer-only::Dumper')]),
    Mut('c18-writer-started-on-a-thread', OPT, 'Optimizer.save_full_state', 'save_parameters(checkpoint, full_state, safely, overwrite)',
        'import threading\nthreading.Thread(target=save_parameters, args=(checkpoint, full_state, safely, overwrite)).start()', expect=[('C18.W', 'save_parameters-is-called-not-handed-over')]),
]
CORPUS += [
    Mut('c18-replace-through-a-remove-then-rename-helper', 'torchtree/core/parameter_utils.py', '', "        os.replace(file_name + '.new', file_name)\n",
        "        _move(file_name + '.new', file_name)\n\n\ndef _move(src, dst):\n    try:\n        os.remove(dst)\n    except FileNotFoundError:\n        pass\n    os.rename(src, dst)\n",
        mode='text', expect=[('C18.I1', '')]),
    Mut('c18-benign-replace-through-a-helper', 'torchtree/core/parameter_utils.py', '', "        os.replace(file_name + '.new', file_name)\n",
        "        _move(file_name + '.new', file_name)\n\n\ndef _move(src, dst):\n    os.replace(src, dst)\n", mode='text', benign=True),
]
CORPUS += [
    Mut('c18-in-place-fallback-when-the-directory-looks-read-only', 'torchtree/core/parameter_utils.py', '', "    if not safely:\n        with open(file_name, 'w') as fp:",
        "    if safely and not os.access(os.path.dirname(file_name), os.W_OK | os.X_OK):\n        safely = False\n    if not safely:\n        with open(file_name, 'w') as fp:", mode='text',
        expect=[('C18.I2', 'safely=True')]),
    Mut('c18-benign-directory-permissions-only-reported', 'torchtree/core/parameter_utils.py', '', "    if not safely:\n        with open(file_name, 'w') as fp:",
        "    if safely and not os.access(os.path.dirname(file_name) or '.', os.W_OK | os.X_OK):\n        print('checkpoint directory is not writable')\n    if not safely:\n        with open(file_name, 'w') as fp:", mode='text', benign=True),
]
CORPUS += [
    Mut('c18-optimiser-moments-in-a-side-file', 'torchtree/optim/optimizer.py', '', "        full_state = [optimizer_state] + self.parameters\n        save_parameters(checkpoint, full_state, safely, overwrite)\n",
        "        torch.save(self.optimizer.state_dict(), checkpoint + '.optim')\n        full_state = [optimizer_state] + self.parameters\n        save_parameters(checkpoint, full_state, safely, overwrite)\n",
        mode='text', expect=[('C18.W', 'torchtree.optim.optimizer.Optimizer.save_full_state::run-state-goes-through-the-atomic-writer-only')]),
]
